#!/bin/bash
# MANIFEST.setup_cmd: build the framework from files on disk only (offline).
set -eu
cd "$(dirname "$0")"
export GOFLAGS=-mod=mod GOPROXY=off GOSUMDB=off GOTOOLCHAIN=local
mkdir -p bin evidence replays
V=$PWD
(cd tools/vinstr && go build -o ../../bin/vinstr .)
tools/gen/run.sh >/dev/null
# warm the build cache: instrument the current tree and build every harness group once
for g in nsqdx lookupx adminx ntfx relayx; do
  S=$(mktemp -d /dev/shm/verif-setup-XXXXXX)
  ./build.sh $g "$S" || { rm -rf "$S"; echo "setup: build of $g failed"; exit 1; }
  rm -rf "$S"
done
# validate the explorers against brute-force enumeration (machinery self-test, never a verdict)
S=$(mktemp -d /dev/shm/verif-setup-XXXXXX)
if ./build.sh selftest "$S" && (cd "$S" && ./h > "$V/evidence/selftest.txt" 2>&1); then tail -1 evidence/selftest.txt; else echo "setup: WARNING explorer self-test did not pass, see evidence/selftest.txt"; fi
rm -rf "$S"
# bind the instrumented program to the real one: the repository's own tests must pass on the
# rewritten sources with no explorer attached (diagnostic; a mismatch does not block checks)
tools/conformance.sh > evidence/conformance.txt 2>&1 || echo "setup: WARNING instrumentation conformance run did not pass, see evidence/conformance.txt"
tail -1 evidence/conformance.txt
echo "setup ok"
