#!/bin/bash
# MANIFEST.setup_cmd: build the framework from files on disk only (offline).
set -eu
cd "$(dirname "$0")"
export GOFLAGS=-mod=mod GOPROXY=off GOSUMDB=off GOTOOLCHAIN=local
mkdir -p bin evidence replays
(cd tools/vinstr && go build -o ../../bin/vinstr .)
tools/gen/run.sh >/dev/null
# warm the build cache: instrument the current tree and build every harness group once
for g in nsqdx lookupx adminx ntfx relayx; do
  S=$(mktemp -d /dev/shm/verif-setup-XXXXXX)
  ./build.sh $g "$S" || { rm -rf "$S"; echo "setup: build of $g failed"; exit 1; }
  rm -rf "$S"
done
echo "setup ok"
