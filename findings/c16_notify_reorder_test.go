package nsqd

// Plain replay (no explorer) of the C16 defect repaired by the "fix:" commit
// "nsqd: never unregister a re-created topic/channel ...". Copy into nsqd/ and run
//   go test -vet=off -count=1 -run TestFindingC16 ./nsqd/
// It fails on the tree before the fix and passes after it.
//
// NSQD.Notify hands every notification to lookupLoop from its own goroutine, so the
// notification of a deletion can reach lookupLoop after the one of the re-creation that
// followed it (found by ./check C16: scripts mk:a,rm:a,mk:a and mk:a,mkch:a:x,rmch:a:x,
// mkch:a:x with one scheduling deviation). The test produces that arrival order directly:
// it delivers the deleted object's notification once more after the re-creation.

import (
	"fmt"
	"os"
	"testing"
	"time"

	"github.com/nsqio/nsq/internal/http_api"
	"github.com/nsqio/nsq/internal/test"
	"github.com/nsqio/nsq/nsqlookupd"
)

func TestFindingC16LateDeleteNotification(t *testing.T) {
	lopts := nsqlookupd.NewOptions()
	lopts.Logger = test.NewTestLogger(t)
	lopts.BroadcastAddress = "127.0.0.1"
	_, _, lookupd := mustStartNSQLookupd(lopts)
	defer lookupd.Exit()

	opts := NewOptions()
	opts.Logger = test.NewTestLogger(t)
	opts.NSQLookupdTCPAddresses = []string{lookupd.RealTCPAddr().String()}
	opts.BroadcastAddress = "127.0.0.1"
	_, _, n := mustStartNSQD(opts)
	defer os.RemoveAll(opts.DataPath)
	defer n.Exit()

	producers := func(topic string) int {
		var d struct {
			Producers []interface{} `json:"producers"`
		}
		url := fmt.Sprintf("http://%s/lookup?topic=%s", lookupd.RealHTTPAddr(), topic)
		if err := http_api.NewClient(nil, ConnectTimeout, RequestTimeout).GETV1(url, &d); err != nil {
			return 0
		}
		return len(d.Producers)
	}
	waitFor := func(what string, want int) {
		for i := 0; i < 200; i++ {
			if producers("a") == want {
				return
			}
			time.Sleep(10 * time.Millisecond)
		}
		t.Fatalf("%s: nsqlookupd lists %d producers of topic a, want %d", what, producers("a"), want)
	}

	old := n.GetTopic("a")
	waitFor("after create", 1)
	test.Nil(t, n.DeleteExistingTopic("a"))
	waitFor("after delete", 0)
	n.GetTopic("a")
	waitFor("after re-create", 1)
	// the deletion's notification arrives (again) after the re-creation's
	n.notifyChan <- old
	time.Sleep(200 * time.Millisecond)
	if got := producers("a"); got != 1 {
		t.Fatalf("topic a exists on nsqd but nsqlookupd lists %d producers for it after a late deletion notification", got)
	}
}
