package nsqd

// Plain replay (no explorer) of the C16 defect repaired by the "fix:" commit
// "nsqd: do not register a channel with nsqlookupd after its topic has gone". Copy into
// nsqd/ and run
//   go test -vet=off -count=1 -run TestFindingC16RegisterAfterTopicDelete ./nsqd/
// It fails on the tree before the fix and passes after it.
//
// Topic.exit(deleted) notifies lookupLoop of the topic's deletion BEFORE it deletes the
// topic's channels, and every notification travels in its own goroutine. So the creation
// notification of a channel can reach lookupLoop after the topic's deletion notification
// and before the channel itself is marked exiting: lookupLoop then sends REGISTER topic
// channel - which registers the TOPIC again as well - and the channel's own UNREGISTER that
// follows removes only the channel. nsqlookupd keeps listing the nsqd as a producer of a
// topic it no longer has (heartbeats only PING). Found by ./check C16 --tier thorough:
// scripts mk:a,mkch:a:x,rm:a with two scheduling deviations on the notification path.
// The test produces that arrival order directly.

import (
	"fmt"
	"os"
	"sync/atomic"
	"testing"
	"time"

	"github.com/nsqio/nsq/internal/http_api"
	"github.com/nsqio/nsq/internal/test"
	"github.com/nsqio/nsq/nsqlookupd"
)

func TestFindingC16RegisterAfterTopicDelete(t *testing.T) {
	lopts := nsqlookupd.NewOptions()
	lopts.Logger = test.NewTestLogger(t)
	lopts.BroadcastAddress = "127.0.0.1"
	_, _, lookupd := mustStartNSQLookupd(lopts)
	defer lookupd.Exit()

	opts := NewOptions()
	opts.Logger = test.NewTestLogger(t)
	opts.NSQLookupdTCPAddresses = []string{lookupd.RealTCPAddr().String()}
	opts.BroadcastAddress = "127.0.0.1"
	_, _, n := mustStartNSQD(opts)
	defer os.RemoveAll(opts.DataPath)
	defer n.Exit()

	producers := func(topic string) int {
		var d struct {
			Producers []interface{} `json:"producers"`
		}
		url := fmt.Sprintf("http://%s/lookup?topic=%s", lookupd.RealHTTPAddr(), topic)
		if err := http_api.NewClient(nil, ConnectTimeout, RequestTimeout).GETV1(url, &d); err != nil {
			return 0
		}
		return len(d.Producers)
	}
	waitFor := func(what string, want int) {
		for i := 0; i < 200; i++ {
			if producers("a") == want {
				return
			}
			time.Sleep(10 * time.Millisecond)
		}
		t.Fatalf("%s: nsqlookupd lists %d producers of topic a, want %d", what, producers("a"), want)
	}

	topic := n.GetTopic("a")
	waitFor("after create", 1)
	channel := topic.GetChannel("x")
	time.Sleep(100 * time.Millisecond)

	// the deletion of topic a as lookupLoop can see it: the topic is marked exiting and its
	// notification arrives ...
	atomic.StoreInt32(&topic.exitFlag, 1)
	n.notifyChan <- topic
	waitFor("after the topic's deletion notification", 0)
	// ... then the (late) creation notification of channel x, which is not exiting yet ...
	n.notifyChan <- channel
	time.Sleep(200 * time.Millisecond)
	t.Logf("after late channel creation notification: producers=%d", producers("a"))
	// ... then the channel's own deletion notification
	atomic.StoreInt32(&channel.exitFlag, 1)
	n.notifyChan <- channel
	time.Sleep(300 * time.Millisecond)
	got := producers("a")
	atomic.StoreInt32(&channel.exitFlag, 0)
	atomic.StoreInt32(&topic.exitFlag, 0)
	if got != 0 {
		t.Fatalf("topic a is being deleted on nsqd, its UNREGISTER has been sent, yet nsqlookupd lists %d producer(s) for it after a late channel notification", got)
	}
}
