#!/bin/bash
# seedtest.sh <seed-dir> <worktree> <checks...>: confirm a seeded change (tests pass with it,
# demo fails with it and passes without it), then run the given checks against the
# worktree with the change applied. Output under <seed-dir>/log/.
# SKIP_CONFIRM=1: only (re-)run the checks. VERIF_SNAP=<dir>: run the checks of a frozen copy
# of /verif (so that /verif can be edited meanwhile).
set -u
SEED=$1; WT=$2; shift 2
export GOFLAGS=-mod=mod GOPROXY=off GOSUMDB=off GOTOOLCHAIN=local
mkdir -p $SEED/log
cd $WT && git checkout -q -- . && git clean -fdq
DEMO=$(ls $SEED/*_test.go 2>/dev/null | head -1)
PKG=nsqd
grep -q "^package nsqlookupd" "$DEMO" 2>/dev/null && PKG=nsqlookupd
PD=$(jq -r '.package_dir // empty' $SEED/meta.json 2>/dev/null)
[ -n "$PD" ] && PKG=${PD#./}
git apply $SEED/patch.diff || { echo "patch does not apply" > $SEED/log/confirm.txt; exit 1; }
if [ -z "${SKIP_CONFIRM:-}" ]; then
# the repository tests bind fixed ports: one confirmation at a time
exec 9>/tmp/seedtest.lock; flock 9
go build ./... > $SEED/log/build.txt 2>&1 && echo "build: ok" > $SEED/log/confirm.txt || echo "build: FAILED" > $SEED/log/confirm.txt
go test -vet=off -count=1 ./... > $SEED/log/tests_with_change.txt 2>&1 && echo "existing tests with change: pass" >> $SEED/log/confirm.txt || echo "existing tests with change: FAIL" >> $SEED/log/confirm.txt
if [ -n "$DEMO" ]; then
  cp $DEMO $WT/$PKG/zz_seed_demo_test.go
  go test -vet=off -count=1 -run 'TestSeed' ./$PKG/ > $SEED/log/demo_with_change.txt 2>&1 && echo "demo with change: pass (UNEXPECTED)" >> $SEED/log/confirm.txt || echo "demo with change: fail (expected)" >> $SEED/log/confirm.txt
  git apply -R $SEED/patch.diff
  go test -vet=off -count=1 -run 'TestSeed' ./$PKG/ > $SEED/log/demo_without_change.txt 2>&1 && echo "demo without change: pass (expected)" >> $SEED/log/confirm.txt || echo "demo without change: FAIL (unexpected)" >> $SEED/log/confirm.txt
  rm -f $WT/$PKG/zz_seed_demo_test.go
  git apply $SEED/patch.diff
fi
flock -u 9
else
  grep -v "^check " $SEED/log/confirm.txt > $SEED/log/confirm.tmp; mv $SEED/log/confirm.tmp $SEED/log/confirm.txt
fi
for c in "$@"; do
  OUT=$(mktemp -d /dev/shm/seedout-XXXXXX)
  VERIF_REPO=$WT VERIF_OUT=$OUT ${VERIF_SNAP:-/verif}/check $c --tier quick > $SEED/log/check_$c.txt 2>&1
  echo "check $c: exit $? ; $(grep -c '^VIOLATION' $SEED/log/check_$c.txt) violation lines" >> $SEED/log/confirm.txt
  rm -rf $OUT
done
git checkout -q -- . 
cat $SEED/log/confirm.txt
