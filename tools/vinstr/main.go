// vinstr prototype: rewrite Go packages for the controlled runtime, emit overlay.json.
package main

import (
	"bytes"
	"encoding/json"
	"flag"
	"fmt"
	"go/ast"
	"go/build/constraint"
	"go/format"
	"go/token"
	"go/types"
	"hash/fnv"
	"os"
	"path/filepath"
	"strconv"
	"strings"

	"golang.org/x/tools/go/ast/astutil"
	"golang.org/x/tools/go/packages"
)

const vbase = "github.com/nsqio/nsq/internal/verif/"

var importMap = map[string]string{
	"sync":        vbase + "vsync",
	"sync/atomic": vbase + "vatomic",
	"time":        vbase + "vtime",
	"os":          vbase + "vos",
	"math/rand":   vbase + "vrand",
	"net":         vbase + "vnet",
	"github.com/nsqio/go-diskqueue": vbase + "dq",
}

// packages whose instrumented files are mounted at a virtual directory inside the repo
var relocate = map[string]string{
	"github.com/nsqio/go-diskqueue": "internal/verif/dq",
}

type rewriter struct {
	info    *types.Info
	fset    *token.FileSet
	skip    map[ast.Node]bool // recv/send nodes handled by their parent (select comm)
	recv2   map[ast.Node]bool
	n       int
	usedVrt bool
	usedUnsafe bool
}

func (r *rewriter) tmp(p string) *ast.Ident {
	r.n++
	return ast.NewIdent(fmt.Sprintf("_v%s%d", p, r.n))
}

func vrtCall(fn string, args ...ast.Expr) *ast.CallExpr {
	return &ast.CallExpr{Fun: &ast.SelectorExpr{X: ast.NewIdent("vrt"), Sel: ast.NewIdent(fn)}, Args: args}
}

func define(lhs ast.Expr, rhs ast.Expr) ast.Stmt {
	return &ast.AssignStmt{Lhs: []ast.Expr{lhs}, Tok: token.DEFINE, Rhs: []ast.Expr{rhs}}
}

func (r *rewriter) isConst(e ast.Expr) bool {
	tv, ok := r.info.Types[e]
	if ok && (tv.Value != nil || tv.IsNil()) {
		return true
	}
	if id, ok := e.(*ast.Ident); ok && id.Name == "nil" {
		return true
	}
	return false
}

func (r *rewriter) isBuiltin(e ast.Expr, name string) bool {
	id, ok := e.(*ast.Ident)
	if !ok || id.Name != name {
		return false
	}
	_, isB := r.info.Uses[id].(*types.Builtin)
	return isB
}

func isBlank(e ast.Expr) bool {
	id, ok := e.(*ast.Ident)
	return e == nil || (ok && id.Name == "_")
}

func (r *rewriter) pre(c *astutil.Cursor) bool {
	switch n := c.Node().(type) {
	case *ast.SelectStmt:
		for _, cl := range n.Body.List {
			cc := cl.(*ast.CommClause)
			switch s := cc.Comm.(type) {
			case *ast.SendStmt:
				r.skip[s] = true
			case *ast.ExprStmt:
				r.skip[ast.Unparen(s.X)] = true
			case *ast.AssignStmt:
				r.skip[ast.Unparen(s.Rhs[0])] = true
			}
		}
	case *ast.AssignStmt:
		if len(n.Lhs) == 2 && len(n.Rhs) == 1 {
			if u, ok := ast.Unparen(n.Rhs[0]).(*ast.UnaryExpr); ok && u.Op == token.ARROW {
				r.recv2[u] = true
			}
		}
	case *ast.ValueSpec:
		if len(n.Names) == 2 && len(n.Values) == 1 {
			if u, ok := ast.Unparen(n.Values[0]).(*ast.UnaryExpr); ok && u.Op == token.ARROW {
				r.recv2[u] = true
			}
		}
	}
	return true
}

func (r *rewriter) post(c *astutil.Cursor) bool {
	switch n := c.Node().(type) {
	case *ast.UnaryExpr:
		if n.Op == token.ARROW && !r.skip[n] {
			r.usedVrt = true
			if r.recv2[n] {
				c.Replace(vrtCall("Recv2", n.X))
			} else {
				c.Replace(vrtCall("Recv", n.X))
			}
		}
	case *ast.SendStmt:
		if !r.skip[n] {
			r.usedVrt = true
			c.Replace(&ast.ExprStmt{X: vrtCall("Send", n.Chan, n.Value)})
		}
	case *ast.CallExpr:
		if r.isBuiltin(n.Fun, "close") && len(n.Args) == 1 {
			r.usedVrt = true
			c.Replace(vrtCall("Close", n.Args[0]))
		}
	case *ast.GoStmt:
		r.usedVrt = true
		c.Replace(r.rewriteGo(n))
	case *ast.SelectStmt:
		r.usedVrt = true
		pre, sw := r.rewriteSelect(n)
		r.replaceMaybeLabeled(c, pre, sw)
	case *ast.RangeStmt:
		t := r.info.TypeOf(n.X)
		if t == nil {
			return true
		}
		switch t.Underlying().(type) {
		case *types.Map:
			r.usedVrt = true
			pre, loop := r.rewriteMapRange(n)
			r.replaceMaybeLabeled(c, pre, loop)
		case *types.Chan:
			r.usedVrt = true
			pre, loop := r.rewriteChanRange(n)
			r.replaceMaybeLabeled(c, pre, loop)
		}
	case *ast.LabeledStmt:
		// a child marked itself via pendingLabel: rebuild as { pre...; label: stmt }
		if p, ok := pending[n.Stmt]; ok {
			delete(pending, n.Stmt)
			blk := &ast.BlockStmt{List: append(append([]ast.Stmt{}, p.pre...), &ast.LabeledStmt{Label: n.Label, Stmt: p.stmt})}
			c.Replace(blk)
		}
	}
	return true
}

type pend struct {
	pre  []ast.Stmt
	stmt ast.Stmt
}

var pending = map[ast.Stmt]pend{}

func (r *rewriter) replaceMaybeLabeled(c *astutil.Cursor, pre []ast.Stmt, stmt ast.Stmt) {
	if _, ok := c.Parent().(*ast.LabeledStmt); ok {
		// leave a marker; the LabeledStmt post-visit rebuilds
		marker := &ast.EmptyStmt{}
		pending[marker] = pend{pre, stmt}
		c.Replace(marker)
		return
	}
	c.Replace(&ast.BlockStmt{List: append(append([]ast.Stmt{}, pre...), stmt)})
}

func (r *rewriter) rewriteGo(g *ast.GoStmt) ast.Stmt {
	var pre []ast.Stmt
	call := g.Call
	fun := call.Fun
	if _, isLit := ast.Unparen(fun).(*ast.FuncLit); !isLit {
		if _, isIdent := fun.(*ast.Ident); !isIdent {
			f := r.tmp("f")
			pre = append(pre, define(f, fun))
			fun = f
		}
	}
	args := make([]ast.Expr, len(call.Args))
	for i, a := range call.Args {
		if r.isConst(a) {
			args[i] = a
			continue
		}
		if _, isLit := a.(*ast.FuncLit); isLit {
			args[i] = a
			continue
		}
		t := r.tmp("a")
		pre = append(pre, define(t, a))
		args[i] = t
	}
	inner := &ast.CallExpr{Fun: fun, Args: args, Ellipsis: call.Ellipsis}
	lit := &ast.FuncLit{Type: &ast.FuncType{Params: &ast.FieldList{}}, Body: &ast.BlockStmt{List: []ast.Stmt{&ast.ExprStmt{X: inner}}}}
	pre = append(pre, &ast.ExprStmt{X: vrtCall("Go", lit)})
	return &ast.BlockStmt{List: pre}
}

func (r *rewriter) rewriteSelect(s *ast.SelectStmt) ([]ast.Stmt, ast.Stmt) {
	var pre []ast.Stmt
	var cases []ast.Expr
	var clauses []ast.Stmt
	hasDefault := false
	idx := 0
	res := r.tmp("r")
	for _, cl := range s.Body.List {
		cc := cl.(*ast.CommClause)
		if cc.Comm == nil {
			hasDefault = true
			clauses = append(clauses, &ast.CaseClause{List: nil, Body: cc.Body})
			continue
		}
		var body []ast.Stmt
		switch cm := cc.Comm.(type) {
		case *ast.SendStmt:
			ch := r.tmp("c")
			pre = append(pre, define(ch, cm.Chan))
			var v ast.Expr = cm.Value
			if !r.isConst(v) {
				t := r.tmp("s")
				pre = append(pre, define(t, v))
				v = t
			}
			cases = append(cases, vrtCall("S_", ch, v))
		case *ast.ExprStmt:
			u := ast.Unparen(cm.X).(*ast.UnaryExpr)
			ch := r.tmp("c")
			pre = append(pre, define(ch, u.X))
			cases = append(cases, vrtCall("R", ch))
		case *ast.AssignStmt:
			u := ast.Unparen(cm.Rhs[0]).(*ast.UnaryExpr)
			ch := r.tmp("c")
			pre = append(pre, define(ch, u.X))
			cases = append(cases, vrtCall("R", ch))
			fn := "Val"
			if len(cm.Lhs) == 2 {
				fn = "Val2"
			}
			body = append(body, &ast.AssignStmt{Lhs: cm.Lhs, Tok: cm.Tok, Rhs: []ast.Expr{vrtCall(fn, ch, res)}})
		}
		body = append(body, cc.Body...)
		clauses = append(clauses, &ast.CaseClause{
			List: []ast.Expr{&ast.BasicLit{Kind: token.INT, Value: strconv.Itoa(idx)}}, Body: body})
		idx++
	}
	i := r.tmp("i")
	hd := "false"
	if hasDefault {
		hd = "true"
	}
	args := append([]ast.Expr{ast.NewIdent(hd)}, cases...)
	pre = append(pre,
		&ast.AssignStmt{Lhs: []ast.Expr{i, res}, Tok: token.DEFINE, Rhs: []ast.Expr{vrtCall("Select", args...)}},
		&ast.AssignStmt{Lhs: []ast.Expr{ast.NewIdent("_")}, Tok: token.ASSIGN, Rhs: []ast.Expr{res}})
	sw := &ast.SwitchStmt{Tag: i, Body: &ast.BlockStmt{List: clauses}}
	return pre, sw
}

func (r *rewriter) rewriteMapRange(n *ast.RangeStmt) ([]ast.Stmt, ast.Stmt) {
	m := r.tmp("m")
	pre := []ast.Stmt{define(m, n.X)}
	k := r.tmp("k")
	var body []ast.Stmt
	ok := r.tmp("ok")
	val := r.tmp("x")
	// value, ok := m[k]; if !ok { continue }
	body = append(body,
		&ast.AssignStmt{Lhs: []ast.Expr{val, ok}, Tok: token.DEFINE, Rhs: []ast.Expr{&ast.IndexExpr{X: m, Index: k}}},
		&ast.IfStmt{Cond: &ast.UnaryExpr{Op: token.NOT, X: ok}, Body: &ast.BlockStmt{List: []ast.Stmt{&ast.BranchStmt{Tok: token.CONTINUE}}}},
		&ast.AssignStmt{Lhs: []ast.Expr{ast.NewIdent("_")}, Tok: token.ASSIGN, Rhs: []ast.Expr{val}})
	if !isBlank(n.Key) {
		body = append(body, &ast.AssignStmt{Lhs: []ast.Expr{n.Key}, Tok: n.Tok, Rhs: []ast.Expr{k}})
		if n.Tok == token.DEFINE {
			body = append(body, &ast.AssignStmt{Lhs: []ast.Expr{ast.NewIdent("_")}, Tok: token.ASSIGN, Rhs: []ast.Expr{n.Key}})
		}
	}
	if !isBlank(n.Value) {
		body = append(body, &ast.AssignStmt{Lhs: []ast.Expr{n.Value}, Tok: n.Tok, Rhs: []ast.Expr{val}})
		if n.Tok == token.DEFINE {
			body = append(body, &ast.AssignStmt{Lhs: []ast.Expr{ast.NewIdent("_")}, Tok: token.ASSIGN, Rhs: []ast.Expr{n.Value}})
		}
	}
	body = append(body, n.Body.List...)
	loop := &ast.RangeStmt{Key: ast.NewIdent("_"), Value: k, Tok: token.DEFINE,
		X: vrtCall("MapKeys", m), Body: &ast.BlockStmt{List: body}}
	return pre, loop
}

func (r *rewriter) rewriteChanRange(n *ast.RangeStmt) ([]ast.Stmt, ast.Stmt) {
	ch := r.tmp("c")
	pre := []ast.Stmt{define(ch, n.X)}
	x, ok := r.tmp("x"), r.tmp("ok")
	body := []ast.Stmt{
		&ast.AssignStmt{Lhs: []ast.Expr{x, ok}, Tok: token.DEFINE, Rhs: []ast.Expr{vrtCall("Recv2", ch)}},
		&ast.IfStmt{Cond: &ast.UnaryExpr{Op: token.NOT, X: ok}, Body: &ast.BlockStmt{List: []ast.Stmt{&ast.BranchStmt{Tok: token.BREAK}}}},
		&ast.AssignStmt{Lhs: []ast.Expr{ast.NewIdent("_")}, Tok: token.ASSIGN, Rhs: []ast.Expr{x}},
	}
	if !isBlank(n.Key) {
		body = append(body, &ast.AssignStmt{Lhs: []ast.Expr{n.Key}, Tok: n.Tok, Rhs: []ast.Expr{x}})
		if n.Tok == token.DEFINE {
			body = append(body, &ast.AssignStmt{Lhs: []ast.Expr{ast.NewIdent("_")}, Tok: token.ASSIGN, Rhs: []ast.Expr{n.Key}})
		}
	}
	body = append(body, n.Body.List...)
	return pre, &ast.ForStmt{Body: &ast.BlockStmt{List: body}}
}

// ---------------------------------------------------------------- plain field accesses
//
// accPass inserts, before every simple statement, a note vrt.Acc(base, offset, write) for
// each plain access `x.f` the statement makes, where x is a variable holding a struct (or
// a pointer to one) declared in an instrumented package and f is a field of a non-struct,
// non-synchronisation type. The note does not evaluate anything (unsafe.Offsetof is a
// constant; a nil base is ignored), is not a decision point, and only feeds the explorers'
// dependence relation: two transitions that touch the same field, one of them writing,
// do not commute.

type accNote struct {
	root  *ast.Ident
	sel   *ast.SelectorExpr
	write bool
	byPtr bool
	class uint32 // hash of package.Type.field
	addr  bool   // only the address is taken (&x.f, e.g. for an atomic operation)
}

var accPkgs = map[string]bool{} // package paths whose struct types are tracked

func (r *rewriter) fieldAccess(sel *ast.SelectorExpr) (*accNote, bool) {
	id, ok := ast.Unparen(sel.X).(*ast.Ident)
	if !ok {
		return nil, false
	}
	v, ok := r.info.Uses[id].(*types.Var)
	if !ok || v.IsField() {
		return nil, false
	}
	s, ok := r.info.Selections[sel]
	if !ok || s.Kind() != types.FieldVal || len(s.Index()) != 1 {
		return nil, false
	}
	t := v.Type()
	byPtr := false
	if p, ok := t.Underlying().(*types.Pointer); ok {
		t = p.Elem()
		byPtr = true
	}
	named, ok := t.(*types.Named)
	if !ok || named.Obj().Pkg() == nil || !accPkgs[named.Obj().Pkg().Path()] {
		return nil, false
	}
	if _, ok := named.Underlying().(*types.Struct); !ok {
		return nil, false
	}
	if !byPtr && v.Pkg() != nil && v.Parent() != v.Pkg().Scope() {
		// a local struct value is private to its goroutine unless its address escapes;
		// only pointers and package-level variables are tracked
		return nil, false
	}
	// field type: skip embedded structs and synchronisation objects (their methods are the
	// decision points), keep scalars, strings, pointers, maps, slices, channels, interfaces
	ft := s.Obj().Type()
	if n, ok := ft.(*types.Named); ok && n.Obj().Pkg() != nil {
		switch n.Obj().Pkg().Path() {
		case "sync", "sync/atomic":
			return nil, false
		}
	}
	switch ft.Underlying().(type) {
	case *types.Struct:
		return nil, false
	}
	h := fnv.New32a()
	h.Write([]byte(named.Obj().Pkg().Path() + "." + named.Obj().Name() + "." + sel.Sel.Name))
	return &accNote{root: id, sel: sel, byPtr: byPtr, class: h.Sum32()}, true
}

// collectAcc gathers the accesses made by the expressions of one statement (not its
// nested blocks or function literals).
func (r *rewriter) collectAcc(stmtPos, stmtEnd token.Pos, nodes []ast.Node, writes map[*ast.SelectorExpr]bool) []accNote {
	var out []accNote
	seen := map[string]int{}
	addrOf := map[*ast.SelectorExpr]bool{}
	for _, n := range nodes {
		if n == nil || reflectNil(n) {
			continue
		}
		ast.Inspect(n, func(x ast.Node) bool {
			switch e := x.(type) {
			case *ast.FuncLit, *ast.BlockStmt:
				return false
			case *ast.UnaryExpr:
				if e.Op == token.AND {
					if s, ok := ast.Unparen(e.X).(*ast.SelectorExpr); ok {
						addrOf[s] = true
					}
				}
			case *ast.SelectorExpr:
				a, ok := r.fieldAccess(e)
				if ok && addrOf[e] {
					a.addr = true
				}
				if !ok {
					return true
				}
				// the root variable must be declared before this statement
				if obj := r.info.Uses[a.root]; obj == nil || (obj.Pos() >= stmtPos && obj.Pos() <= stmtEnd) {
					return true
				}
				a.write = writes[e]
				k := a.root.Name + "." + e.Sel.Name
				if a.addr {
					k = "&" + k
				}
				if i, dup := seen[k]; dup {
					if a.write {
						out[i].write = true
					}
					return true
				}
				seen[k] = len(out)
				out = append(out, *a)
			}
			return true
		})
	}
	return out
}

func reflectNil(n ast.Node) bool {
	switch v := n.(type) {
	case ast.Expr:
		return v == nil
	case ast.Stmt:
		return v == nil
	}
	return false
}

// writeTargets marks the selector expressions a statement writes: x.f = , x.f op= , x.f++ ,
// x.f[k] = (element of a map/slice field), delete(x.f, k).
func writeTargets(lhs []ast.Expr, writes map[*ast.SelectorExpr]bool) {
	for _, l := range lhs {
		e := ast.Unparen(l)
		for {
			if ix, ok := e.(*ast.IndexExpr); ok {
				e = ast.Unparen(ix.X)
				continue
			}
			break
		}
		if s, ok := e.(*ast.SelectorExpr); ok {
			writes[s] = true
		}
	}
}

func (r *rewriter) notesFor(st ast.Stmt) []ast.Stmt {
	writes := map[*ast.SelectorExpr]bool{}
	var nodes []ast.Node
	switch s := st.(type) {
	case *ast.AssignStmt:
		if s.Tok != token.DEFINE {
			writeTargets(s.Lhs, writes)
		}
		for _, e := range s.Lhs {
			nodes = append(nodes, e)
		}
		for _, e := range s.Rhs {
			nodes = append(nodes, e)
		}
	case *ast.IncDecStmt:
		writeTargets([]ast.Expr{s.X}, writes)
		nodes = append(nodes, s.X)
	case *ast.ExprStmt:
		if c, ok := s.X.(*ast.CallExpr); ok && r.isBuiltin(c.Fun, "delete") && len(c.Args) == 2 {
			writeTargets(c.Args[:1], writes)
		}
		nodes = append(nodes, s.X)
	case *ast.SendStmt:
		nodes = append(nodes, s.Chan, s.Value)
	case *ast.ReturnStmt:
		for _, e := range s.Results {
			nodes = append(nodes, e)
		}
	case *ast.IfStmt:
		if s.Init != nil {
			nodes = append(nodes, s.Init)
		}
		nodes = append(nodes, s.Cond)
	case *ast.SwitchStmt:
		if s.Init != nil {
			nodes = append(nodes, s.Init)
		}
		if s.Tag != nil {
			nodes = append(nodes, s.Tag)
		}
	case *ast.RangeStmt:
		nodes = append(nodes, s.X)
	case *ast.ForStmt:
		if s.Cond != nil {
			nodes = append(nodes, s.Cond)
		}
	case *ast.DeferStmt:
		for _, e := range s.Call.Args {
			nodes = append(nodes, e)
		}
	case *ast.GoStmt:
		for _, e := range s.Call.Args {
			nodes = append(nodes, e)
		}
	case *ast.LabeledStmt:
		return r.notesFor(s.Stmt)
	default:
		return nil
	}
	var out []ast.Stmt
	for _, a := range r.collectAcc(st.Pos(), st.End(), nodes, writes) {
		var base ast.Expr = ast.NewIdent(a.root.Name)
		if !a.byPtr {
			base = &ast.UnaryExpr{Op: token.AND, X: base}
		}
		w := "false"
		if a.write {
			w = "true"
		}
		off := &ast.CallExpr{Fun: &ast.SelectorExpr{X: ast.NewIdent("unsafe"), Sel: ast.NewIdent("Offsetof")},
			Args: []ast.Expr{&ast.SelectorExpr{X: ast.NewIdent(a.root.Name), Sel: ast.NewIdent(a.sel.Sel.Name)}}}
		ptr := &ast.CallExpr{Fun: &ast.SelectorExpr{X: ast.NewIdent("unsafe"), Sel: ast.NewIdent("Pointer")}, Args: []ast.Expr{base}}
		cls := &ast.BasicLit{Kind: token.INT, Value: strconv.FormatUint(uint64(a.class), 10)}
		if a.addr {
			out = append(out, &ast.ExprStmt{X: vrtCall("Cls", ptr, off, cls)})
		} else {
			out = append(out, &ast.ExprStmt{X: vrtCall("Acc", ptr, off, ast.NewIdent(w), cls)})
		}
		r.usedVrt = true
		r.usedUnsafe = true
	}
	return out
}

func (r *rewriter) accList(list []ast.Stmt) []ast.Stmt {
	var out []ast.Stmt
	for _, st := range list {
		out = append(out, r.notesFor(st)...)
		out = append(out, st)
	}
	return out
}

func (r *rewriter) accPass(f *ast.File) {
	ast.Inspect(f, func(n ast.Node) bool {
		switch b := n.(type) {
		case *ast.BlockStmt:
			b.List = r.accList(b.List)
		case *ast.CaseClause:
			b.Body = r.accList(b.Body)
		case *ast.CommClause:
			b.Body = r.accList(b.Body)
		}
		return true
	})
}

func main() {
	repo := flag.String("repo", "/repo", "module root")
	out := flag.String("out", "", "output dir")
	rt := flag.String("rt", "/verif/rt", "runtime sources to mount at internal/verif")
	extra := flag.String("extra", "", "comma list of src=dst extra overlay mappings")
	mounts := flag.String("mount", "", "comma list of srcdir=dstdir: every .go file of srcdir is overlaid into dstdir (relative to the module root)")
	noimp := flag.String("keep", "", "comma list of import paths NOT to substitute (e.g. os)")
	accFlag := flag.String("acc", "", "comma list of package paths whose struct fields get plain-access notes (vrt.Acc)")
	flag.Parse()
	for _, k := range strings.Split(*noimp, ",") {
		delete(importMap, k)
	}
	for _, k := range strings.Split(*accFlag, ",") {
		if k != "" {
			accPkgs[k] = true
		}
	}
	pats := flag.Args()
	os.MkdirAll(*out, 0755)
	cfg := &packages.Config{Mode: packages.NeedName | packages.NeedFiles | packages.NeedCompiledGoFiles | packages.NeedSyntax |
		packages.NeedTypes | packages.NeedTypesInfo | packages.NeedImports | packages.NeedDeps, Dir: *repo}
	pkgs, err := packages.Load(cfg, pats...)
	if err != nil {
		fmt.Fprintln(os.Stderr, err)
		os.Exit(2)
	}
	overlay := map[string]string{}
	for _, p := range pkgs {
		if len(p.Errors) > 0 {
			fmt.Fprintln(os.Stderr, "package errors:", p.PkgPath, p.Errors)
			os.Exit(2)
		}
		for i, f := range p.Syntax {
			src := p.CompiledGoFiles[i]
			r := &rewriter{info: p.TypesInfo, fset: p.Fset, skip: map[ast.Node]bool{}, recv2: map[ast.Node]bool{}}
			// build constraint
			var cons string
			for _, cg := range f.Comments {
				if cg.Pos() > f.Package {
					break
				}
				for _, c := range cg.List {
					if constraint.IsGoBuild(c.Text) {
						cons = strings.TrimSpace(strings.TrimPrefix(c.Text, "//go:build"))
					}
				}
			}
			changedImport := false
			for _, is := range f.Imports {
				path, _ := strconv.Unquote(is.Path.Value)
				if np, ok := importMap[path]; ok {
					if is.Name == nil {
						name := path[strings.LastIndex(path, "/")+1:]
						if ip, ok := p.Imports[path]; ok && ip.Name != "" {
							name = ip.Name
						}
						is.Name = ast.NewIdent(name)
					}
					is.Path.Value = strconv.Quote(np)
					changedImport = true
				}
			}
			if accPkgs[p.PkgPath] {
				r.accPass(f)
			}
			astutil.Apply(f, r.pre, r.post)
			reloc, isReloc := relocate[p.PkgPath]
			if !r.usedVrt && !changedImport && !isReloc {
				continue
			}
			if r.usedVrt {
				astutil.AddNamedImport(p.Fset, f, "vrt", vbase+"vrt")
			}
			if r.usedUnsafe {
				astutil.AddImport(p.Fset, f, "unsafe")
			}
			f.Comments = nil
			var buf bytes.Buffer
			if cons != "" {
				fmt.Fprintf(&buf, "//go:build go1.18 && (%s)\n\n", cons)
			} else {
				fmt.Fprintf(&buf, "//go:build go1.18\n\n")
			}
			if err := format.Node(&buf, p.Fset, f); err != nil {
				fmt.Fprintln(os.Stderr, "format:", src, err)
				os.Exit(2)
			}
			rel := strings.ReplaceAll(strings.TrimPrefix(src, "/"), "/", "__")
			dst := filepath.Join(*out, rel)
			os.WriteFile(dst, buf.Bytes(), 0644)
			if isReloc {
				overlay[filepath.Join(*repo, reloc, filepath.Base(src))] = dst
			} else {
				overlay[src] = dst
			}
		}
	}
	// mount runtime packages
	filepath.Walk(*rt, func(path string, fi os.FileInfo, err error) error {
		if err == nil && !fi.IsDir() && strings.HasSuffix(path, ".go") {
			rel, _ := filepath.Rel(*rt, path)
			overlay[filepath.Join(*repo, "internal/verif", rel)] = path
		}
		return nil
	})
	for _, kv := range strings.Split(*mounts, ",") {
		if kv == "" {
			continue
		}
		p := strings.SplitN(kv, "=", 2)
		ents, err := os.ReadDir(p[0])
		if err != nil {
			fmt.Fprintln(os.Stderr, "mount:", err)
			os.Exit(2)
		}
		for _, e := range ents {
			if !e.IsDir() && strings.HasSuffix(e.Name(), ".go") {
				overlay[filepath.Join(*repo, p[1], e.Name())] = filepath.Join(p[0], e.Name())
			}
		}
	}
	for _, kv := range strings.Split(*extra, ",") {
		if kv == "" {
			continue
		}
		p := strings.SplitN(kv, "=", 2)
		overlay[p[1]] = p[0]
	}
	b, _ := json.MarshalIndent(map[string]interface{}{"Replace": overlay}, "", " ")
	os.WriteFile(filepath.Join(*out, "overlay.json"), b, 0644)
	fmt.Println("instrumented files:", len(overlay))
}
