// vinstr prototype: rewrite Go packages for the controlled runtime, emit overlay.json.
package main

import (
	"bytes"
	"encoding/json"
	"flag"
	"fmt"
	"go/ast"
	"go/build/constraint"
	"go/format"
	"go/token"
	"go/types"
	"os"
	"path/filepath"
	"strconv"
	"strings"

	"golang.org/x/tools/go/ast/astutil"
	"golang.org/x/tools/go/packages"
)

const vbase = "github.com/nsqio/nsq/internal/verif/"

var importMap = map[string]string{
	"sync":        vbase + "vsync",
	"sync/atomic": vbase + "vatomic",
	"time":        vbase + "vtime",
	"os":          vbase + "vos",
	"math/rand":   vbase + "vrand",
	"net":         vbase + "vnet",
	"github.com/nsqio/go-diskqueue": vbase + "dq",
}

// packages whose instrumented files are mounted at a virtual directory inside the repo
var relocate = map[string]string{
	"github.com/nsqio/go-diskqueue": "internal/verif/dq",
}

type rewriter struct {
	info    *types.Info
	fset    *token.FileSet
	skip    map[ast.Node]bool // recv/send nodes handled by their parent (select comm)
	recv2   map[ast.Node]bool
	n       int
	usedVrt bool
}

func (r *rewriter) tmp(p string) *ast.Ident {
	r.n++
	return ast.NewIdent(fmt.Sprintf("_v%s%d", p, r.n))
}

func vrtCall(fn string, args ...ast.Expr) *ast.CallExpr {
	return &ast.CallExpr{Fun: &ast.SelectorExpr{X: ast.NewIdent("vrt"), Sel: ast.NewIdent(fn)}, Args: args}
}

func define(lhs ast.Expr, rhs ast.Expr) ast.Stmt {
	return &ast.AssignStmt{Lhs: []ast.Expr{lhs}, Tok: token.DEFINE, Rhs: []ast.Expr{rhs}}
}

func (r *rewriter) isConst(e ast.Expr) bool {
	tv, ok := r.info.Types[e]
	if ok && (tv.Value != nil || tv.IsNil()) {
		return true
	}
	if id, ok := e.(*ast.Ident); ok && id.Name == "nil" {
		return true
	}
	return false
}

func (r *rewriter) isBuiltin(e ast.Expr, name string) bool {
	id, ok := e.(*ast.Ident)
	if !ok || id.Name != name {
		return false
	}
	_, isB := r.info.Uses[id].(*types.Builtin)
	return isB
}

func isBlank(e ast.Expr) bool {
	id, ok := e.(*ast.Ident)
	return e == nil || (ok && id.Name == "_")
}

func (r *rewriter) pre(c *astutil.Cursor) bool {
	switch n := c.Node().(type) {
	case *ast.SelectStmt:
		for _, cl := range n.Body.List {
			cc := cl.(*ast.CommClause)
			switch s := cc.Comm.(type) {
			case *ast.SendStmt:
				r.skip[s] = true
			case *ast.ExprStmt:
				r.skip[ast.Unparen(s.X)] = true
			case *ast.AssignStmt:
				r.skip[ast.Unparen(s.Rhs[0])] = true
			}
		}
	case *ast.AssignStmt:
		if len(n.Lhs) == 2 && len(n.Rhs) == 1 {
			if u, ok := ast.Unparen(n.Rhs[0]).(*ast.UnaryExpr); ok && u.Op == token.ARROW {
				r.recv2[u] = true
			}
		}
	case *ast.ValueSpec:
		if len(n.Names) == 2 && len(n.Values) == 1 {
			if u, ok := ast.Unparen(n.Values[0]).(*ast.UnaryExpr); ok && u.Op == token.ARROW {
				r.recv2[u] = true
			}
		}
	}
	return true
}

func (r *rewriter) post(c *astutil.Cursor) bool {
	switch n := c.Node().(type) {
	case *ast.UnaryExpr:
		if n.Op == token.ARROW && !r.skip[n] {
			r.usedVrt = true
			if r.recv2[n] {
				c.Replace(vrtCall("Recv2", n.X))
			} else {
				c.Replace(vrtCall("Recv", n.X))
			}
		}
	case *ast.SendStmt:
		if !r.skip[n] {
			r.usedVrt = true
			c.Replace(&ast.ExprStmt{X: vrtCall("Send", n.Chan, n.Value)})
		}
	case *ast.CallExpr:
		if r.isBuiltin(n.Fun, "close") && len(n.Args) == 1 {
			r.usedVrt = true
			c.Replace(vrtCall("Close", n.Args[0]))
		}
	case *ast.GoStmt:
		r.usedVrt = true
		c.Replace(r.rewriteGo(n))
	case *ast.SelectStmt:
		r.usedVrt = true
		pre, sw := r.rewriteSelect(n)
		r.replaceMaybeLabeled(c, pre, sw)
	case *ast.RangeStmt:
		t := r.info.TypeOf(n.X)
		if t == nil {
			return true
		}
		switch t.Underlying().(type) {
		case *types.Map:
			r.usedVrt = true
			pre, loop := r.rewriteMapRange(n)
			r.replaceMaybeLabeled(c, pre, loop)
		case *types.Chan:
			r.usedVrt = true
			pre, loop := r.rewriteChanRange(n)
			r.replaceMaybeLabeled(c, pre, loop)
		}
	case *ast.LabeledStmt:
		// a child marked itself via pendingLabel: rebuild as { pre...; label: stmt }
		if p, ok := pending[n.Stmt]; ok {
			delete(pending, n.Stmt)
			blk := &ast.BlockStmt{List: append(append([]ast.Stmt{}, p.pre...), &ast.LabeledStmt{Label: n.Label, Stmt: p.stmt})}
			c.Replace(blk)
		}
	}
	return true
}

type pend struct {
	pre  []ast.Stmt
	stmt ast.Stmt
}

var pending = map[ast.Stmt]pend{}

func (r *rewriter) replaceMaybeLabeled(c *astutil.Cursor, pre []ast.Stmt, stmt ast.Stmt) {
	if _, ok := c.Parent().(*ast.LabeledStmt); ok {
		// leave a marker; the LabeledStmt post-visit rebuilds
		marker := &ast.EmptyStmt{}
		pending[marker] = pend{pre, stmt}
		c.Replace(marker)
		return
	}
	c.Replace(&ast.BlockStmt{List: append(append([]ast.Stmt{}, pre...), stmt)})
}

func (r *rewriter) rewriteGo(g *ast.GoStmt) ast.Stmt {
	var pre []ast.Stmt
	call := g.Call
	fun := call.Fun
	if _, isLit := ast.Unparen(fun).(*ast.FuncLit); !isLit {
		if _, isIdent := fun.(*ast.Ident); !isIdent {
			f := r.tmp("f")
			pre = append(pre, define(f, fun))
			fun = f
		}
	}
	args := make([]ast.Expr, len(call.Args))
	for i, a := range call.Args {
		if r.isConst(a) {
			args[i] = a
			continue
		}
		if _, isLit := a.(*ast.FuncLit); isLit {
			args[i] = a
			continue
		}
		t := r.tmp("a")
		pre = append(pre, define(t, a))
		args[i] = t
	}
	inner := &ast.CallExpr{Fun: fun, Args: args, Ellipsis: call.Ellipsis}
	lit := &ast.FuncLit{Type: &ast.FuncType{Params: &ast.FieldList{}}, Body: &ast.BlockStmt{List: []ast.Stmt{&ast.ExprStmt{X: inner}}}}
	pre = append(pre, &ast.ExprStmt{X: vrtCall("Go", lit)})
	return &ast.BlockStmt{List: pre}
}

func (r *rewriter) rewriteSelect(s *ast.SelectStmt) ([]ast.Stmt, ast.Stmt) {
	var pre []ast.Stmt
	var cases []ast.Expr
	var clauses []ast.Stmt
	hasDefault := false
	idx := 0
	res := r.tmp("r")
	for _, cl := range s.Body.List {
		cc := cl.(*ast.CommClause)
		if cc.Comm == nil {
			hasDefault = true
			clauses = append(clauses, &ast.CaseClause{List: nil, Body: cc.Body})
			continue
		}
		var body []ast.Stmt
		switch cm := cc.Comm.(type) {
		case *ast.SendStmt:
			ch := r.tmp("c")
			pre = append(pre, define(ch, cm.Chan))
			var v ast.Expr = cm.Value
			if !r.isConst(v) {
				t := r.tmp("s")
				pre = append(pre, define(t, v))
				v = t
			}
			cases = append(cases, vrtCall("S_", ch, v))
		case *ast.ExprStmt:
			u := ast.Unparen(cm.X).(*ast.UnaryExpr)
			ch := r.tmp("c")
			pre = append(pre, define(ch, u.X))
			cases = append(cases, vrtCall("R", ch))
		case *ast.AssignStmt:
			u := ast.Unparen(cm.Rhs[0]).(*ast.UnaryExpr)
			ch := r.tmp("c")
			pre = append(pre, define(ch, u.X))
			cases = append(cases, vrtCall("R", ch))
			fn := "Val"
			if len(cm.Lhs) == 2 {
				fn = "Val2"
			}
			body = append(body, &ast.AssignStmt{Lhs: cm.Lhs, Tok: cm.Tok, Rhs: []ast.Expr{vrtCall(fn, ch, res)}})
		}
		body = append(body, cc.Body...)
		clauses = append(clauses, &ast.CaseClause{
			List: []ast.Expr{&ast.BasicLit{Kind: token.INT, Value: strconv.Itoa(idx)}}, Body: body})
		idx++
	}
	i := r.tmp("i")
	hd := "false"
	if hasDefault {
		hd = "true"
	}
	args := append([]ast.Expr{ast.NewIdent(hd)}, cases...)
	pre = append(pre,
		&ast.AssignStmt{Lhs: []ast.Expr{i, res}, Tok: token.DEFINE, Rhs: []ast.Expr{vrtCall("Select", args...)}},
		&ast.AssignStmt{Lhs: []ast.Expr{ast.NewIdent("_")}, Tok: token.ASSIGN, Rhs: []ast.Expr{res}})
	sw := &ast.SwitchStmt{Tag: i, Body: &ast.BlockStmt{List: clauses}}
	return pre, sw
}

func (r *rewriter) rewriteMapRange(n *ast.RangeStmt) ([]ast.Stmt, ast.Stmt) {
	m := r.tmp("m")
	pre := []ast.Stmt{define(m, n.X)}
	k := r.tmp("k")
	var body []ast.Stmt
	ok := r.tmp("ok")
	val := r.tmp("x")
	// value, ok := m[k]; if !ok { continue }
	body = append(body,
		&ast.AssignStmt{Lhs: []ast.Expr{val, ok}, Tok: token.DEFINE, Rhs: []ast.Expr{&ast.IndexExpr{X: m, Index: k}}},
		&ast.IfStmt{Cond: &ast.UnaryExpr{Op: token.NOT, X: ok}, Body: &ast.BlockStmt{List: []ast.Stmt{&ast.BranchStmt{Tok: token.CONTINUE}}}},
		&ast.AssignStmt{Lhs: []ast.Expr{ast.NewIdent("_")}, Tok: token.ASSIGN, Rhs: []ast.Expr{val}})
	if !isBlank(n.Key) {
		body = append(body, &ast.AssignStmt{Lhs: []ast.Expr{n.Key}, Tok: n.Tok, Rhs: []ast.Expr{k}})
		if n.Tok == token.DEFINE {
			body = append(body, &ast.AssignStmt{Lhs: []ast.Expr{ast.NewIdent("_")}, Tok: token.ASSIGN, Rhs: []ast.Expr{n.Key}})
		}
	}
	if !isBlank(n.Value) {
		body = append(body, &ast.AssignStmt{Lhs: []ast.Expr{n.Value}, Tok: n.Tok, Rhs: []ast.Expr{val}})
		if n.Tok == token.DEFINE {
			body = append(body, &ast.AssignStmt{Lhs: []ast.Expr{ast.NewIdent("_")}, Tok: token.ASSIGN, Rhs: []ast.Expr{n.Value}})
		}
	}
	body = append(body, n.Body.List...)
	loop := &ast.RangeStmt{Key: ast.NewIdent("_"), Value: k, Tok: token.DEFINE,
		X: vrtCall("MapKeys", m), Body: &ast.BlockStmt{List: body}}
	return pre, loop
}

func (r *rewriter) rewriteChanRange(n *ast.RangeStmt) ([]ast.Stmt, ast.Stmt) {
	ch := r.tmp("c")
	pre := []ast.Stmt{define(ch, n.X)}
	x, ok := r.tmp("x"), r.tmp("ok")
	body := []ast.Stmt{
		&ast.AssignStmt{Lhs: []ast.Expr{x, ok}, Tok: token.DEFINE, Rhs: []ast.Expr{vrtCall("Recv2", ch)}},
		&ast.IfStmt{Cond: &ast.UnaryExpr{Op: token.NOT, X: ok}, Body: &ast.BlockStmt{List: []ast.Stmt{&ast.BranchStmt{Tok: token.BREAK}}}},
		&ast.AssignStmt{Lhs: []ast.Expr{ast.NewIdent("_")}, Tok: token.ASSIGN, Rhs: []ast.Expr{x}},
	}
	if !isBlank(n.Key) {
		body = append(body, &ast.AssignStmt{Lhs: []ast.Expr{n.Key}, Tok: n.Tok, Rhs: []ast.Expr{x}})
		if n.Tok == token.DEFINE {
			body = append(body, &ast.AssignStmt{Lhs: []ast.Expr{ast.NewIdent("_")}, Tok: token.ASSIGN, Rhs: []ast.Expr{n.Key}})
		}
	}
	body = append(body, n.Body.List...)
	return pre, &ast.ForStmt{Body: &ast.BlockStmt{List: body}}
}

func main() {
	repo := flag.String("repo", "/repo", "module root")
	out := flag.String("out", "", "output dir")
	rt := flag.String("rt", "/verif/rt", "runtime sources to mount at internal/verif")
	extra := flag.String("extra", "", "comma list of src=dst extra overlay mappings")
	mounts := flag.String("mount", "", "comma list of srcdir=dstdir: every .go file of srcdir is overlaid into dstdir (relative to the module root)")
	noimp := flag.String("keep", "", "comma list of import paths NOT to substitute (e.g. os)")
	flag.Parse()
	for _, k := range strings.Split(*noimp, ",") {
		delete(importMap, k)
	}
	pats := flag.Args()
	os.MkdirAll(*out, 0755)
	cfg := &packages.Config{Mode: packages.NeedName | packages.NeedFiles | packages.NeedCompiledGoFiles | packages.NeedSyntax |
		packages.NeedTypes | packages.NeedTypesInfo | packages.NeedImports | packages.NeedDeps, Dir: *repo}
	pkgs, err := packages.Load(cfg, pats...)
	if err != nil {
		fmt.Fprintln(os.Stderr, err)
		os.Exit(2)
	}
	overlay := map[string]string{}
	for _, p := range pkgs {
		if len(p.Errors) > 0 {
			fmt.Fprintln(os.Stderr, "package errors:", p.PkgPath, p.Errors)
			os.Exit(2)
		}
		for i, f := range p.Syntax {
			src := p.CompiledGoFiles[i]
			r := &rewriter{info: p.TypesInfo, fset: p.Fset, skip: map[ast.Node]bool{}, recv2: map[ast.Node]bool{}}
			// build constraint
			var cons string
			for _, cg := range f.Comments {
				if cg.Pos() > f.Package {
					break
				}
				for _, c := range cg.List {
					if constraint.IsGoBuild(c.Text) {
						cons = strings.TrimSpace(strings.TrimPrefix(c.Text, "//go:build"))
					}
				}
			}
			changedImport := false
			for _, is := range f.Imports {
				path, _ := strconv.Unquote(is.Path.Value)
				if np, ok := importMap[path]; ok {
					if is.Name == nil {
						name := path[strings.LastIndex(path, "/")+1:]
						if ip, ok := p.Imports[path]; ok && ip.Name != "" {
							name = ip.Name
						}
						is.Name = ast.NewIdent(name)
					}
					is.Path.Value = strconv.Quote(np)
					changedImport = true
				}
			}
			astutil.Apply(f, r.pre, r.post)
			reloc, isReloc := relocate[p.PkgPath]
			if !r.usedVrt && !changedImport && !isReloc {
				continue
			}
			if r.usedVrt {
				astutil.AddNamedImport(p.Fset, f, "vrt", vbase+"vrt")
			}
			f.Comments = nil
			var buf bytes.Buffer
			if cons != "" {
				fmt.Fprintf(&buf, "//go:build go1.18 && (%s)\n\n", cons)
			} else {
				fmt.Fprintf(&buf, "//go:build go1.18\n\n")
			}
			if err := format.Node(&buf, p.Fset, f); err != nil {
				fmt.Fprintln(os.Stderr, "format:", src, err)
				os.Exit(2)
			}
			rel := strings.ReplaceAll(strings.TrimPrefix(src, "/"), "/", "__")
			dst := filepath.Join(*out, rel)
			os.WriteFile(dst, buf.Bytes(), 0644)
			if isReloc {
				overlay[filepath.Join(*repo, reloc, filepath.Base(src))] = dst
			} else {
				overlay[src] = dst
			}
		}
	}
	// mount runtime packages
	filepath.Walk(*rt, func(path string, fi os.FileInfo, err error) error {
		if err == nil && !fi.IsDir() && strings.HasSuffix(path, ".go") {
			rel, _ := filepath.Rel(*rt, path)
			overlay[filepath.Join(*repo, "internal/verif", rel)] = path
		}
		return nil
	})
	for _, kv := range strings.Split(*mounts, ",") {
		if kv == "" {
			continue
		}
		p := strings.SplitN(kv, "=", 2)
		ents, err := os.ReadDir(p[0])
		if err != nil {
			fmt.Fprintln(os.Stderr, "mount:", err)
			os.Exit(2)
		}
		for _, e := range ents {
			if !e.IsDir() && strings.HasSuffix(e.Name(), ".go") {
				overlay[filepath.Join(*repo, p[1], e.Name())] = filepath.Join(p[0], e.Name())
			}
		}
	}
	for _, kv := range strings.Split(*extra, ",") {
		if kv == "" {
			continue
		}
		p := strings.SplitN(kv, "=", 2)
		overlay[p[1]] = p[0]
	}
	b, _ := json.MarshalIndent(map[string]interface{}{"Replace": overlay}, "", " ")
	os.WriteFile(filepath.Join(*out, "overlay.json"), b, 0644)
	fmt.Println("instrumented files:", len(overlay))
}
