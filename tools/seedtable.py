#!/usr/bin/env python3
"""Regenerates the detection table of DESIGN.md section 12 from seeded/*/meta.json and
seeded/*/log/{confirm.txt,check_*.txt}. Usage: tools/seedtable.py > /tmp/table.md"""
import json, glob, os, re
short = {
 "C01-1":"`messagePump`: `StartInFlightTimeout` moved after `SendMessage` — a message whose write fails is held nowhere",
 "C01-2":"`processDeferredQueue`: `put` before `popDeferredMessage` — a REQ with delay by the consumer that was just handed the message hits the stale entry and the message vanishes",
 "C01-3":"channel disk queue created without the +26 header bytes — a body within 26 bytes of max-msg-size is refused by the channel backend (overflow, requeue, timeout paths)",
 "C02-1":"timeout scan deletes the in-flight entry without the owner check — races the holder's FIN/REQ/TOUCH",
 "C02-2":"deferred publish shares one `*Message` across channels — attempts and ownership of one channel leak into the other",
 "C02-3":"`popInFlightMessage` deletes before the owner check — a refused FIN/REQ/TOUCH of a non-holder removes the holder's entry",
 "C03-1":"topic pump ignores the paused flag when it starts — a topic paused in the metadata delivers after a restart",
 "C03-2":"`doPause` stores the flag after waking the consumers' pumps — a pump re-checks too early and keeps delivering (or stays parked after unpause)",
 "C03-3":"`FIN` decrements the in-flight count also when it fails — a late FIN lets RDY n admit n+1",
 "C04-1":"`ByteToBase10` overflow guard covers only the multiplication — 2^64..2^64+3 wrap to 0..3",
 "C04-2":"`TouchMessage` resets `deliveryTS` — the max-msg-timeout cap is measured from the previous TOUCH",
 "C04-3":"`TOUCH` uses the server-wide msg-timeout instead of the negotiated one",
 "C05-1":"timeout scan no longer holds `exitMutex` — Exit between its pop and its put loses the message",
 "C05-2":"`Topic.flush` loop drains only half of the topic's memory queue at shutdown",
 "C05-3":"channel disk queue without the +26 header bytes — a max-size message is dropped by `Channel.flush` at shutdown",
 "C06-1":"`LoadMetadata` restores a channel's pause flag from its topic's record",
 "C06-2":"pause handlers return 200 early when the flag is already set — a second identical request is acknowledged before the first has persisted",
 "C06-3":"`writeSyncFile` shadows `err` — a failed/short write is renamed over `nsqd.dat`",
 "C07-1":"per-channel copy of a deferred message gets a fresh timestamp",
 "C07-2":"text `/mpub` trims trailing `\\r` bytes of a body (`TrimRight` cutset)",
 "C07-3":"`Send` reuses the connection's length scratch buffer — a frame sent while a publish's length field is half read corrupts the length",
 "C08-1":"timeout scan merges its two critical sections and skips the owner check — leaves heap entries without map entries after Empty",
 "C08-2":"`Channel.Empty` returns early when exiting — deleting a channel leaves its disk files, a re-created channel replays them",
 "C08-3":"ephemeral delete callback skips when a consumer re-subscribed, but runs under `sync.Once` — the channel is never deleted afterwards",
 "C09-1":"`DPUB` checks the body against max-body-size instead of max-msg-size",
 "C09-2":"`RDY` after `CLS` falls through and re-arms the closing consumer",
 "C09-3":"name length folded into the regexp — the `#ephemeral` suffix no longer counts towards 64",
 "C10-1":"text `/mpub` size check includes the newline — an exactly max-size line is refused",
 "C10-2":"`/pub` body cap via `MaxBytesReader` — a chunked oversize body is answered 500",
 "C10-3":"`/topic/unpause` on a topic without channels drains (drops) its backlog",
 "C11-1":"`IsAuthorized` decides on the stale grant set after the TTL re-fetch",
 "C11-2":"per-topic authorization cache ignores permission and channel",
 "C11-3":"channel patterns joined into one alternation — an empty list matches everything",
 "C12-1":"'id went backwards' guard only when the sequence restarts",
 "C12-2":"clock read moved in front of the factory lock — a publisher delayed on the lock reuses an old millisecond",
 "C12-3":"`GenerateID` returns the zero id on `ErrIDBackwards`",
 "C13-1":"timed-out message re-queued before its owner's counter is decremented — another consumer can overwrite `clientID` first",
 "C13-2":"`REQ 0` goes through `PutMessage` and is counted as a new message",
 "C13-3":"text `/stats` prints the topic's message_count in the channel line",
 "C14-1":"`AddProducer` always replaces the producer — a re-REGISTER clears a tombstone",
 "C14-2":"producer id = broadcast address:port — two connections of one nsqd share an entry",
 "C14-3":"`Tombstone()` returns early if ever tombstoned — a second tombstone after the lapse does nothing",
 "C15-1":"truncated IDENTIFY body returns a raw error — type assertion panics in `IOLoop`",
 "C15-2":"`RemoveProducer` reports 0 left for a non-member — an UNREGISTER by another connection wipes an ephemeral key",
 "C15-3":"extra-parameter check returns a plain error — REGISTER with 3 parameters panics `IOLoop`",
 "C16-1":"lookupd address list not pruned on reconfiguration — a removed and re-added lookupd is never dialled",
 "C16-2":"partial lookupd failure discards the channels the healthy lookupd reported",
 "C16-3":"re-registration after a reconnect built from `GetMetadata` — ephemeral channels are omitted",
 "C17-1":"admin identity compared with `EqualFold`",
 "C17-2":"admin check hoisted into the topic handler only — channel actions need no admin",
 "C17-3":"all-lookupds-failed becomes a hard error — node tombstone never reaches the nsqd",
 "C18-1":"producer de-duplication `break`s instead of `continue`s",
 "C18-2":"`ClientCount = len(Clients)` — wrong when clients are not included",
 "C18-3":"counter view answers 502 when the healthy nsqd has no channels",
 "C19-1":"`Close()` no longer terminates the gzip stream",
 "C19-2":"`Sync()` skipped when the size equals the last synced size — stale across a rotation",
 "C19-3":"plain-mode open without `O_APPEND` — a restart overwrites the existing file from offset 0",
 "C20-1":"`DisableAutoResponse` before the publish — a synchronous publish error is neither finished nor requeued",
 "C20-2":"`ReadSlice` instead of `ReadBytes` — records of 4096+ bytes are cut and the tool exits",
 "C20-3":"nsq_to_http all-endpoints mode returns only the last endpoint's result",
 "C01-4":"topic pump skips rebuilding its channel snapshot when the count is unchanged - a channel deleted and another created in between never receives messages",
 "C02-4":"client pump, leaving on a write error, requeues everything its consumer holds - the consumer is still there and answers: two holders of one message",
 "C03-4":"`RDY` lower bound dropped - an argument >= 2^63 wraps negative and is accepted",
 "C04-4":"`inFlightPqueue.Push` skips the sift-up when the array grows",
 "C05-4":"`GetMetadata` leaves out exiting topics/channels - the metadata written by `Exit` is empty",
 "C06-4":"dirlock keeps only the integer descriptor - the garbage collector closes the file and drops the lock",
 "C07-4":"`SendMessage` returns its buffer to the pool twice on the error path",
 "C08-4":"`DeleteExistingTopic` unlinks the topic before deleting it - a publish re-creates the topic on the old disk files",
 "C09-4":"heartbeat / msg-timeout range checks after the conversion to a Duration - huge values wrap into range",
 "C10-4":"binary `/mpub`: max-msg-size and max-body-size handed to `readMPUB` in the wrong order",
 "C11-4":"`AUTH` dispatched before the TLS gate",
 "C12-4":"`guid.Hex` takes byte 2 from the wrong shift",
 "C13-4":"`Topic.PutMessage` counts before it stores - a failed disk write is counted",
 "C14-4":"`FilterByActive` as a switch - a tombstoned producer past its lifetime skips the inactivity test",
 "C15-4":"`/debug` reads producers through an accessor that read-locks again - deadlocks against a waiting writer",
 "C16-4":"`readResponseBounded` does one `Read` instead of `ReadFull` - a segmented reply is truncated",
 "C17-4":"`/config` CIDR check lets an unparsable (zoned IPv6) remote address through",
 "C18-4":"stats URL built without query escaping - `#ephemeral` names are cut at the `#`",
 "C19-4":"`<REV>` collision check removes the same-named file in the work dir - an unrelated file is deleted",
 "C20-4":"`--require-json-value` with a numeric-looking argument no longer matches the same text as a JSON string - the message is dropped and FINed",
 "C01-5":"`writeMessageToBackend` returns the pooled buffer before `Put` has consumed it",
 "C02-5":"`Attempts++` moved into `pushInFlightMessage` - every TOUCH counts as an attempt",
 "C03-5":"`SetReadyCount` wakes the pump only when RDY grows or becomes 0 - a decrease to n > 0 is not noticed",
 "C04-5":"scan loop refreshes its channel list only when the number of channels changed",
 "C05-5":"`LoadMetadata` starts the topic pump before the channels are re-created - the topic's backlog goes to the first channel only",
 "C06-5":"`PersistMetadata` removes `nsqd.dat` before renaming the new file over it",
 "C07-5":"chunked `/pub` keeps the pooled read buffer as the message body",
 "C08-5":"`RemoveClient` runs on an exiting channel - the late clean-up of a deleted ephemeral channel's consumer deletes the re-created channel",
 "C09-5":"`output_buffer_timeout` range check after the conversion to a Duration - huge values wrap into range",
 "C10-5":"pause vs unpause decided from path *and query* - any query containing `unpause` turns a pause into an unpause",
 "C11-5":"`State.IsExpired` inverted - a grant is never re-fetched after its TTL",
 "C12-5":"sequence mask widened and node id OR-ed in after the duplicate guard - ids repeat above 4096 per ms",
 "C13-5":"`Channel.PutMessage` counts before it stores - a failed disk write is counted",
 "C14-5":"fatal protocol error returns from `IOLoop` without the clean-up - the peer's registrations stay",
 "C15-5":"IDENTIFY body can set `remote_address`, which now is the peer id - one connection can act on another's registrations",
 "C16-5":"a read timeout no longer closes the lookupd connection - a late IDENTIFY reply leaves it half initialised for ever",
 "C17-5":"admin identity falls back to the basic-auth user name when the ACL header is absent",
 "C18-5":"`GetNSQDProducers` continues after a failed `/info` - two errors per dead node, phantom node entries",
 "C19-5":"gzip `Sync()` overwrites the fsync error with the (nil) error of `NewWriterLevel`",
 "C20-5":"to_nsq drops the publish error of a final record without a trailing delimiter",
 "C01-6":"`GetTopic` starts the pump via `defer` - also on the early return taken while loading metadata, i.e. before the topic's channels are re-created",
 "C02-6":"`StartInFlightTimeout` records `deliveryTS` only on the first delivery - a TOUCH on a redelivery is capped from the first one and can shorten the holder's timeout",
 "C03-6":"client pump clears the region hand-off channel only for zone-local clients - a region-local consumer keeps receiving while not ready",
 "C05-6":"`Channel.flush` returns early when nothing is in memory or in flight - deferred messages are not written at shutdown",
 "C06-6":"`GetMetadata` leaves out exiting channels - a persist that runs after `Exit` closed the topics writes empty channel lists",
 "C08-6":"`Topic.Empty` returns early at depth 0 - deleting a drained topic leaves its disk-queue files (and stale metadata) behind",
 "C14-6":"`/topic/delete` returns early when the topic registration is gone - channel registrations of a vanished ephemeral topic stay",
 "C16-6":"lookupLoop skips a channel's UNREGISTER when its topic is gone - with a late topic notification turned into REGISTER the channel stays registered",
}
print("| seed | change (one line) | needs | reported by |")
print("|---|---|---|---|")
for d in sorted(glob.glob(os.path.dirname(os.path.abspath(__file__))+'/../seeded/*-[0-9]')):
    n=os.path.basename(d)
    m=json.load(open(d+'/meta.json'))
    needs=re.sub(r'\s+',' ',m.get('needs',''))
    needs=needs[:150].rsplit(' ',1)[0]+' …' if len(needs)>150 else needs
    conf=open(d+'/log/confirm.txt').read() if os.path.exists(d+'/log/confirm.txt') else ''
    rep=[]
    for mm in re.finditer(r'check (C\d\d): exit (\d)', conf):
        c,e=mm.group(1),mm.group(2)
        if e=='1':
            cl=''
            f=d+'/log/check_%s.txt'%c
            if os.path.exists(f):
                for l in open(f):
                    if l.startswith('--- '):
                        cl=l[4:].split(' :: ')[0]
                        cl=re.sub(r'^C\d\d: ','',cl)
                        cl=re.sub(r'^(C\d\d )+','',cl).strip()
                        break
            rep.append('**%s** (%s)'%(c,cl[:70]) if cl else '**%s**'%c)
    own=n[:3]
    missed = ('check %s: exit 0'%own) in conf
    r=', '.join(rep) if rep else 'MISSED'
    if n=='C16-6' and not rep:
        # shown with the thorough tier's bound on the seeded tree (DESIGN section 12, sixth wave)
        r='not by the quick tier; **C16 thorough** (E2 with two deviations: nsqlookupd did not converge to nsqd\'s topics and channels)'
    if missed and rep: r+=' — not by %s'%own
    print('| %s | %s | %s | %s |'%(n, short.get(n,m['summary'][:100]), needs.replace('|','/'), r))
