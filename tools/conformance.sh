#!/bin/bash
# conformance.sh: bind the instrumented program to the real one.
# Instruments the current working tree exactly as the checks do and runs the repository's
# OWN test packages against the rewritten sources with no explorer attached (the shims
# are in passthrough mode: vsync.Mutex is sync.Mutex, channel helpers do the plain Go
# operation, vtime is the wall clock). The verdicts must equal the baseline's (all ok).
# Prints "CONFORMANCE ok" / "INSTRUMENTATION-MISMATCH <pkg>"; exit 0 / 2. Never a VIOLATION.
set -u
VERIF=$(cd "$(dirname "$0")/.." && pwd)
REPO=${VERIF_REPO:-/repo}
export GOFLAGS=-mod=mod GOPROXY=off GOSUMDB=off GOTOOLCHAIN=local
unset VERIF_HARNESS
rc=0
run() { # group, packages...
  local g=$1; shift
  local S; S=$(mktemp -d /dev/shm/verif-conf-XXXXXX)
  "$VERIF/build.sh" "$g" "$S" || { echo "INFRA: build of $g failed"; rm -rf "$S"; rc=2; return; }
  (cd "$REPO" && timeout 900 go test -count=1 -overlay "$S/ov/overlay.json" -tags verif -vet=off "$@" 2>&1) | tee "$S/out.txt" | grep -v '^?'
  if grep -q '^FAIL\|^---\? FAIL\|panic:' "$S/out.txt"; then
    echo "INSTRUMENTATION-MISMATCH group=$g: repository tests do not pass on instrumented sources"; rc=2
  fi
  rm -rf "$S"
}
run nsqdx ./nsqd/ ./internal/clusterinfo/ ./internal/util/ ./internal/quantile/ ./internal/auth/ ./internal/dirlock/
run lookupx ./nsqlookupd/
run ntfx ./apps/nsq_to_file/
[ $rc = 0 ] && echo "CONFORMANCE ok: repository tests pass on the instrumented sources in passthrough mode"
exit $rc
