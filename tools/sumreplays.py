#!/usr/bin/env python3
import json,glob,collections,sys
c=collections.Counter(); ex={}
for f in glob.glob('/verif/replays/%s/*.json'%sys.argv[1]):
    d=json.load(open(f))
    parts=d['sig'].split(' :: ')
    clause=parts[0]
    c[clause]+=1
    ex.setdefault(clause,[]).append(parts[1] if len(parts)>1 else '')
for k,v in c.most_common():
    print(v,k)
    print('     ',sorted(ex[k])[:10])
