module protogen

go 1.21
