#!/bin/bash
# regenerate the re-export halves of the shim packages from the toolchain's own stdlib
set -e
cd "$(dirname "$0")"
export GOFLAGS=-mod=mod GOPROXY=off GOSUMDB=off GOTOOLCHAIN=local
go build -o /tmp/verif-gen . 
G=/tmp/verif-gen
RT=../../rt
$G sync vsync Mutex RWMutex WaitGroup Once Pool Map > $RT/vsync/zz_reexport.go
$G sync/atomic vatomic AddInt32 AddInt64 AddUint32 AddUint64 LoadInt32 LoadInt64 LoadUint32 LoadUint64 StoreInt32 StoreInt64 StoreUint32 StoreUint64 SwapInt32 SwapInt64 SwapUint32 SwapUint64 CompareAndSwapInt32 CompareAndSwapInt64 CompareAndSwapUint32 CompareAndSwapUint64 Value > $RT/vatomic/zz_reexport.go
$G time vtime Now Since Until Sleep Ticker NewTicker Tick Timer NewTimer After AfterFunc > $RT/vtime/zz_reexport.go
$G os vos File OpenFile Open Create NewFile CreateTemp Pipe Stdin Stdout Stderr Rename Remove RemoveAll Link Symlink Mkdir MkdirAll WriteFile Truncate Exit > $RT/vos/zz_reexport.go
$G math/rand vrand Seed Int Intn Int31 Int31n Int63 Int63n Uint32 Uint64 Float64 Float32 Perm Shuffle ExpFloat64 NormFloat64 Read > $RT/vrand/zz_reexport.go
$G net vnet DialTimeout Dial > $RT/vnet/zz_reexport.go
rm -f $G
gofmt -l $RT || true
