#!/bin/bash
# build.sh <group> <scratch>: instrument /repo's current tree and build harness <group> to <scratch>/h
set -eu
VERIF=$(cd "$(dirname "$0")" && pwd)
REPO=${VERIF_REPO:-/repo}
export GOFLAGS=-mod=mod GOPROXY=off GOSUMDB=off GOTOOLCHAIN=local
GROUP=$1; OUT=$2
TARGET=""
EXTRA_TARGETS=""
ACC=""
[ -x "$VERIF/bin/vinstr" ] || (cd "$VERIF/tools/vinstr" && go build -o "$VERIF/bin/vinstr" .)
mkdir -p "$OUT/ov"
case "$GROUP" in
  nsqdx)
    PKGS="./nsqd ./nsqlookupd ./internal/clusterinfo ./internal/util ./internal/quantile ./internal/dirlock ./internal/auth github.com/nsqio/go-diskqueue"
    MOUNT="$VERIF/harness/nsqd=nsqd,$VERIF/harness/nsqlookupd=nsqlookupd,$VERIF/harness/http_api=internal/http_api,$VERIF/harness/cmd/nsqdx=internal/verif/cmd/nsqdx"
    KEEP=""
    # plain field accesses of these packages' structs are part of a transition's footprint
    ACC="github.com/nsqio/nsq/nsqd"
    ;;
  lookupx)
    PKGS="./nsqlookupd ./internal/util"
    MOUNT="$VERIF/harness/nsqlookupd=nsqlookupd,$VERIF/harness/cmd/lookupx=internal/verif/cmd/lookupx"
    KEEP=""
    ;;
  adminx)
    PKGS="./internal/stringy"
    MOUNT="$VERIF/harness/nsqadmin=nsqadmin,$VERIF/harness/cmd/adminx=internal/verif/cmd/adminx"
    KEEP=""
    ;;
  ntfx)
    PKGS="./apps/nsq_to_file"
    MOUNT="$VERIF/harness/apps/nsq_to_file=apps/nsq_to_file"
    KEEP=""
    TARGET=./apps/nsq_to_file
    ;;
  relayx)
    PKGS="./internal/stringy"
    MOUNT="$VERIF/harness/apps/to_nsq=apps/to_nsq,$VERIF/harness/apps/nsq_to_nsq=apps/nsq_to_nsq,$VERIF/harness/apps/nsq_to_http=apps/nsq_to_http"
    KEEP=""
    TARGET=./apps/to_nsq
    EXTRA_TARGETS="nsq_to_nsq nsq_to_http"
    ;;
  selftest)
    PKGS="./internal/stringy"
    MOUNT="$VERIF/harness/cmd/selftest=internal/verif/cmd/selftest"
    KEEP=""
    ;;
  *) echo "unknown group $GROUP"; exit 2;;
esac
"$VERIF/bin/vinstr" -repo "$REPO" -out "$OUT/ov" -rt "$VERIF/rt" -mount "$MOUNT" -keep "$KEEP" -acc "${ACC:-}" $PKGS >/dev/null
cd "$REPO" && go build -overlay "$OUT/ov/overlay.json" -tags verif -o "$OUT/h" ${TARGET:-./internal/verif/cmd/$GROUP}
for t in $EXTRA_TARGETS; do
  go build -overlay "$OUT/ov/overlay.json" -tags verif -o "$OUT/h_$t" ./apps/$t
done
