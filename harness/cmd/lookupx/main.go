//go:build go1.18 && verif

// lookupx: the harness binary for the properties anchored in package nsqlookupd.
package main

import (
	"encoding/json"
	"flag"
	"fmt"
	"os"
	"strings"
	"time"

	"github.com/nsqio/nsq/internal/verif/vrt"
	"github.com/nsqio/nsq/internal/verif/vx"
	"github.com/nsqio/nsq/nsqlookupd"
)

func runL(f func()) string {
	return vrt.Run(func(*vrt.Thread, []vrt.Alt) int { return 0 }, 3000000, f)
}

func runLHist(cfg nsqlookupd.LHistCfg, hist []string) nsqlookupd.LHistRes {
	var r nsqlookupd.LHistRes
	if f := runL(func() { r = nsqlookupd.RunLHist(cfg, hist) }); f != "" {
		r.Viol = append(r.Viol, vx.Found{Sig: vx.FailSig(f) + " :: lookupd hist", Detail: fmt.Sprintf("after %v: %s", hist, f)})
		if r.Key == "" {
			r.Key = "FAILED " + vx.FailSig(f)
		}
	}
	return r
}

type caseRes struct {
	Outs []vx.Out `json:"outs"`
}

func main() {
	vx.Register("lkhist", func(arg json.RawMessage) (interface{}, error) {
		var a vx.ExpandArg
		json.Unmarshal(arg, &a)
		var cfg nsqlookupd.LHistCfg
		json.Unmarshal(a.Cfg, &cfg)
		base := runLHist(cfg, a.Hist)
		res := vx.ExpandRes{Runs: 1}
		if strings.HasPrefix(base.Key, "FAILED") {
			return res, nil
		}
		for _, ev := range base.Menu {
			r := runLHist(cfg, append(append([]string{}, a.Hist...), ev))
			res.Runs++
			res.Succs = append(res.Succs, vx.Succ{Ev: ev, Key: r.Key, Viol: r.Viol})
		}
		return res, nil
	})
	vx.Register("robust", func(arg json.RawMessage) (interface{}, error) {
		var specs []nsqlookupd.RobustSpec
		json.Unmarshal(arg, &specs)
		var r caseRes
		for _, s := range specs {
			var o vx.Out
			if f := runL(func() { o = nsqlookupd.RunRobust(s) }); f != "" {
				o.Viol = append(o.Viol, vx.Found{Sig: vx.FailSig(f) + " :: lookupd " + s.Desc, Detail: f})
				o.Obs = "FAIL " + vx.FailSig(f)
			}
			for i := range o.Viol {
				o.Viol[i].Replay = map[string]interface{}{"kind": "robust", "spec": s}
			}
			r.Outs = append(r.Outs, o)
		}
		return r, nil
	})
	vx.Register("lkmicro", func(arg json.RawMessage) (interface{}, error) {
		var j lmicroJob
		if err := json.Unmarshal(arg, &j); err != nil {
			return nil, err
		}
		return runLMicroJob(j), nil
	})
	if vx.IsWorker() {
		vx.WorkerMain()
		return
	}
	prop := flag.String("prop", "", "property id")
	oneMicro := flag.String("lmicro", "", "debug: run one lookupd micro scenario (JSON LMicroSpec)")
	tier := flag.String("tier", "quick", "quick|thorough")
	replay := flag.String("replay", "", "replay file")
	flag.Parse()
	if *oneMicro != "" {
		var sp nsqlookupd.LMicroSpec
		json.Unmarshal([]byte(*oneMicro), &sp)
		r := runLMicroJob(lmicroJob{Spec: sp, MaxRuns: 200000})
		fmt.Printf("%s: runs=%d exhaustive=%v sequential outcomes=%d\n", sp, r.Res.Runs, r.Res.Exhaustive, len(r.Allowed))
		for _, a := range r.Allowed {
			fmt.Println("  SEQ ", a)
		}
		for _, o := range vx.SortedOutcomes(r.Res.Outcomes) {
			fmt.Printf("  %6d  %s\n", r.Res.Outcomes[o], o)
		}
		for _, f := range r.Res.Found {
			fmt.Printf("  VIOL %s\n     %s\n", f.Sig, f.Detail)
		}
		return
	}
	if *replay != "" {
		os.Exit(doReplay(*replay))
	}
	switch *prop {
	case "C14":
		os.Exit(checkC14(*tier))
	case "C15":
		os.Exit(checkC15(*tier))
	}
	fmt.Println("unknown property", *prop)
	os.Exit(2)
}

type lmicroJob struct {
	Spec    nsqlookupd.LMicroSpec `json:"spec"`
	MaxRuns int                   `json:"max_runs"`
}

type lmicroRes struct {
	Res     vx.Res   `json:"res"`
	Allowed []string `json:"allowed"`
}

func permutations(n int) [][]int {
	if n == 0 {
		return [][]int{{}}
	}
	var out [][]int
	var rec func(cur []int, used []bool)
	rec = func(cur []int, used []bool) {
		if len(cur) == n {
			out = append(out, append([]int{}, cur...))
			return
		}
		for i := 0; i < n; i++ {
			if !used[i] {
				used[i] = true
				rec(append(cur, i), used)
				used[i] = false
			}
		}
	}
	rec(nil, make([]bool, n))
	return out
}

// runLMicroJob: the sequential outcomes of every order of the operations are the reference;
// every interleaving of the concurrent run must produce one of them.
func runLMicroJob(j lmicroJob) lmicroRes {
	allowed := map[string]bool{}
	var out lmicroRes
	for _, ord := range permutations(len(j.Spec.Ops)) {
		sp := j.Spec
		sp.Order = ord
		var o vx.Out
		if f := runL(func() { o = nsqlookupd.RunLMicro(sp) }); f != "" {
			out.Res.Infra = append(out.Res.Infra, "sequential reference run failed: "+f)
			return out
		}
		allowed[o.Obs] = true
	}
	for a := range allowed {
		out.Allowed = append(out.Allowed, a)
	}
	body := func() vx.Out {
		o := nsqlookupd.RunLMicro(j.Spec)
		if !allowed[o.Obs] && !strings.HasPrefix(o.Obs, "world") {
			o.Viol = append(o.Viol, vx.Found{Sig: "C14 concurrent operations ended in a state no sequential order of them produces :: lookupd micro " + j.Spec.String(),
				Detail: fmt.Sprintf("concurrent outcome:\n  %s\nsequential outcomes (every order of the operations):\n  %s", o.Obs, strings.Join(out.Allowed, "\n  "))})
		}
		return o
	}
	out.Res = vx.DPOR(body, vx.Opt{MaxRuns: j.MaxRuns})
	kept := out.Res.Found[:0]
	for _, f := range out.Res.Found {
		sched, _ := f.Replay.([]int)
		if vx.Confirm(body, sched, f.Sig, 5) {
			f.Replay = map[string]interface{}{"kind": "lkmicro", "mspec": j.Spec, "schedule": sched}
			kept = append(kept, f)
		} else {
			out.Res.Infra = append(out.Res.Infra, "NONDETERMINISM: violation not reproduced 5/5: "+f.Sig)
		}
	}
	out.Res.Found = kept
	return out
}

func doReplay(path string) int {
	b, err := os.ReadFile(path)
	if err != nil {
		fmt.Println(err)
		return 2
	}
	var r struct {
		Property string `json:"property"`
		Sig      string `json:"sig"`
		Replay   struct {
			Kind string                `json:"kind"`
			Spec nsqlookupd.RobustSpec `json:"spec"`
			Hist []string              `json:"hist"`
			Cfg  nsqlookupd.LHistCfg   `json:"cfg"`
			MSpec    nsqlookupd.LMicroSpec `json:"mspec"`
			Schedule []int                 `json:"schedule"`
		} `json:"replay"`
	}
	json.Unmarshal(b, &r)
	var viol []vx.Found
	if r.Replay.Kind == "lkmicro" {
		res := runLMicroJob(lmicroJob{Spec: r.Replay.MSpec, MaxRuns: 1})
		allowed := map[string]bool{}
		for _, a := range res.Allowed {
			allowed[a] = true
		}
		o, f, _ := vx.RunSchedule(func() vx.Out { return nsqlookupd.RunLMicro(r.Replay.MSpec) }, r.Replay.Schedule, 0)
		fmt.Println("outcome:", o.Obs, f)
		if f == "" && !allowed[o.Obs] {
			viol = append(viol, vx.Found{Sig: r.Sig, Detail: o.Obs})
		}
	} else if r.Replay.Kind == "robust" {
		var o vx.Out
		if f := runL(func() { o = nsqlookupd.RunRobust(r.Replay.Spec) }); f != "" {
			o.Viol = append(o.Viol, vx.Found{Sig: vx.FailSig(f) + " :: lookupd " + r.Replay.Spec.Desc, Detail: f})
		}
		viol = o.Viol
	} else {
		viol = runLHist(r.Replay.Cfg, r.Replay.Hist).Viol
	}
	for _, v := range viol {
		fmt.Println("violation:", v.Sig, "\n ", v.Detail)
		if v.Sig == r.Sig {
			fmt.Printf("VIOLATION property=%s replay=%s\n", r.Property, path)
			return 1
		}
	}
	fmt.Println("not reproduced")
	return 0
}

func checkC14(tier string) int {
	rep := vx.NewReport("C14", tier, "model_checking")
	rep.Rule = "E3: breadth-first search over histories of two producers - two different nsqds, and one nsqd on two connections at once - (connect+IDENTIFY, REGISTER/UNREGISTER of durable and ephemeral topics and channels, PING, disconnect), admin calls (create/delete topic and channel, tombstone) and virtual-time steps across the tombstone lifetime and the inactivity timeout; after every event /lookup, /topics, /channels and /nodes are compared with a plain registry model; every transition replays its history on a fresh real nsqlookupd; states deduplicated by the canonical model state; E1: 2-3 concurrent operations of different connections and the admin API (REGISTER / UNREGISTER / disconnect / topic and channel delete / tombstone / lookup on durable and ephemeral keys), every interleaving (DPOR), the outcome (answers, final registry, /lookup) must equal that of some sequential order of the same operations. distinct = distinct canonical states + distinct (scenario, outcome) pairs"
	rep.Assumptions = []string{"default schedule within an event", "ephemeral keys: removed when their last producer UNREGISTERs (as nsqlookupd documents), not on disconnect"}
	depth := 6
	budget := 3 * time.Minute
	if tier == "thorough" {
		depth, budget = 8, 25*time.Minute
	}
	cfg := nsqlookupd.LHistCfg{Prods: 2}
	st := vx.BFS("lkhist", cfg, depth, time.Now().Add(budget*2/3), rep, "two producers")
	rep.States, rep.Transitions, rep.Traces, rep.Evaluations = st.States, st.Transitions, st.Transitions, st.Runs
	if !st.Exhaustive {
		rep.Exhaustive = false
	}
	rep.Extra["depth_completed"] = st.MaxDepth
	rep.Extra["new_states_per_depth"] = st.PerDepth
	// the same nsqd on two connections at once (it reconnected while the old connection is
	// still open): registrations belong to connections
	cfg2 := nsqlookupd.LHistCfg{Prods: 2, SameAddr: true}
	st2 := vx.BFS("lkhist", cfg2, depth-1, time.Now().Add(budget/3), rep, "one nsqd on two connections")
	rep.States += st2.States
	rep.Transitions += st2.Transitions
	rep.Traces += st2.Transitions
	rep.Evaluations += st2.Runs
	if !st2.Exhaustive {
		rep.Exhaustive = false
	}
	// E1: concurrent operations of different connections / the admin API, every interleaving
	pre := []string{"conn:p1", "conn:p2"}
	regd := append(append([]string{}, pre...), "reg:p1:T:C", "reg:p1:T:X#ephemeral", "reg:p1:E#ephemeral:")
	both := append(append([]string{}, regd...), "reg:p2:T:C")
	type sc struct {
		pre []string
		ops []string
	}
	var scs []sc
	for _, k := range [][2]string{{"T", "C"}, {"T", "X#ephemeral"}, {"E#ephemeral", ""}, {"T", ""}} {
		reg2, unreg1, unreg2 := "reg:p2:"+k[0]+":"+k[1], "unreg:p1:"+k[0]+":"+k[1], "unreg:p2:"+k[0]+":"+k[1]
		scs = append(scs, sc{regd, []string{unreg1, reg2}}, sc{regd, []string{"drop:p1", reg2}}, sc{regd, []string{unreg1, reg2, "lookup:" + k[0]}})
		scs = append(scs, sc{append(append([]string{}, regd...), reg2), []string{unreg1, unreg2}}, sc{append(append([]string{}, regd...), reg2), []string{"drop:p1", unreg2}})
	}
	scs = append(scs, sc{regd, []string{"rmtopic:T", "reg:p2:T:C"}}, sc{regd, []string{"rmchan:T:C", "reg:p2:T:C"}}, sc{both, []string{"rmtopic:T", "drop:p1"}}, sc{both, []string{"rmchan:T:C", "unreg:p2:T:C"}},
		sc{both, []string{"tomb:T:p1", "unreg:p1:T:"}}, sc{both, []string{"tomb:T:p1", "drop:p1", "lookup:T"}}, sc{both, []string{"tomb:T:p1", "reg:p1:T:C"}}, sc{regd, []string{"mktopic:T", "rmtopic:T"}},
		sc{regd, []string{"mkchan:T:C", "rmchan:T:C"}}, sc{pre, []string{"reg:p1:T:C", "reg:p2:T:C"}}, sc{pre, []string{"reg:p1:T:C", "reg:p2:T:C", "rmtopic:T"}}, sc{both, []string{"drop:p1", "drop:p2"}},
		sc{both, []string{"drop:p1", "drop:p2", "rmtopic:T"}}, sc{regd, []string{"unreg:p1:T:X#ephemeral", "reg:p2:T:X#ephemeral", "rmchan:T:X#ephemeral"}})
	var margs []interface{}
	var mspecs []nsqlookupd.LMicroSpec
	mruns := 20000
	if tier == "thorough" {
		mruns = 400000
	}
	for _, x := range scs {
		sp := nsqlookupd.LMicroSpec{Pre: x.pre, Ops: x.ops}
		mspecs = append(mspecs, sp)
		margs = append(margs, lmicroJob{Spec: sp, MaxRuns: mruns})
	}
	msched, mcapped := 0, 0
	vx.Par("lkmicro", margs, func(i int, res json.RawMessage, errStr, crash string) {
		if crash != "" || errStr != "" {
			rep.InfraError(fmt.Sprintf("lookupd micro %s: %s%s", mspecs[i], crash, errStr))
			return
		}
		var r lmicroRes
		json.Unmarshal(res, &r)
		msched += r.Res.Runs
		rep.Evaluations += r.Res.Runs
		if !r.Res.Exhaustive {
			mcapped++
			rep.Exhaustive = false
			rep.Notes = append(rep.Notes, mspecs[i].String()+": "+r.Res.Capped)
		}
		for o, n := range r.Res.Outcomes {
			rep.Outcomes[mspecs[i].String()+" => "+o] += n
		}
		for _, s := range r.Res.Infra {
			rep.InfraError(mspecs[i].String() + ": " + s)
		}
		for _, f := range r.Res.Found {
			rep.Violation(f)
		}
	})
	rep.Extra["e1_scenarios"] = len(scs)
	rep.Extra["e1_schedules_executed"] = msched
	rep.Extra["e1_scenarios_capped"] = mcapped
	rep.Extra["same_identity_two_connections"] = map[string]interface{}{"depth_completed": st2.MaxDepth, "states": st2.States, "transitions": st2.Transitions, "new_states_per_depth": st2.PerDepth}
	return rep.Finish()
}

func checkC15(tier string) int {
	rep := vx.NewReport("C15", tier, "exploration")
	rep.Assumptions = []string{"one hostile connection at a time next to one well-behaved registered producer (the per-connection protocol state is not shared between connections)", "default schedule; in-memory connections with exact byte delivery (TCP segmentation is enumerated as chunk boundaries)"}
	rep.Rule = "E5: magic = all strings of length 4 over {space,V,1,2,NUL}; first input = all strings of length <= 3 over {space,LF,A,0,NUL,0xFF}; every command x 0-3 parameters from {valid, invalid, 65 chars, empty, 55 chars + #ephemeral (65 in all)} - no name that breaks the naming rules may end up registered; IDENTIFY length prefix in {-2^31,-1,0,1,len-1,len,len+1,2^20+1,2^31-1} x body in {valid, each required field missing / zero / wrong type, null, [], {}, truncated at every byte}; commands before IDENTIFY, IDENTIFY twice; REGISTER/UNREGISTER (once, twice, registered then undone) of every key the bystander holds, durable and ephemeral; every HTTP route x method x argument class. Each against a fresh real nsqlookupd with a bystander producer whose three registrations must stay intact and which must keep being answered. plus E1: every interleaving (DPOR) of a registry-walking read request (/debug, /nodes, /topics, /channels, /lookup) with a writer (REGISTER, UNREGISTER, disconnect, admin create/delete/tombstone): no deadlock, no panic. distinct = distinct (input class, answers) outcomes"
	var specs []nsqlookupd.RobustSpec
	tcp := func(desc string, data []byte) {
		specs = append(specs, nsqlookupd.RobustSpec{Kind: "tcp", Data: data, Desc: desc})
	}
	var gen func(alpha []byte, p []byte, n int, f func([]byte))
	gen = func(alpha []byte, p []byte, n int, f func([]byte)) {
		if len(p) > 0 {
			f(append([]byte{}, p...))
		}
		if len(p) == n {
			return
		}
		for _, c := range alpha {
			gen(alpha, append(p, c), n, f)
		}
	}
	gen([]byte{' ', 'V', '1', '2', 0}, nil, 4, func(m []byte) {
		if len(m) == 4 {
			tcp(fmt.Sprintf("magic %q", m), append(m, []byte("PING\n")...))
		}
	})
	gen([]byte{' ', '\n', 'A', '0', 0, 0xFF}, nil, 3, func(s []byte) {
		tcp(fmt.Sprintf("first input %q", s), append([]byte("  V1"), s...))
	})
	valid := `{"broadcast_address":"x","hostname":"x","tcp_port":1,"http_port":2,"version":"1"}`
	ident := string(nsqlookupd.LkIdentify(int32(len(valid)), []byte(valid)))[4:]
	params := []string{"t", "t$", strings.Repeat("a", 65), "", strings.Repeat("e", 55) + "#ephemeral"}
	for _, cmd := range []string{"PING", "IDENTIFY", "REGISTER", "UNREGISTER", "XYZ", "register"} {
		var tuples [][]string
		tuples = append(tuples, nil)
		for _, a := range params {
			tuples = append(tuples, []string{a})
			for _, b := range params {
				tuples = append(tuples, []string{a, b})
				for _, c := range params {
					tuples = append(tuples, []string{a, b, c})
				}
			}
		}
		for _, tp := range tuples {
			line := strings.TrimRight(cmd+" "+strings.Join(tp, " "), " ") + "\n"
			if len(tp) > 0 && tp[len(tp)-1] == "" {
				line = cmd + " " + strings.Join(tp, " ") + "\n"
			}
			tcp(fmt.Sprintf("before IDENTIFY: %q", line), []byte("  V1"+line))
			if cmd != "IDENTIFY" {
				tcp(fmt.Sprintf("after IDENTIFY: %q", line), []byte("  V1"+ident+line))
			}
		}
	}
	// commands that name the keys of ANOTHER connection (the bystander's): they may add or
	// remove this connection's own registrations only
	for _, verb := range []string{"UNREGISTER", "REGISTER"} {
		for _, key := range []string{"ta ca", "ta", "tb", "tc cc#ephemeral", "tc", "tc zz#ephemeral", "te#ephemeral", "ta cb"} {
			line := verb + " " + key + "\n"
			tcp(fmt.Sprintf("another connection's key: %q", line), []byte("  V1"+ident+line))
			tcp(fmt.Sprintf("another connection's key, twice: %q", line), []byte("  V1"+ident+line+line))
			if verb == "REGISTER" {
				tcp(fmt.Sprintf("another connection's key, then undone: %q", line), []byte("  V1"+ident+line+"UNREGISTER "+key+"\n"))
			}
		}
	}
	// an IDENTIFY body that claims, under every field name the peer record might be decoded
	// from, to BE the other connection (its socket address is public: /nodes prints it)
	for _, field := range []string{"remote_address", "RemoteAddress", "REMOTE_ADDRESS", "id", "Id", "peer_id", "lastUpdate", "last_update"} {
		var val string
		switch field {
		case "lastUpdate", "last_update":
			val = "0"
		default:
			val = `"127.0.0.1:30001"`
		}
		b := valid[:len(valid)-1] + `,"` + field + `":` + val + `}`
		sp := string(nsqlookupd.LkIdentify(int32(len(b)), []byte(b)))[4:]
		for _, tail := range []string{"", "UNREGISTER ta ca\n", "UNREGISTER ta\n", "UNREGISTER tc cc#ephemeral\n", "REGISTER tb\nUNREGISTER tb\n", "REGISTER zz\n", "BOGUS\n"} {
			tcp(fmt.Sprintf("IDENTIFY claiming %s of another connection, then %q", field, tail), []byte("  V1"+sp+tail))
		}
	}
	tcp("IDENTIFY twice", []byte("  V1"+ident+ident))
	bodies := map[string]string{"valid": valid, "no broadcast_address": `{"hostname":"x","tcp_port":1,"http_port":2,"version":"1"}`, "tcp_port 0": `{"broadcast_address":"x","tcp_port":0,"http_port":2,"version":"1"}`,
		"no http_port": `{"broadcast_address":"x","tcp_port":1,"version":"1"}`, "no version": `{"broadcast_address":"x","tcp_port":1,"http_port":2}`, "tcp_port string": `{"broadcast_address":"x","tcp_port":"1","http_port":2,"version":"1"}`,
		"broadcast_address number": `{"broadcast_address":5,"tcp_port":1,"http_port":2,"version":"1"}`, "null": `null`, "array": `[]`, "empty object": `{}`, "number": `7`}
	for name, b := range bodies {
		n := int32(len(b))
		for _, pre := range []int32{-2147483648, -1, 0, 1, n - 1, n, n + 1, 1<<20 + 1, 2147483647} {
			tcp(fmt.Sprintf("IDENTIFY body %s with length prefix %d (actual %d)", name, pre, n), nsqlookupd.LkIdentify(pre, []byte(b)))
		}
	}
	for i := 0; i < len(valid); i++ {
		tcp(fmt.Sprintf("IDENTIFY truncated at byte %d", i), nsqlookupd.LkIdentify(int32(len(valid)), []byte(valid[:i])))
	}
	tcp("IDENTIFY 1 MiB of [", nsqlookupd.LkIdentify(1<<20, []byte(strings.Repeat("[", 1<<20))))
	nTCP := len(specs)
	long := strings.Repeat("a", 65)
	for _, path := range []string{"/ping", "/info", "/debug", "/lookup", "/topics", "/channels", "/nodes", "/topic/create", "/topic/delete", "/channel/create", "/channel/delete", "/topic/tombstone", "/nosuch", "/"} {
		for _, m := range []string{"GET", "POST", "PUT", "DELETE", "HEAD"} {
			for _, ta := range []string{"", "topic=", "topic=ta", "topic=zz", "topic=t%24", "topic=" + long, "topic=%zz", "topic=ta&topic=zz"} {
				for _, ca := range []string{"", "channel=ca", "channel=c%24", "channel=" + long, "node=by:2", "node="} {
					q := strings.Trim(ta+"&"+ca, "&")
					specs = append(specs, nsqlookupd.RobustSpec{Kind: "http", Method: m, Path: path, Query: q, Desc: fmt.Sprintf("%s %s?%s", m, path, q)})
				}
			}
		}
	}
	// E1: a read-only HTTP request that walks the registry (/debug, /nodes, /topics, /channels,
	// /lookup) concurrently with a writer (REGISTER, UNREGISTER, disconnect, admin create /
	// delete / tombstone): every interleaving; no deadlock, no panic, answers 200 - a request
	// must not be able to wedge the daemon for everybody else
	{
		pre := []string{"conn:p1", "conn:p2", "reg:p1:T:C", "reg:p1:T:X#ephemeral", "reg:p1:E#ephemeral:", "reg:p2:T:C"}
		var margs []interface{}
		var mspecs []nsqlookupd.LMicroSpec
		for _, rd := range []string{"debug", "nodes", "topics", "channels:T", "lookup:T"} {
			for _, wr := range []string{"reg:p2:U:", "unreg:p1:T:C", "drop:p1", "mktopic:V", "rmtopic:T", "mkchan:T:W", "rmchan:T:C", "tomb:T:p1"} {
				sp := nsqlookupd.LMicroSpec{Pre: pre, Ops: []string{rd, wr}}
				mspecs = append(mspecs, sp)
				margs = append(margs, lmicroJob{Spec: sp, MaxRuns: 20000})
			}
		}
		msched := 0
		vx.Par("lkmicro", margs, func(i int, res json.RawMessage, errStr, crash string) {
			if crash != "" || errStr != "" {
				rep.InfraError(fmt.Sprintf("lookupd micro %s: %s%s", mspecs[i], crash, errStr))
				return
			}
			var r lmicroRes
			json.Unmarshal(res, &r)
			msched += r.Res.Runs
			rep.Evaluations += r.Res.Runs
			if !r.Res.Exhaustive {
				rep.Exhaustive = false
				rep.Notes = append(rep.Notes, mspecs[i].String()+": "+r.Res.Capped)
			}
			for _, s := range r.Res.Infra {
				rep.InfraError(mspecs[i].String() + ": " + s)
			}
			for _, f := range r.Res.Found {
				// the differential clause belongs to C14; here: crashes, deadlocks, failed reads
				if strings.HasPrefix(f.Sig, "C14 ") {
					continue
				}
				f.Sig = "C15 " + f.Sig + " :: lookupd micro " + mspecs[i].String()
				rep.Violation(f)
			}
		})
		rep.Extra["e1_reader_vs_writer_scenarios"] = len(mspecs)
		rep.Extra["e1_schedules_executed"] = msched
	}
	var args []interface{}
	var groups [][]nsqlookupd.RobustSpec
	for i := 0; i < len(specs); i += 64 {
		j := i + 64
		if j > len(specs) {
			j = len(specs)
		}
		groups = append(groups, specs[i:j])
		args = append(args, specs[i:j])
	}
	vx.Par("robust", args, func(i int, res json.RawMessage, errStr, crash string) {
		if crash != "" || errStr != "" {
			rep.InfraError(fmt.Sprintf("robust batch starting at %q: %s%s", groups[i][0].Desc, crash, errStr))
			return
		}
		var r caseRes
		json.Unmarshal(res, &r)
		for k, o := range r.Outs {
			rep.Evaluations++
			cls := groups[i][k].Kind + " " + o.Obs
			rep.Outcome(cls)
			if k == 0 && len(rep.Samples) < 8 {
				rep.Sample(map[string]interface{}{"input": groups[i][k].Desc, "answers": o.Obs})
			}
			for _, f := range o.Viol {
				if strings.HasPrefix(f.Sig, "INFRA") {
					rep.InfraError(f.Sig + ": " + f.Detail)
				} else {
					rep.Violation(f)
				}
			}
		}
	})
	rep.Extra["tcp_inputs"] = nTCP
	rep.Extra["http_requests"] = len(specs) - nTCP
	return rep.Finish()
}
