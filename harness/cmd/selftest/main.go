//go:build go1.18 && verif

// selftest: validates the explorers of rt/vx against brute-force enumeration on small
// programs written directly against the controlled runtime. For every program the set of
// observable outcomes found by DPOR (+ sleep sets, + plain-access footprints) must equal
// the set found by enumerating every schedule. Exit 0 / 2 (never a VIOLATION: this checks
// the machinery, not nsq).
package main

import (
	"fmt"
	"os"
	"sort"
	"strings"
	"unsafe"

	"github.com/nsqio/nsq/internal/verif/vatomic"
	"github.com/nsqio/nsq/internal/verif/vrt"
	"github.com/nsqio/nsq/internal/verif/vsync"
	"github.com/nsqio/nsq/internal/verif/vx"
)

type prog struct {
	big     bool // brute force needs > 10^6 runs: only with SELFTEST_FULL=1
	name    string
	threads func(st *state) []func()
	obs     func(st *state) string
}

type msg struct {
	id   int64
	body int64
}

type state struct {
	x, y, flag, data int64
	w                int64
	mu, mu2          vsync.Mutex
	rw               vsync.RWMutex
	ch               chan *msg
	done             chan int
	r                [4]int64
	m                *msg
}

func rd(p *int64, class uint32) int64 {
	vrt.Acc(unsafe.Pointer(p), 0, false, class)
	return *p
}
func wr(p *int64, v int64, class uint32) {
	vrt.Acc(unsafe.Pointer(p), 0, true, class)
	*p = v
}

var progs = []prog{
	{false, "lost-update (plain read, yield, plain write)", func(s *state) []func() {
		inc := func() {
			vrt.Yield("a")
			t := rd(&s.x, 1)
			vrt.Yield("b")
			wr(&s.x, t+1, 1)
		}
		return []func(){inc, inc}
	}, func(s *state) string { return fmt.Sprint(s.x) }},
	{false, "publish under a lock, read data plainly", func(s *state) []func() {
		return []func(){func() {
			wr(&s.data, 7, 2)
			s.mu.Lock()
			wr(&s.flag, 1, 3)
			s.mu.Unlock()
		}, func() {
			s.mu.Lock()
			f := rd(&s.flag, 3)
			s.mu.Unlock()
			if f == 1 {
				s.r[0] = rd(&s.data, 2)
			} else {
				s.r[0] = -1
			}
		}}
	}, func(s *state) string { return fmt.Sprint(s.r[0]) }},
	{false, "send a pointer, then read the field the receiver overwrites (C13-1 shape)", func(s *state) []func() {
		return []func(){func() {
			m := &msg{id: 1}
			vrt.Send(s.ch, m)
			s.rw.RLock()
			s.r[0] = rd(&m.id, 4)
			s.rw.RUnlock()
		}, func() {
			m := vrt.Recv(s.ch)
			vatomic.AddInt64(&s.y, 1)
			wr(&m.id, 2, 4)
			s.mu.Lock()
			s.mu.Unlock()
		}}
	}, func(s *state) string { return fmt.Sprint(s.r[0]) }},
	{true, "plain flag decides whether a lock is taken", func(s *state) []func() {
		return []func(){func() {
			vrt.Yield("p")
			if rd(&s.flag, 3) == 1 {
				s.mu.Lock()
				wr(&s.x, rd(&s.x, 1)+10, 1)
				s.mu.Unlock()
			}
		}, func() {
			vrt.Yield("q")
			wr(&s.flag, 1, 3)
			s.mu.Lock()
			wr(&s.x, rd(&s.x, 1)+1, 1)
			s.mu.Unlock()
		}, func() {
			s.mu.Lock()
			s.r[1] = rd(&s.x, 1)
			s.mu.Unlock()
		}}
	}, func(s *state) string { return fmt.Sprint(s.x, s.r[1]) }},
	{false, "atomic store mixed with a plain read of the same word", func(s *state) []func() {
		return []func(){func() {
			vrt.Yield("p")
			vrt.Cls(unsafe.Pointer(&s.w), 0, 5) // what instrumented code emits before atomic.Store(&x.f, ..)
			vatomic.StoreInt64(&s.w, 5)
		}, func() {
			vrt.Yield("q")
			s.r[0] = rd(&s.w, 5)
			vrt.Yield("q2")
			s.r[1] = rd(&s.w, 5)
		}}
	}, func(s *state) string { return fmt.Sprint(s.r[0], s.r[1]) }},
	{false, "three threads, two plain cells, one lock", func(s *state) []func() {
		return []func(){func() {
			wr(&s.x, 1, 1)
			vrt.Yield("a")
			s.r[0] = rd(&s.y, 6)
		}, func() {
			wr(&s.y, 1, 6)
			vrt.Yield("b")
			s.r[1] = rd(&s.x, 1)
		}, func() {
			s.mu.Lock()
			s.r[2] = rd(&s.x, 1) + 2*rd(&s.y, 6)
			s.mu.Unlock()
		}}
	}, func(s *state) string { return fmt.Sprint(s.r[0], s.r[1], s.r[2]) }},
	{true, "second transition of a sleeping thread conflicts (wake-up by class)", func(s *state) []func() {
		return []func(){func() {
			s.mu.Lock()
			s.mu.Unlock()
			s.r[0] = rd(&s.x, 1)
		}, func() {
			s.mu2.Lock()
			s.mu2.Unlock()
			wr(&s.x, 9, 1)
		}, func() {
			vrt.Yield("c")
			s.r[1] = rd(&s.x, 1)
		}}
	}, func(s *state) string { return fmt.Sprint(s.r[0], s.r[1]) }},
	{true, "three threads, atomics only (sync-only dependence)", func(s *state) []func() {
		return []func(){func() {
			vatomic.StoreInt64(&s.x, 1)
			s.r[0] = vatomic.LoadInt64(&s.y)
		}, func() {
			vatomic.StoreInt64(&s.y, 1)
			s.r[1] = vatomic.LoadInt64(&s.x)
		}, func() {
			s.r[2] = vatomic.LoadInt64(&s.x) + 2*vatomic.LoadInt64(&s.y)
		}}
	}, func(s *state) string { return fmt.Sprint(s.r[0], s.r[1], s.r[2]) }},
	{true, "two locks, three threads, lock-order dependent result", func(s *state) []func() {
		return []func(){func() {
			s.mu.Lock()
			s.x = s.x*2 + 1
			s.mu.Unlock()
			s.mu2.Lock()
			s.y = s.y*2 + 1
			s.mu2.Unlock()
		}, func() {
			s.mu2.Lock()
			s.y = s.y * 3
			s.mu2.Unlock()
			s.mu.Lock()
			s.x = s.x * 3
			s.mu.Unlock()
		}, func() {
			s.mu.Lock()
			s.r[0] = s.x
			s.mu.Unlock()
		}}
	}, func(s *state) string { return fmt.Sprint(s.x, s.y, s.r[0]) }},
	{true, "rwmutex readers and a writer, channel hand-off", func(s *state) []func() {
		return []func(){func() {
			s.rw.RLock()
			a := s.x
			s.rw.RUnlock()
			vrt.Send(s.ch, &msg{id: a})
		}, func() {
			s.rw.Lock()
			s.x = 5
			s.rw.Unlock()
			m := vrt.Recv(s.ch)
			s.r[0] = m.id
		}, func() {
			s.rw.RLock()
			s.r[1] = s.x
			s.rw.RUnlock()
		}}
	}, func(s *state) string { return fmt.Sprint(s.r[0], s.r[1]) }},
	{false, "recursive read lock against a writer (sync.RWMutex blocks new readers once a writer is in line)", func(s *state) []func() {
		return []func(){func() {
			s.rw.RLock()
			vrt.Yield("between the two read locks")
			if s.rw.TryRLock() { // a blocking RLock here deadlocks iff the writer got in line in between
				s.r[0] = 1
				s.rw.RUnlock()
			} else {
				s.r[0] = -1 // "would deadlock"
			}
			s.rw.RUnlock()
		}, func() {
			s.rw.Lock()
			s.x = 5
			s.rw.Unlock()
		}}
	}, func(s *state) string { return fmt.Sprint(s.r[0], s.x) }},
	{false, "buffered channel, plain body written after the send", func(s *state) []func() {
		return []func(){func() {
			m := &msg{id: 1, body: 1}
			s.m = m
			vrt.Send(s.ch, m)
			vrt.Yield("after-send")
			wr(&m.body, 2, 7)
		}, func() {
			m := vrt.Recv(s.ch)
			s.mu.Lock()
			s.r[0] = rd(&m.body, 7)
			s.mu.Unlock()
			vrt.Yield("again")
			s.r[1] = rd(&m.body, 7)
		}}
	}, func(s *state) string { return fmt.Sprint(s.r[0], s.r[1]) }},
}

func body(p prog) vx.Body {
	return func() vx.Out {
		st := &state{ch: make(chan *msg, 1), done: make(chan int)}
		ths := p.threads(st)
		var wg vsync.WaitGroup
		wg.Add(len(ths))
		vrt.Quiesce()
		vrt.Window(true)
		for i, f := range ths {
			f := f
			vrt.GoNamed(fmt.Sprintf("T%d", i+1), func() { f(); wg.Done() })
		}
		wg.Wait()
		vrt.Quiesce()
		vrt.Window(false)
		return vx.Out{Obs: p.obs(st)}
	}
}

func keys(m map[string]int) string {
	var ks []string
	for k := range m {
		ks = append(ks, k)
	}
	sort.Strings(ks)
	return "{" + strings.Join(ks, " | ") + "}"
}

func main() {
	bad := 0
	for pi, p := range progs {
		if o := os.Getenv("SELFTEST_ONLY"); o != "" && o != fmt.Sprint(pi) {
			continue
		}
		d := vx.DPOR(body(p), vx.Opt{MaxRuns: 1000000})
		ns := vx.DPOR(body(p), vx.Opt{MaxRuns: 1000000, NoSleep: true})
		b := ns
		ref := "dpor-nosleep (brute force skipped: SELFTEST_FULL not set)"
		if !p.big || os.Getenv("SELFTEST_FULL") != "" {
			b = vx.Interleave(body(p), vx.Opt{NoSleep: true, MaxRuns: 12000000})
			ref = "brute"
		}
		ok := keys(d.Outcomes) == keys(b.Outcomes) && keys(ns.Outcomes) == keys(b.Outcomes) && d.Exhaustive && b.Exhaustive && len(d.Infra) == 0 && len(b.Infra) == 0
		if !b.Exhaustive && d.Exhaustive && keys(d.Outcomes) == keys(ns.Outcomes) {
			// the brute-force reference hit its run cap: it can only show outcomes DPOR lacks
			ok = true
			for o := range b.Outcomes {
				if d.Outcomes[o] == 0 {
					ok = false
				}
			}
			ref += " CAPPED (subset check only)"
		}
		verdict := "ok"
		if !ok {
			verdict = "MISMATCH"
			bad++
		}
		fmt.Printf("%-8s %-70s dpor runs=%d (blocked %d, mem races %d) outcomes=%s | dpor-nosleep runs=%d | %s runs=%d outcomes=%s\n",
			verdict, p.name, d.Runs, d.Blocked, d.MemRaces, keys(d.Outcomes), ns.Runs, ref, b.Runs, keys(b.Outcomes))
		if !ok {
			fmt.Printf("   dpor-nosleep outcomes=%s exhaustive dpor=%v brute=%v\n", keys(ns.Outcomes), d.Exhaustive, b.Exhaustive)
		}
		for _, s := range append(d.Infra, b.Infra...) {
			fmt.Println("   INFRA", s)
		}
	}
	if bad > 0 {
		fmt.Printf("SELFTEST FAILED: %d program(s) where the reduced exploration misses or invents outcomes\n", bad)
		os.Exit(2)
	}
	fmt.Printf("SELFTEST ok: %d programs, DPOR (with and without sleep sets) and brute force agree on every outcome set\n", len(progs))
}
