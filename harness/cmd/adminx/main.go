//go:build go1.18 && verif

// adminx: the harness binary for the properties anchored in package nsqadmin (C17, C18).
package main

import (
	"encoding/json"
	"flag"
	"fmt"
	"os"
	"strings"

	"github.com/nsqio/nsq/internal/verif/vx"
	"github.com/nsqio/nsq/nsqadmin"
)

type aCase struct {
	Kind string          `json:"kind"`
	Spec json.RawMessage `json:"spec"`
}

type caseRes struct {
	Outs []vx.Out `json:"outs"`
}

func runOne(c aCase) vx.Out {
	switch c.Kind {
	case "acl":
		var s nsqadmin.ACLSpec
		json.Unmarshal(c.Spec, &s)
		return nsqadmin.RunACL(s)
	case "cidr":
		var s nsqadmin.CIDRSpec
		json.Unmarshal(c.Spec, &s)
		return nsqadmin.RunCIDR(s)
	case "view":
		var s nsqadmin.MCluster
		json.Unmarshal(c.Spec, &s)
		return nsqadmin.RunView(s)
	}
	return vx.Out{Obs: "unknown kind"}
}

func mustJSON(v interface{}) json.RawMessage { b, _ := json.Marshal(v); return b }

func main() {
	vx.Register("acases", func(arg json.RawMessage) (interface{}, error) {
		var cs []aCase
		json.Unmarshal(arg, &cs)
		var r caseRes
		for i, c := range cs {
			fmt.Fprintf(os.Stderr, "CASEIDX %d\n", i)
			o := runOne(c)
			for k := range o.Viol {
				o.Viol[k].Replay = map[string]interface{}{"kind": c.Kind, "spec": c.Spec}
			}
			r.Outs = append(r.Outs, o)
		}
		return r, nil
	})
	if vx.IsWorker() {
		vx.WorkerMain()
		return
	}
	prop := flag.String("prop", "", "property id")
	tier := flag.String("tier", "quick", "quick|thorough")
	replay := flag.String("replay", "", "replay file")
	flag.Parse()
	if *replay != "" {
		b, _ := os.ReadFile(*replay)
		var r struct {
			Property string `json:"property"`
			Sig      string `json:"sig"`
			Replay   aCase  `json:"replay"`
		}
		json.Unmarshal(b, &r)
		if strings.HasPrefix(r.Sig, "C18 nsqadmin crashed") {
			fmt.Println("(a crash replay terminates this process if it reproduces)")
		}
		o := runOne(r.Replay)
		for _, v := range o.Viol {
			fmt.Println("violation:", v.Sig, "\n ", v.Detail)
			if v.Sig == r.Sig {
				fmt.Printf("VIOLATION property=%s replay=%s\n", r.Property, *replay)
				os.Exit(1)
			}
		}
		fmt.Println("not reproduced")
		os.Exit(0)
	}
	switch *prop {
	case "C17":
		os.Exit(checkC17(*tier))
	case "C18":
		os.Exit(checkC18(*tier))
	}
	fmt.Println("unknown property", *prop)
	os.Exit(2)
}

// runAll distributes cases in batches; a worker that dies mid-batch is a crash of the code
// under test on the case it was running: that is recorded and the rest of the batch is
// dispatched again.
func runAll(rep *vx.Report, cases []aCase, batch int, crashClause string) {
	pending := [][]aCase{}
	for i := 0; i < len(cases); i += batch {
		j := i + batch
		if j > len(cases) {
			j = len(cases)
		}
		pending = append(pending, cases[i:j])
	}
	for len(pending) > 0 {
		var args []interface{}
		for _, p := range pending {
			args = append(args, p)
		}
		cur := pending
		pending = nil
		vx.Par("acases", args, func(i int, res json.RawMessage, errStr, crash string) {
			if crash != "" {
				idx := -1
				what := ""
				for _, l := range strings.Split(crash, "\n") {
					if strings.HasPrefix(l, "CASEIDX ") {
						fmt.Sscanf(l, "CASEIDX %d", &idx)
					}
					if strings.HasPrefix(l, "panic:") || strings.HasPrefix(l, "fatal error:") {
						what = l
					}
				}
				if idx < 0 || idx >= len(cur[i]) || what == "" {
					rep.InfraError("worker crashed without a case marker: " + crash)
					return
				}
				c := cur[i][idx]
				top := ""
				for _, l := range strings.Split(crash, "\n") {
					if strings.Contains(l, "github.com/nsqio/nsq/") && !strings.Contains(l, "zz_verif") && !strings.HasPrefix(strings.TrimSpace(l), "/") && top == "" && strings.Contains(l, "(") {
						top = strings.TrimSpace(l)
						if k := strings.LastIndex(top, "("); k > 0 {
							top = top[:k]
						}
					}
				}
				rep.Violation(vx.Found{Sig: fmt.Sprintf("%s: %s @ %s :: %s", crashClause, what, top, c.Kind), Detail: fmt.Sprintf("case %s\n%s", c.Spec, crash), Replay: c})
				rep.Evaluations++
				rep.Outcome(c.Kind + " CRASH")
				if idx+1 < len(cur[i]) {
					pending = append(pending, cur[i][idx+1:])
				}
				// the cases before the crash were lost with the worker's output: run them again
				if idx > 0 {
					pending = append(pending, cur[i][:idx])
				}
				return
			}
			if errStr != "" {
				rep.InfraError(errStr)
				return
			}
			var r caseRes
			json.Unmarshal(res, &r)
			for k, o := range r.Outs {
				rep.Evaluations++
				rep.Outcome(cur[i][k].Kind + " " + o.Obs)
				if k == 0 && len(rep.Samples) < 8 {
					rep.Sample(map[string]interface{}{"kind": cur[i][k].Kind, "case": cur[i][k].Spec, "outcome": o.Obs})
				}
				for _, f := range o.Viol {
					if strings.HasPrefix(f.Sig, "INFRA") {
						rep.InfraError(f.Sig + ": " + f.Detail)
					} else {
						rep.Violation(f)
					}
				}
			}
		})
	}
}

func checkC17(tier string) int {
	rep := vx.NewReport("C17", tier, "exploration")
	rep.Assumptions = []string{"the identity is whatever the configured ACL header carries (nsqadmin trusts its reverse proxy)", "real loopback stub upstreams, no controlled scheduler: the decision is made before any upstream call, so nothing is scheduling-dependent"}
	rep.Rule = "E5: every route of nsqadmin's HTTP server (state-changing and read-only) x body {valid action for that route, invalid} x identity {absent, empty, non-admin, admin, case variant, trailing space, list, prefixed} x admin list {[], [admin], [admin, root]} x ACL header {default, custom, identity sent under the other header name, or claimed as the HTTP basic-auth user / in a cookie / in the query string instead}; /config GET/PUT x remote address x allowed CIDR. admin actions also with one or both nsqlookupd stubs failing (500, refused). Stub nsqd/nsqlookupd upstreams record every request. distinct = distinct (route class, status, upstream writes) outcomes"
	var cases []aCase
	type rt struct{ route, good, bad string }
	routes := []rt{
		{"POST /api/topics", `{"topic":"t","channel":"c"}`, `{"topic":"t$"}`},
		{"POST /api/topics", `{"topic":"t"}`, `not json`},
		{"POST /api/topics/t", `{"action":"pause"}`, `{"action":"explode"}`},
		{"POST /api/topics/t", `{"action":"unpause"}`, ``},
		{"POST /api/topics/t", `{"action":"empty"}`, `{"action":7}`},
		{"POST /api/topics/t/c", `{"action":"pause"}`, `{"action":"x"}`},
		{"POST /api/topics/t/c", `{"action":"unpause"}`, `{`},
		{"POST /api/topics/t/c", `{"action":"empty"}`, `[]`},
		{"DELETE /api/topics/t", ``, ``},
		{"DELETE /api/topics/t/c", ``, ``},
		{"DELETE /api/nodes/NODE0", `{"topic":"t"}`, `{"topic":"t$"}`},
		{"GET /api/topics", ``, ``}, {"GET /api/topics/t", ``, ``}, {"GET /api/topics/t/c", ``, ``}, {"GET /api/nodes", ``, ``}, {"GET /api/counter", ``, ``}, {"GET /ping", ``, ``},
	}
	identities := []string{"", "<empty>", "alice", "admin", "Admin", "admin ", "admin,alice", "x-admin", "root"}
	adminLists := [][]string{{}, {"admin"}, {"admin", "root"}}
	for _, r := range routes {
		bodies := []string{r.good}
		if r.bad != r.good {
			bodies = append(bodies, r.bad)
		}
		for _, b := range bodies {
			for _, id := range identities {
				for _, al := range adminLists {
					cases = append(cases, aCase{"acl", mustJSON(nsqadmin.ACLSpec{Route: r.route, Body: b, Identity: id, AdminUsers: al})})
					cases = append(cases, aCase{"acl", mustJSON(nsqadmin.ACLSpec{Route: r.route, Body: b, Identity: id, AdminUsers: al, Header: "X-Auth-User"})})
					cases = append(cases, aCase{"acl", mustJSON(nsqadmin.ACLSpec{Route: r.route, Body: b, Identity: id, AdminUsers: al, Header: "X-Auth-User", SendAs: "X-Forwarded-User"})})
					cases = append(cases, aCase{"acl", mustJSON(nsqadmin.ACLSpec{Route: r.route, Body: b, Identity: id, AdminUsers: al, SendAs: "X-Auth-User"})})
					if id != "" && b == r.good {
						// the identity claimed anywhere but in the configured header
						for _, as := range []string{"Authorization-Basic", "Authorization-Basic+empty", "Cookie", "Query"} {
							cases = append(cases, aCase{"acl", mustJSON(nsqadmin.ACLSpec{Route: r.route, Body: b, Identity: id, AdminUsers: al, SendAs: as})})
						}
					}
				}
			}
		}
	}
	// admin actions while nsqlookupds fail (one of two, both)
	for _, r := range routes {
		if strings.HasPrefix(r.route, "GET") || r.route == "POST /api/topics" {
			continue
		}
		for _, lh := range [][]string{{"ok", "500"}, {"500", "ok"}, {"ok", "refused"}, {"500", "500"}, {"refused", "refused"}, {"refused", "500"}} {
			for _, al := range adminLists {
				cases = append(cases, aCase{"acl", mustJSON(nsqadmin.ACLSpec{Route: r.route, Body: r.good, Identity: "admin", AdminUsers: al, LkHealth: lh})})
			}
			cases = append(cases, aCase{"acl", mustJSON(nsqadmin.ACLSpec{Route: r.route, Body: r.good, Identity: "alice", AdminUsers: []string{"admin"}, LkHealth: lh})})
		}
	}
	nACL := len(cases)
	for _, m := range []string{"GET", "PUT"} {
		for _, remote := range []string{"127.0.0.1:5000", "127.255.255.254:1", "128.0.0.1:1", "10.1.2.3:9", "[::1]:4000", "garbage", "10.0.0.1", "[fe80::1%eth0]:50000", "[::ffff:127.0.0.1]:80", "[::ffff:10.9.9.9]:80", ":80", "localhost:80", "[::1%lo]:1"} {
			for _, cidr := range []string{"", "127.0.0.1/8", "10.0.0.0/8", "::1/128"} {
				cases = append(cases, aCase{"cidr", mustJSON(nsqadmin.CIDRSpec{Method: m, Remote: remote, CIDR: cidr})})
			}
		}
	}
	runAll(rep, cases, 32, "C17 nsqadmin crashed")
	rep.Extra["acl_cases"] = nACL
	rep.Extra["config_cidr_cases"] = len(cases) - nACL
	return rep.Finish()
}

func checkC18(tier string) int {
	rep := vx.NewReport("C18", tier, "exploration")
	rep.Rule = "E5 small-scope enumeration: mode {lookupd, direct} x lookupds {1,2} x nsqds {1,2,3} x every placement of two topics on non-empty node subsets x channel layouts {none, one, two incl. the same name on several nodes} with counters drawn from {0, 1, 2^40} and clients {none, minimal, all optional fields}; x health: all healthy, every single upstream with every fault kind {refused, 500, empty body, null, wrong JSON types, inconsistent}, every pair of upstreams refused, all refused; plus two healthy lookupds that each know every ordered non-empty subset of 2-3 nodes (partial registration, answer order). /api/topics, /api/topics/:t, /api/topics/:t/:c, /api/nodes, /api/counter compared with the model cluster (unions and sums over healthy upstreams, warning vs 502). distinct = distinct (case class, outcome) pairs"
	rep.Assumptions = []string{"a null document from an upstream decodes as an empty one (no warning required); an inconsistent document may be used or dropped: for these two kinds only survival, status and well-formedness are judged"}
	var cases []aCase
	counters := []int64{0, 1, 1 << 40}
	seq := 0
	next := func() int64 { seq++; return counters[seq%3] }
	mkChan := func(name string, k int) nsqadmin.MChannel {
		ch := nsqadmin.MChannel{Name: name, Depth: next(), InFlight: next() % 7, Deferred: next() % 5, Requeue: next(), Timeout: next() % 3, Msgs: next()}
		switch k % 3 {
		case 1:
			ch.Clients = []nsqadmin.MClient{{Full: false}}
		case 2:
			ch.Clients = []nsqadmin.MClient{{Full: true}, {Full: false}}
		}
		return ch
	}
	faults := []string{"refused", "500", "empty", "null", "wrongtypes", "inconsistent"}
	for _, direct := range []bool{false, true} {
		lks := []int{1, 2}
		if direct {
			lks = []int{0}
		}
		for _, nlk := range lks {
			for nn := 1; nn <= 3; nn++ {
				full := (1 << nn) - 1
				for pa := 1; pa <= full; pa++ {
					for pb := 0; pb <= full; pb++ {
						if tier != "thorough" && nn == 3 && (pa+pb)%2 == 1 {
							continue
						}
						for layout := 0; layout < 3; layout++ {
							c := nsqadmin.MCluster{Direct: direct}
							for i := 0; i < nlk; i++ {
								c.Lookupds = append(c.Lookupds, "ok")
							}
							for i := 0; i < nn; i++ {
								n := nsqadmin.MNode{Host: fmt.Sprintf("host%d", i), Health: "ok"}
								for ti, mask := range []int{pa, pb} {
									if mask&(1<<i) == 0 {
										continue
									}
									t := nsqadmin.MTopic{Name: []string{"ta", "tb#ephemeral"}[ti], Depth: next(), Msgs: next()}
									switch layout {
									case 1:
										t.Channels = []nsqadmin.MChannel{mkChan("c", i+ti)}
									case 2:
										t.Channels = []nsqadmin.MChannel{mkChan("c", i), mkChan(fmt.Sprintf("d%d#ephemeral", i%2), i+1)}
									}
									n.Topics = append(n.Topics, t)
								}
								c.Nodes = append(c.Nodes, n)
							}
							add := func(mut func(c *nsqadmin.MCluster)) {
								b, _ := json.Marshal(c)
								var cc nsqadmin.MCluster
								json.Unmarshal(b, &cc)
								mut(&cc)
								cases = append(cases, aCase{"view", mustJSON(cc)})
							}
							add(func(*nsqadmin.MCluster) {})
							nUp := nlk + nn
							setH := func(cc *nsqadmin.MCluster, u int, h string) {
								if u < nlk {
									cc.Lookupds[u] = h
								} else {
									cc.Nodes[u-nlk].Health = h
								}
							}
							for u := 0; u < nUp; u++ {
								for _, f := range faults {
									if tier != "thorough" && layout == 0 && f != "refused" && f != "inconsistent" {
										continue
									}
									u, f := u, f
									add(func(cc *nsqadmin.MCluster) { setH(cc, u, f) })
								}
							}
							if layout == 1 {
								for u := 0; u < nUp; u++ {
									for v := u + 1; v < nUp; v++ {
										u, v := u, v
										add(func(cc *nsqadmin.MCluster) { setH(cc, u, "refused"); setH(cc, v, "500") })
									}
								}
								add(func(cc *nsqadmin.MCluster) {
									for u := 0; u < nUp; u++ {
										setH(cc, u, "refused")
									}
								})
							}
						}
					}
				}
			}
		}
	}
	nHealth := len(cases)
	// partial registration: two healthy lookupds that each know an ORDERED subset of the
	// nodes (an nsqd registered with only some lookupds; answer order is the lookupd's own)
	for nn := 2; nn <= 3; nn++ {
		subs := orderedSubsets(nn)
		full := (1 << nn) - 1
		for _, ka := range subs {
			for _, kb := range subs {
				for _, pb := range []int{0, full &^ 1} {
					for layout := 1; layout < 3; layout++ {
						c := nsqadmin.MCluster{Lookupds: []string{"ok", "ok"}, Knows: [][]int{ka, kb}}
						for i := 0; i < nn; i++ {
							n := nsqadmin.MNode{Host: fmt.Sprintf("host%d", i), Health: "ok"}
							for ti, mask := range []int{full, pb} {
								if mask&(1<<i) == 0 {
									continue
								}
								t := nsqadmin.MTopic{Name: []string{"ta", "tb#ephemeral"}[ti], Depth: next(), Msgs: next()}
								t.Channels = []nsqadmin.MChannel{mkChan("c", i+ti)}
								if layout == 2 {
									t.Channels = append(t.Channels, mkChan(fmt.Sprintf("d%d#ephemeral", i%2), i+1))
								}
								n.Topics = append(n.Topics, t)
							}
							c.Nodes = append(c.Nodes, n)
						}
						cases = append(cases, aCase{"view", mustJSON(c)})
					}
				}
			}
		}
	}
	runAll(rep, cases, 24, "C18 nsqadmin crashed")
	rep.Extra["clusters_x_health_cases"] = nHealth
	rep.Extra["partial_registration_cases"] = len(cases) - nHealth
	return rep.Finish()
}

// orderedSubsets returns every non-empty subset of {0..n-1} in every order.
func orderedSubsets(n int) [][]int {
	var out [][]int
	var rec func(cur []int, used int)
	rec = func(cur []int, used int) {
		if len(cur) > 0 {
			out = append(out, append([]int{}, cur...))
		}
		for i := 0; i < n; i++ {
			if used&(1<<i) == 0 {
				rec(append(cur, i), used|1<<i)
			}
		}
	}
	rec(nil, 0)
	return out
}
