//go:build go1.18 && verif

package main

import (
	"encoding/json"
	"strings"

	"github.com/nsqio/nsq/internal/verif/vx"
	"github.com/nsqio/nsq/nsqd"
)

func init() { checks["C10"] = checkC10 }

func runCaseC10(kind string, spec json.RawMessage) (vx.Out, bool) {
	switch kind {
	case "http":
		var c nsqd.HTTPCase
		json.Unmarshal(spec, &c)
		return runBody(func() vx.Out { return nsqd.RunHTTPCase(c) }), true
	case "pubdiff":
		var in nsqd.PubInput
		json.Unmarshal(spec, &in)
		return runBody(func() vx.Out { return nsqd.RunPubDifferential(in) }), true
	}
	return vx.Out{}, false
}

func checkC10(tier string) int {
	rep := vx.NewReport("C10", tier, "exploration")
	rep.Rule = "E5: (1) every route (registered and unknown) x method {GET,POST,PUT,DELETE,HEAD} x topic-argument class x channel-argument class (absent, empty, existing, new, invalid characters, 65 characters, bad percent-escape, given twice) x body class, plus unknown extra parameters whose text resembles a route or an action, against a status/effect model on a fixed pre-state (and, for the admin routes, on the same state with topic and channel paused); (2) differential: every text /mpub body over {a,b,newline} up to length N, binary /mpub count/length grid, /pub sizes around max-msg-size declared and chunked, defer spellings - HTTP on one fresh daemon vs the equivalent TCP command on another, comparing what was enqueued. distinct = distinct (status, effect) and differential outcomes"
	rep.Assumptions = []string{"requests are handed to the real httpServer.ServeHTTP (router, decorators, handlers); net/http's own wire parsing is not exercised", "where the documentation does not order the checks of one request (several faults at once) any of the applicable statuses is accepted"}
	var jobs []caseJob
	paths := []string{"/ping", "/info", "/pub", "/mpub", "/stats", "/topic/create", "/topic/delete", "/topic/empty", "/topic/pause", "/topic/unpause",
		"/channel/create", "/channel/delete", "/channel/empty", "/channel/pause", "/channel/unpause", "/config/nsqlookupd_tcp_addresses", "/nosuch", "/topic", "/"}
	methods := []string{"GET", "POST", "PUT", "DELETE", "HEAD"}
	long := strings.Repeat("a", 65)
	topicArgs := []string{"", "topic=", "topic=t", "topic=u", "topic=n", "topic=t%24", "topic=" + long, "topic=%zz", "topic=t&topic=n", "topic=n%23ephemeral", "topic=" + strings.Repeat("e", 55) + "%23ephemeral"}
	chanArgs := []string{"", "channel=", "channel=c", "channel=k", "channel=x", "channel=c%24", "channel=" + long, "channel=x%23ephemeral", "channel=" + strings.Repeat("e", 55) + "%23ephemeral"}
	for _, p := range paths {
		for _, m := range methods {
			for _, ta := range topicArgs {
				cas := []string{""}
				if strings.HasPrefix(p, "/channel/") || p == "/stats" {
					cas = chanArgs
				}
				for _, ca := range cas {
					q := strings.Trim(ta+"&"+ca, "&")
					bodies := []string{""}
					if p == "/pub" || p == "/mpub" {
						bodies = []string{"", "x", strings.Repeat("y", 64), strings.Repeat("y", 65), strings.Repeat("z", 257)}
					}
					if m != "POST" && len(bodies) > 1 {
						bodies = bodies[:2]
					}
					for _, b := range bodies {
						jobs = append(jobs, caseJob{"http", mustJSON(nsqd.HTTPCase{Method: m, Path: p, Query: q, Body: b})})
						if b != "" && m == "POST" {
							jobs = append(jobs, caseJob{"http", mustJSON(nsqd.HTTPCase{Method: m, Path: p, Query: q, Body: b, Chunk: true})})
						}
					}
				}
			}
		}
	}
	for _, f := range []string{"format=json", "format=text", "format=xml", "include_clients=true", "include_clients=false&format=json", "topic=t&channel=c&format=json"} {
		jobs = append(jobs, caseJob{"http", mustJSON(nsqd.HTTPCase{Method: "GET", Path: "/stats", Query: f})})
	}
	// parameters the handlers do not know must change nothing - in particular not when their
	// text resembles a route or an action; and pause/unpause from the paused pre-state too
	for _, p := range paths {
		if !strings.HasPrefix(p, "/topic/") && !strings.HasPrefix(p, "/channel/") {
			continue
		}
		q := "topic=t"
		if strings.HasPrefix(p, "/channel/") {
			q += "&channel=c"
		}
		for _, extra := range []string{"reason=unpause", "reason=pause_later", "note=delete", "note=empty", "do=create", "unpause", "unpause=1&pause=0", "channel_name=k", "topic_name=u"} {
			for _, paused := range []bool{false, true} {
				jobs = append(jobs, caseJob{"http", mustJSON(nsqd.HTTPCase{Method: "POST", Path: p, Query: q + "&" + extra, Paused: paused})})
				jobs = append(jobs, caseJob{"http", mustJSON(nsqd.HTTPCase{Method: "POST", Path: p, Query: extra + "&" + q, Paused: paused})})
			}
		}
		jobs = append(jobs, caseJob{"http", mustJSON(nsqd.HTTPCase{Method: "POST", Path: p, Query: q, Paused: true})})
	}
	nProduct := len(jobs)
	// differential
	maxLen := 5
	if tier == "thorough" {
		maxLen = 7
	}
	var gen func(p string)
	gen = func(p string) {
		jobs = append(jobs, caseJob{"pubdiff", mustJSON(nsqd.PubInput{Mode: "mpubtext", Text: p})})
		if len(p) == maxLen {
			return
		}
		for _, c := range []string{"a", "b", "\n"} {
			gen(p + c)
		}
	}
	gen("")
	for _, l := range []int{63, 64, 65} {
		line := strings.Repeat("q", l)
		jobs = append(jobs, caseJob{"pubdiff", mustJSON(nsqd.PubInput{Mode: "mpubtext", Text: "a\n" + line + "\nb"})})
		jobs = append(jobs, caseJob{"pubdiff", mustJSON(nsqd.PubInput{Mode: "mpubtext", Text: line})})
		for _, ch := range []bool{false, true} {
			jobs = append(jobs, caseJob{"pubdiff", mustJSON(nsqd.PubInput{Mode: "pub", Bodies: []string{line}, Chunk: ch})})
		}
	}
	jobs = append(jobs, caseJob{"pubdiff", mustJSON(nsqd.PubInput{Mode: "pub", Bodies: []string{"x"}})})
	for _, d := range []string{"0", "100", "3600000", "3600001", "-1", "abc", "18446744073710", "9223372036855"} {
		jobs = append(jobs, caseJob{"pubdiff", mustJSON(nsqd.PubInput{Mode: "dpub", Bodies: []string{"x"}, Defer: d})})
	}
	sizes := []int{1, 2, 64, 65}
	for _, a := range sizes {
		jobs = append(jobs, caseJob{"pubdiff", mustJSON(nsqd.PubInput{Mode: "mpubbin", Bodies: []string{strings.Repeat("m", a)}})})
		for _, b := range sizes {
			for _, ch := range []bool{false, true} {
				jobs = append(jobs, caseJob{"pubdiff", mustJSON(nsqd.PubInput{Mode: "mpubbin", Bodies: []string{strings.Repeat("m", a), strings.Repeat("n", b)}, Chunk: ch})})
			}
		}
	}
	runCases(rep, jobs, 32)
	rep.Extra["route_method_argument_cases"] = nProduct
	rep.Extra["differential_cases"] = len(jobs) - nProduct
	return rep.Finish()
}
