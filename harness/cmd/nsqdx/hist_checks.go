//go:build go1.18 && verif

package main

import (
	"encoding/json"
	"fmt"
	"strings"
	"time"

	"github.com/nsqio/nsq/internal/verif/vrt"
	"github.com/nsqio/nsq/internal/verif/vx"
	"github.com/nsqio/nsq/nsqd"
)

func runHist(cfg nsqd.HistCfg, hist []string, drain bool) nsqd.HistRes {
	var r nsqd.HistRes
	f := vrt.Run(func(*vrt.Thread, []vrt.Alt) int { return 0 }, 3000000, func() { r = nsqd.RunHist(cfg, hist, drain) })
	if f != "" {
		r.Viol = append(r.Viol, vx.Found{Sig: vx.FailSig(f) + " :: hist " + cfg.String(), Detail: fmt.Sprintf("after %v: %s", hist, f)})
		if r.Key == "" {
			r.Key = "FAILED " + vx.FailSig(f)
		}
	}
	return r
}

func init() {
	vx.Register("hist", func(arg json.RawMessage) (interface{}, error) {
		var a vx.ExpandArg
		if err := json.Unmarshal(arg, &a); err != nil {
			return nil, err
		}
		var cfg nsqd.HistCfg
		if err := json.Unmarshal(a.Cfg, &cfg); err != nil {
			return nil, err
		}
		base := runHist(cfg, a.Hist, false)
		res := vx.ExpandRes{Runs: 1}
		if len(base.Viol) > 0 && strings.HasPrefix(base.Key, "FAILED") {
			return res, nil // already reported when this state was reached
		}
		for _, ev := range base.Menu {
			h := append(append([]string{}, a.Hist...), ev)
			r := runHist(cfg, h, true)
			res.Runs++
			res.Succs = append(res.Succs, vx.Succ{Ev: ev, Key: r.Key, Viol: r.Viol})
		}
		return res, nil
	})
	checks["C01"] = func(tier string) int { return histCheck("C01", tier, "model_checking") }
	checks["C03"] = func(tier string) int { return histCheck("C03", tier, "model_checking") }
	checks["C13"] = func(tier string) int { return histCheck("C13", tier, "model_checking") }
	checks["C05"] = func(tier string) int { return histCheck("C05", tier, "fault_enumeration") }
}

type histPlan struct {
	cfg   nsqd.HistCfg
	depth int
}

func histPlans(prop, tier string) []histPlan {
	d := 6
	if tier == "thorough" {
		d = 8
	}
	var ps []histPlan
	switch prop {
	case "C05":
		for _, mq := range []int64{0, 1, 8} {
			ps = append(ps, histPlan{nsqd.HistCfg{MemQ: mq, MaxBytes: 64, MaxMsgs: 3, Chans: 1, Cons: 1, Restart: true}, d})
		}
		ps = append(ps, histPlan{nsqd.HistCfg{MemQ: 8, MaxMsgs: 3, Chans: 2, Cons: 2, Restart: true}, d - 1})
		ps = append(ps, histPlan{nsqd.HistCfg{MemQ: 1, MaxBytes: 64, MaxMsgs: 3, Chans: 1, Cons: 1, Restart: true, TightMax: true}, d - 1})
	case "C03":
		ps = append(ps, histPlan{nsqd.HistCfg{MemQ: 8, MaxMsgs: 3, Chans: 1, Cons: 2}, d})
		// (consumers with the default output buffering: the ledger learns of a send only when
		// its frame arrives, and a frame of a redelivery can sit in the buffer past the next
		// events; beyond six events the ledger's own picture can fall behind the daemon's - a
		// limit of the oracle, not of nsqd - so this configuration stays at depth 6 in both tiers)
		bd := d
		if bd > 6 {
			bd = 6
		}
		ps = append(ps, histPlan{nsqd.HistCfg{MemQ: 8, MaxMsgs: 3, Chans: 1, Cons: 2, Buffered: true}, bd})
		ps = append(ps, histPlan{nsqd.HistCfg{MemQ: 0, MaxBytes: 64, MaxMsgs: 3, Chans: 1, Cons: 1}, d})
		ps = append(ps, histPlan{nsqd.HistCfg{MemQ: 8, MaxMsgs: 2, Chans: 1, Cons: 1, Restart: true}, d - 1})
		// the topology-aware-consumption experiment: deliveries over the zone / region hand-off
		// channels obey RDY, CLS and pause like any other
		ps = append(ps, histPlan{nsqd.HistCfg{MemQ: 8, MaxMsgs: 3, Chans: 1, Cons: 2, Topology: "mixed"}, d - 1})
		ps = append(ps, histPlan{nsqd.HistCfg{MemQ: 8, MaxMsgs: 3, Chans: 1, Cons: 1, Topology: "region"}, d - 1})
	case "C13":
		ps = append(ps, histPlan{nsqd.HistCfg{MemQ: 8, MaxMsgs: 3, Chans: 2, Cons: 2, Admin: true}, d - 1})
		ps = append(ps, histPlan{nsqd.HistCfg{MemQ: 1, MaxBytes: 64, MaxMsgs: 3, Chans: 1, Cons: 1, Admin: true}, d})
		ps = append(ps, histPlan{nsqd.HistCfg{MemQ: 0, MaxMsgs: 3, Chans: 1, Cons: 1, IOFault: true}, d - 2})
	case "C02":
		// two consumers on one channel, and one consumer on each of two channels, all
		// subscribed and ready before the explored part starts
		ps = append(ps, histPlan{nsqd.HistCfg{MemQ: 8, MaxMsgs: 2, Chans: 1, Cons: 2, Pre: []string{"sub:a:c", "sub:b:c", "rdy:a:1", "rdy:b:1"}}, d - 2})
		ps = append(ps, histPlan{nsqd.HistCfg{MemQ: 8, MaxMsgs: 2, Chans: 2, Cons: 2, Pre: []string{"sub:a:c", "mkch:d", "sub:b:d", "rdy:a:1", "rdy:b:1"}}, d - 2})
		ps = append(ps, histPlan{nsqd.HistCfg{MemQ: 0, MaxBytes: 64, MaxMsgs: 2, Chans: 2, Cons: 2, Pre: []string{"sub:a:c", "mkch:d", "sub:b:d", "rdy:a:1", "rdy:b:1"}}, d - 2})
	default: // C01
		for _, mq := range []int64{0, 1, 8} {
			ps = append(ps, histPlan{nsqd.HistCfg{MemQ: mq, MaxBytes: 64, MaxMsgs: 3, Chans: 1, Cons: 1}, d})
		}
		ps = append(ps, histPlan{nsqd.HistCfg{MemQ: 8, MaxMsgs: 3, Chans: 2, Cons: 1}, d})
		ps = append(ps, histPlan{nsqd.HistCfg{MemQ: 1, MaxMsgs: 3, Chans: 1, Cons: 2}, d})
		ps = append(ps, histPlan{nsqd.HistCfg{MemQ: 1, MaxBytes: 64, MaxMsgs: 3, Chans: 1, Cons: 1, TightMax: true}, d - 1})
	}
	return ps
}

// runHistPlans runs the E3 search for each configuration and folds the results into rep,
// keeping the violations whose clause belongs to prop (and runtime failures).
func runHistPlans(rep *vx.Report, prop, tier, level string, plans []histPlan, budget time.Duration) {
	var perCfg []map[string]interface{}
	if old, ok := rep.Extra["configurations"].([]map[string]interface{}); ok {
		perCfg = old
	}
	for _, p := range plans {
		sub := vx.NewReport(prop, tier, level)
		st := vx.BFS("hist", p.cfg, p.depth, time.Now().Add(budget/time.Duration(len(plans))), sub, p.cfg.String())
		rep.States += st.States
		rep.Transitions += st.Transitions
		rep.Traces += st.Transitions
		rep.Evaluations += st.Runs
		if !st.Exhaustive {
			rep.Exhaustive = false
		}
		rep.Notes = append(rep.Notes, sub.Notes...)
		for _, s := range sub.Infra {
			rep.InfraError(s)
		}
		for _, s := range sub.Samples {
			rep.Sample(s)
		}
		other := 0
		for _, f := range sub.Found {
			clause := strings.SplitN(f.Sig, " :: ", 2)[0]
			if strings.HasPrefix(clause, "INFRA") {
				rep.InfraError(f.Sig + ": " + f.Detail)
			} else if propIn(clause, prop) || strings.HasPrefix(clause, "panic") || strings.HasPrefix(clause, "deadlock") || strings.HasPrefix(clause, "hang") {
				rep.Violation(f)
			} else {
				other++
			}
		}
		perCfg = append(perCfg, map[string]interface{}{"config": p.cfg.String(), "depth_completed": st.MaxDepth, "states": st.States, "transitions": st.Transitions, "new_states_per_depth": st.PerDepth, "exhaustive_to_depth": st.Exhaustive, "violations_of_other_properties_seen": other})
	}
	rep.Extra["configurations"] = perCfg
}

func histCheck(prop, tier, level string) int {
	rep := vx.NewReport(prop, tier, level)
	rep.Rule = "E3: breadth-first search over event histories (publishes over TCP/HTTP, SUB/RDY/FIN/REQ/TOUCH/CLS/disconnect per consumer, channel creation, pause/unpause, virtual-time advances); every transition replays its history on a fresh real nsqd under the controlled runtime (default schedule, quiescence after each event) in lock-step with a reference ledger; states deduplicated by a canonical key; distinct = distinct canonical states"
	rep.Assumptions = []string{"default schedule within an event (interleavings are the E1/E2 checks' job)", "virtual time; timeouts judged against the code's own scan/refresh intervals", "canonical key: message states with relative deadlines, consumer states, queue depths, tick phase"}
	budget := 150 * time.Second
	if tier == "thorough" {
		budget = 25 * time.Minute
	}
	runHistPlans(rep, prop, tier, level, histPlans(prop, tier), budget)
	if prop == "C05" {
		// E1: the shutdown request at every decision point of an overlapping operation
		var specs []nsqd.MicroSpec
		for _, st := range []string{"inflight", "expired", "queued", "deferred"} {
			for _, mq := range []int64{10, 0} {
				for _, op := range []string{"scan", "fin1", "req1", "req1d", "touch1", "rdy2", "pub", "disc1", "pause_ch", "stats", "create_ch2"} {
					if st == "queued" && op != "rdy2" && op != "pub" && op != "pause_ch" && op != "create_ch2" {
						continue
					}
					specs = append(specs, nsqd.MicroSpec{State: st, MemQ: mq, Ops: []string{op, "exit"}})
				}
			}
		}
		specs = append(specs, nsqd.MicroSpec{State: "expired", MemQ: 10, Ops: []string{"scan", "rdy2", "exit"}})
		specs = append(specs, nsqd.MicroSpec{State: "inflight", MemQ: 10, Ops: []string{"pub", "rdy2", "exit"}})
		// a topic with two channels (the second without a consumer): what lies at rest on the
		// second comes back, and a publish racing the shutdown comes back on both or on neither
		for _, st := range []string{"inflight", "queued"} {
			for _, mq := range []int64{10, 0} {
				specs = append(specs, nsqd.MicroSpec{State: st, MemQ: mq, TwoChan: true, Ops: []string{"exit"}})
				specs = append(specs, nsqd.MicroSpec{State: st, MemQ: mq, TwoChan: true, Ops: []string{"pub", "exit"}})
			}
		}
		// the restart itself as the explored operation: a data path on which an unpaused topic
		// with two channels still holds messages in its own queue (what `publish || Exit` leaves
		// when the pump sees the exit signal first); New + LoadMetadata + the loops interleave
		// with the re-created topic's pump and the disk queues' ioLoops
		for _, mq := range []int64{10, 0} {
			specs = append(specs, nsqd.MicroSpec{State: "tbacklog2", MemQ: mq, Ops: []string{"restart"}})
		}
		secs := 15
		if tier == "thorough" {
			secs = 300
		}
		runMicros(rep, specs, secs, false)
		// E2 over the same scenarios: the shutdown request lands at every decision point of
		// the overlapping operation (one deviation at any point: the other thread then runs
		// as far as it can), and every pair of deviations at points on shared objects. This
		// reaches "Exit between two steps of X" windows deterministically even where the
		// E1 budget above runs out first.
		runMicrosDelay(rep, specs, 30, 1, true)
		d2 := 25
		if tier == "thorough" {
			d2 = 400
		}
		d2specs := specs
		if tier != "thorough" {
			// quick: two deviations only on the memory-backed channel (the disk-backed twin
			// has the same windows plus backend I/O points) and not for the queued state
			d2specs = nil
			for _, s := range specs {
				if s.MemQ == 10 && s.State != "queued" && len(s.Ops) == 2 && s.Ops[0] != "stats" && s.Ops[0] != "pause_ch" && s.Ops[0] != "disc1" {
					d2specs = append(d2specs, s)
				}
				if s.State == "tbacklog2" && s.MemQ == 10 {
					d2specs = append(d2specs, s)
				}
			}
		}
		runMicrosDelay(rep, d2specs, d2, 2, false)
	}
	if prop == "C01" {
		// E1: a delivery overlapping the consumer's disconnect (write failures)
		var specs []nsqd.MicroSpec
		for _, st := range []string{"queued", "inflight"} {
			for _, mq := range []int64{10, 0} {
				for _, un := range []bool{true, false} {
					specs = append(specs, nsqd.MicroSpec{State: st, MemQ: mq, Unbuf: un, Ops: []string{"rdydisc1", "pub"}})
					specs = append(specs, nsqd.MicroSpec{State: st, MemQ: mq, Unbuf: un, Ops: []string{"disc1", "pub"}})
					specs = append(specs, nsqd.MicroSpec{State: st, MemQ: mq, Unbuf: un, Ops: []string{"rdydisc1", "scan"}})
					specs = append(specs, nsqd.MicroSpec{State: st, MemQ: mq, Unbuf: un, Ops: []string{"disc2", "rdy2"}})
				}
			}
		}
		for _, mq := range []int64{10, 0} {
			for _, op := range []string{"got2_req2d", "got2_req2", "got2_touch2"} {
				specs = append(specs, nsqd.MicroSpec{State: "defexp", MemQ: mq, Unbuf: true, Ops: []string{"scan", op}})
			}
			// channels created / deleted / re-created while messages flow: the topic pump's
			// snapshot of its channels
			for _, st := range []string{"inflight", "queued"} {
				for _, ops := range [][]string{{"create_ch2", "pub"}, {"del_ch", "create_ch2", "pub"}, {"del_ch", "sub3", "pub"}, {"create_ch2", "del_ch"}} {
					specs = append(specs, nsqd.MicroSpec{State: st, MemQ: mq, Ops: ops})
				}
			}
		}
		// the restart as the explored operation (see C05): a topic-level backlog reaches every
		// channel of the topic
		for _, mq := range []int64{10, 0} {
			specs = append(specs, nsqd.MicroSpec{State: "tbacklog2", MemQ: mq, Ops: []string{"restart"}})
		}
		runMicros(rep, specs, 20, false)
		runMicrosDelay(rep, specs, 40, 1, true) // every schedule with <= 1 deviation, completed
	}
	if prop == "C03" || prop == "C13" {
		// E1 complement: the consumer's in-flight count under concurrency with Empty
		var specs []nsqd.MicroSpec
		for _, st := range []string{"inflight", "expired", "queued"} {
			for _, op := range []string{"fin1", "req1", "scan", "rdy2", "touch1", "pub", "stats"} {
				if (st == "queued" && op != "rdy2" && op != "pub") || (op == "scan" && st != "expired") {
					continue
				}
				specs = append(specs, nsqd.MicroSpec{State: st, MemQ: 10, Ops: []string{op, "empty_ch"}})
				specs = append(specs, nsqd.MicroSpec{State: st, MemQ: 10, Ops: []string{op, "pause_ch"}})
			}
		}
		specs = append(specs, nsqd.MicroSpec{State: "inflight", MemQ: 10, Ops: []string{"fin1", "rdy2", "pub"}})
		if prop == "C03" {
			// pause / unpause against idle, ready consumers: the flag, the wake-up of each
			// consumer's pump and a publish, in every order
			for _, mq := range []int64{10, 0} {
				for _, ops := range [][]string{{"pause_ch"}, {"pause_ch", "pub"}, {"pause_t"}, {"pause_t", "pub"}, {"pause_ch", "unpause_ch"}, {"pause_ch", "rdy2_2"}} {
					specs = append(specs, nsqd.MicroSpec{State: "ready", MemQ: mq, Ops: ops})
				}
				for _, ops := range [][]string{{"unpause_ch"}, {"unpause_ch", "pub"}, {"unpause_ch", "rdy2"}, {"unpause_ch", "pause_ch"}} {
					specs = append(specs, nsqd.MicroSpec{State: "pausedq", MemQ: mq, Ops: ops})
				}
				for _, ops := range [][]string{{"unpause_t"}, {"unpause_t", "pub"}, {"unpause_t", "pause_t"}} {
					specs = append(specs, nsqd.MicroSpec{State: "tpausedq", MemQ: mq, Ops: ops})
				}
			}
		}
		// ... and of the counters under plain consumer concurrency (two connections)
		for _, st := range []string{"expired", "inflight", "held2"} {
			for _, pr := range pairs([]string{"fin1", "req1", "touch1", "scan", "rdy2", "rdy2_2", "fin2", "req2"}) {
				if realistic(pr) {
					specs = append(specs, nsqd.MicroSpec{State: st, MemQ: 10, Ops: pr})
				}
			}
		}
		states, outcomes := rep.States, rep.Outcomes
		runMicros(rep, specs, 20, false)
		if prop == "C03" {
			// E5: every spelling of a RDY argument around the integer boundaries x
			// max-rdy-count x connection state
			var jobs []caseJob
			for _, max := range []int64{1, 2, 2500, 1 << 31, 1<<63 - 1} {
				for _, st := range []string{"fresh", "rdy1", "closing"} {
					for _, arg := range nsqd.RdyArgs(max) {
						jobs = append(jobs, caseJob{"rdyrange", mustJSON(nsqd.RdySpec{Arg: arg, MaxRdy: max, State: st, Backlog: 3})})
					}
				}
			}
			runCases(rep, jobs, 16)
			rep.Extra["rdy_range_cases"] = len(jobs)
			rep.Rule += "; E5: every RDY argument spelling (digit strings around max-rdy-count, 2^8..2^128, leading zeros, signs, non-digits, none) x max-rdy-count {1, 2, 2500, 2^31, 2^63-1} x state {subscribed, holding a message, closing}: accepted iff a digit string with value in [0, max-rdy-count], the range error is fatal, deliveries afterwards match the new count"
		}
		_ = states
		_ = outcomes
	}
	return rep.Finish()
}
