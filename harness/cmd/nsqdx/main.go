//go:build go1.18 && verif

// nsqdx: the harness binary for the properties anchored in package nsqd.
package main

import (
	"encoding/json"
	"flag"
	"fmt"
	"os"
	"strings"
	"time"

	"github.com/nsqio/nsq/internal/verif/vrt"
	"github.com/nsqio/nsq/internal/verif/vx"
	"github.com/nsqio/nsq/nsqd"
)

type microJob struct {
	Spec    nsqd.MicroSpec `json:"spec"`
	Brute   bool           `json:"brute"`
	Delay   int            `json:"delay"` // > 0: E2 delay-bounded exploration with this bound instead of E1
	AllPts  bool           `json:"all_pts"`
	MaxRuns int            `json:"max_runs"`
	Secs    int            `json:"secs"`
}

func scratch() string {
	d := os.Getenv("VERIF_SCRATCH")
	if d == "" {
		d = "/dev/shm/verif-adhoc"
	}
	d = fmt.Sprintf("%s/p%d", d, os.Getpid())
	os.MkdirAll(d, 0755)
	return d
}

func registerHandlers() {
	vx.Register("micro", func(arg json.RawMessage) (interface{}, error) {
		var j microJob
		if err := json.Unmarshal(arg, &j); err != nil {
			return nil, err
		}
		body := func() vx.Out { return nsqd.RunMicro(j.Spec) }
		// the budget of a scenario is a number of executions (deterministic coverage,
		// independent of machine load); the wall-clock deadline is only a safety net
		opt := vx.Opt{MaxRuns: j.MaxRuns, NoSleep: j.Brute}
		if j.Secs > 0 {
			opt.Deadline = time.Now().Add(time.Duration(j.Secs) * time.Second)
		}
		var res vx.Res
		if j.Delay > 0 {
			opt.AllPts = j.AllPts
			res = vx.Delay(body, j.Delay, opt)
		} else if j.Brute {
			res = vx.Interleave(body, opt)
		} else {
			res = vx.DPOR(body, opt)
		}
		// a violation is believed only if its schedule reproduces it 5 times out of 5
		kept := res.Found[:0]
		for _, f := range res.Found {
			sched, _ := f.Replay.([]int)
			if vx.Confirm(body, sched, f.Sig, 5) {
				f.Replay = map[string]interface{}{"kind": "micro", "spec": j.Spec, "schedule": sched}
				kept = append(kept, f)
			} else {
				res.Infra = append(res.Infra, "NONDETERMINISM: violation not reproduced 5/5: "+f.Sig)
			}
		}
		res.Found = kept
		return res, nil
	})
}

func main() {
	nsqd.VerifBase = scratch()
	defer os.RemoveAll(nsqd.VerifBase)
	registerHandlers()
	registerMore()
	if vx.IsWorker() {
		vx.WorkerMain()
		os.RemoveAll(nsqd.VerifBase)
		return
	}
	prop := flag.String("prop", "", "property id")
	tier := flag.String("tier", "quick", "quick|thorough")
	replay := flag.String("replay", "", "replay file")
	one := flag.String("one", "", "debug: run one micro scenario (JSON spec) in this process")
	brute := flag.Bool("brute", false, "debug: no sleep sets")
	mode := flag.String("mode", "dpor", "debug: dpor|sleep|brute")
	histCfg := flag.String("hist", "", "debug: run one history; JSON HistCfg")
	events := flag.String("events", "", "debug: comma separated events for -hist")
	metaSteps := flag.String("meta", "", "debug: run one metadata script (comma separated steps)")
	caseKind := flag.String("case", "", "debug: run one case of this kind")
	caseSpec := flag.String("spec", "", "debug: JSON spec for -case")
	jobKind := flag.String("job", "", "debug: run one worker job of this kind in this process (argument: -spec)")
	flag.Parse()
	if *jobKind != "" {
		r, err := vx.Call(*jobKind, json.RawMessage(*caseSpec))
		b, _ := json.MarshalIndent(r, "", " ")
		fmt.Println(string(b), err)
		os.RemoveAll(nsqd.VerifBase)
		return
	}
	if *caseKind != "" {
		o := runCase(*caseKind, json.RawMessage(*caseSpec))
		fmt.Println("obs:", o.Obs)
		for _, v := range o.Viol {
			fmt.Printf("VIOL %s\n   %s\n", v.Sig, v.Detail)
		}
		os.RemoveAll(nsqd.VerifBase)
		return
	}
	if *metaSteps != "" {
		spec := nsqd.MetaSpec{Steps: strings.Split(*metaSteps, ",")}
		body := func() vx.Out { return nsqd.RunMetaScript(spec) }
		o, f, pts := vx.RunSchedule(body, nil, 0)
		vrt.MarkShared(pts)
		fmt.Println("obs", o.Obs, "fail", f, "points", len(pts))
		for i, p := range pts {
			if p.NAlts > 1 {
				fmt.Printf("  %3d t%d %-12s alts=%d shared=%v\n", i, p.Tid, p.Name, p.NAlts, p.Shared)
			}
		}
		for _, ev := range nsqd.LastMeta.Events {
			fmt.Printf("  ev %-6s %-10s %-30s step%d snaps=%v\n", ev.Kind, ev.Eff.Op, ev.Eff.Path[strings.LastIndex(ev.Eff.Path, "/")+1:], ev.Step, ev.Snaps)
		}
		jd := nsqd.JudgeMeta(nsqd.LastMeta)
		fmt.Println("images", jd.Images, "viol", jd.Viol)
		for alt := 1; alt <= 2; alt++ {
			sched := make([]int, 72)
			sched[71] = alt
			o, f, pts := vx.RunSchedule(body, sched, 0)
			fmt.Println("deviate at 71 alt", alt, "obs", o.Obs, "fail", f, "points", len(pts))
			for i := 68; i < len(pts) && i < 100; i++ {
				fmt.Printf("  %3d t%d %-12s alts=%d chosen=%d\n", i, pts[i].Tid, pts[i].Name, pts[i].NAlts, pts[i].Chosen)
			}
			jd := nsqd.JudgeMeta(nsqd.LastMeta)
			fmt.Println("images", jd.Images, "viol", jd.Viol)
		}
		os.RemoveAll(nsqd.VerifBase)
		return
	}
	if *histCfg != "" {
		var cfg nsqd.HistCfg
		if err := json.Unmarshal([]byte(*histCfg), &cfg); err != nil {
			fmt.Println(err)
			os.Exit(2)
		}
		var evs []string
		if *events != "" {
			evs = strings.Split(*events, ",")
		}
		t0 := time.Now()
		r := runHist(cfg, evs, true)
		fmt.Printf("key: %s\nmenu: %v\n(%v)\n", r.Key, r.Menu, time.Since(t0))
		for _, v := range r.Viol {
			fmt.Printf("VIOL %s\n   %s\n", v.Sig, v.Detail)
		}
		os.RemoveAll(nsqd.VerifBase)
		return
	}
	if *one != "" {
		var spec nsqd.MicroSpec
		if err := json.Unmarshal([]byte(*one), &spec); err != nil {
			fmt.Println(err)
			os.Exit(2)
		}
		t0 := time.Now()
		var res vx.Res
		bd := func() vx.Out { return nsqd.RunMicro(spec) }
		switch {
		case *mode == "dpor" && !*brute:
			res = vx.DPOR(bd, vx.Opt{MaxRuns: 2000000})
		case *mode == "dpor-all":
			res = vx.DPOR(bd, vx.Opt{MaxRuns: 2000000, AllPts: true})
		case *mode == "dpor-nosleep":
			res = vx.DPOR(bd, vx.Opt{MaxRuns: 2000000, NoSleep: true})
		case *mode == "delay1":
			res = vx.Delay(bd, 1, vx.Opt{MaxRuns: 2000000, AllPts: true})
		case *mode == "delay2":
			res = vx.Delay(bd, 2, vx.Opt{MaxRuns: 2000000})
		case *mode == "sleep" && !*brute:
			res = vx.Interleave(bd, vx.Opt{MaxRuns: 2000000})
		default:
			res = vx.Interleave(bd, vx.Opt{NoSleep: true, MaxRuns: 3000000})
		}
		fmt.Printf("%s: runs=%d blocked=%d maxpts=%d memraces=%d exhaustive=%v in %v\n", spec, res.Runs, res.Blocked, res.MaxPoints, res.MemRaces, res.Exhaustive, time.Since(t0))
		for _, o := range vx.SortedOutcomes(res.Outcomes) {
			fmt.Printf("  %6d  %s\n", res.Outcomes[o], o)
		}
		for _, f := range res.Found {
			fmt.Printf("  VIOL %s\n     %s\n     sched=%v\n", f.Sig, strings.ReplaceAll(f.Detail, "\n", "\n     "), f.Replay)
		}
		for _, s := range res.Infra {
			fmt.Println("  INFRA", s)
		}
		os.RemoveAll(nsqd.VerifBase)
		return
	}
	if os.Getenv("VERIF_TIER") != "" && *tier == "" {
		*tier = os.Getenv("VERIF_TIER")
	}
	if *replay != "" {
		os.Exit(doReplay(*replay))
	}
	f := checks[*prop]
	if f == nil {
		fmt.Println("unknown property", *prop)
		os.Exit(2)
	}
	code := f(*tier)
	os.RemoveAll(nsqd.VerifBase)
	os.Exit(code)
}

var checks = map[string]func(tier string) int{}

// runMicros runs a list of micro scenarios on the pool and folds the results into rep,
// keeping only the violations whose clause belongs to the property (clauses start with the
// ids of the properties they belong to; runtime failures belong to the running check).
func runMicros(rep *vx.Report, specs []nsqd.MicroSpec, secsEach int, brute bool) {
	runMicrosX(rep, specs, secsEach, brute, 0, false)
}

// runMicrosDelay explores the scenarios with the E2 delay-bounded explorer: the default
// schedule plus every placement of at most `bound` deviations (at every decision point if
// allPts, else at the points whose object is shared).
func runMicrosDelay(rep *vx.Report, specs []nsqd.MicroSpec, secsEach int, bound int, allPts bool) {
	runMicrosX(rep, specs, secsEach, false, bound, allPts)
}

func runMicrosX(rep *vx.Report, specs []nsqd.MicroSpec, secsEach int, brute bool, delay int, allPts bool) {
	var args []interface{}
	for _, s := range specs {
		// secsEach used to be a wall-clock budget; it now scales an execution budget
		// (about 400 executions per "second"), with 6x the time as a safety net
		args = append(args, microJob{Spec: s, MaxRuns: secsEach * 400, Secs: secsEach * 6, Brute: brute, Delay: delay, AllPts: allPts})
	}
	totalRuns, blocked, maxPts, capped, other := 0, 0, 0, 0, 0
	vx.Par("micro", args, func(i int, res json.RawMessage, errStr, crash string) {
		spec := specs[i]
		if crash != "" {
			rep.InfraError(fmt.Sprintf("worker crashed on %s: %s", spec, crash))
			return
		}
		if errStr != "" {
			rep.InfraError(fmt.Sprintf("%s: %s", spec, errStr))
			return
		}
		var r vx.Res
		if err := json.Unmarshal(res, &r); err != nil {
			rep.InfraError("bad result: " + err.Error())
			return
		}
		totalRuns += r.Runs
		blocked += r.Blocked
		if r.MaxPoints > maxPts {
			maxPts = r.MaxPoints
		}
		if !r.Exhaustive {
			capped++
			rep.Exhaustive = false
			rep.Notes = append(rep.Notes, fmt.Sprintf("%s: %s", spec, r.Capped))
		}
		for _, s := range r.Infra {
			rep.InfraError(spec.String() + ": " + s)
		}
		for o, n := range r.Outcomes {
			rep.Outcomes[spec.String()+" => "+o] += n
		}
		if len(rep.Samples) < 6 {
			rep.Sample(map[string]interface{}{"scenario": spec.String(), "schedules": r.Runs, "sleep_blocked": r.Blocked, "max_points": r.MaxPoints, "outcomes": vx.SortedOutcomes(r.Outcomes)})
		}
		for _, f := range r.Found {
			clause := strings.SplitN(f.Sig, " :: ", 2)[0]
			isRuntime := strings.HasPrefix(f.Sig, "panic") || strings.HasPrefix(f.Sig, "deadlock") || strings.HasPrefix(f.Sig, "hang")
			if isRuntime {
				f.Sig = f.Sig + " :: micro " + spec.String()
				rep.Violation(f)
			} else if strings.HasPrefix(clause, "INFRA") {
				rep.InfraError(f.Sig + ": " + f.Detail)
			} else if propIn(clause, rep.Property) {
				rep.Violation(f)
			} else {
				other++
			}
		}
	})
	rep.Evaluations += totalRuns
	add := func(k string, v int) {
		if old, ok := rep.Extra[k].(int); ok {
			v += old
		}
		rep.Extra[k] = v
	}
	if delay > 0 {
		add(fmt.Sprintf("delay_bounded_d%d_scenarios", delay), len(specs))
		add(fmt.Sprintf("delay_bounded_d%d_schedules", delay), totalRuns)
	}
	add("scenarios", len(specs))
	add("schedules_executed", totalRuns)
	add("sleep_set_blocked", blocked)
	add("scenarios_capped", capped)
	add("violations_of_other_properties_seen", other)
	if old, ok := rep.Extra["max_points_per_execution"].(int); !ok || maxPts > old {
		rep.Extra["max_points_per_execution"] = maxPts
	}
}

func propIn(clause, prop string) bool {
	for _, w := range strings.Fields(clause) {
		if len(w) == 3 && w[0] == 'C' {
			if w == prop {
				return true
			}
			continue
		}
		break
	}
	return false
}

func pairs(ops []string) [][]string {
	var out [][]string
	for i := range ops {
		for j := i + 1; j < len(ops); j++ {
			out = append(out, []string{ops[i], ops[j]})
		}
	}
	return out
}

func doReplay(path string) int {
	b, err := os.ReadFile(path)
	if err != nil {
		fmt.Println(err)
		return 2
	}
	var r struct {
		Property string `json:"property"`
		Sig      string `json:"sig"`
		Replay   struct {
			Kind     string          `json:"kind"`
			Spec     json.RawMessage `json:"spec"`
			Schedule []int           `json:"schedule"`
		} `json:"replay"`
	}
	if err := json.Unmarshal(b, &r); err != nil {
		fmt.Println(err)
		return 2
	}
	body := replayBody(r.Replay.Kind, r.Replay.Spec)
	if body == nil {
		fmt.Println("cannot replay kind", r.Replay.Kind)
		return 2
	}
	o, f, pts := vx.RunSchedule(body, r.Replay.Schedule, 0)
	fmt.Printf("points=%d obs=%s\nfailure=%s\n", len(pts), o.Obs, f)
	hit := f != "" && strings.HasPrefix(r.Sig, vx.FailSig(f))
	for _, v := range o.Viol {
		fmt.Println("violation:", v.Sig, "\n ", v.Detail)
		if v.Sig == r.Sig {
			hit = true
		}
	}
	if hit {
		fmt.Printf("VIOLATION property=%s replay=%s\n", r.Property, path)
		return 1
	}
	fmt.Println("not reproduced")
	return 0
}

func replayBody(kind string, spec json.RawMessage) vx.Body {
	switch kind {
	case "micro":
		var s nsqd.MicroSpec
		json.Unmarshal(spec, &s)
		return func() vx.Out { return nsqd.RunMicro(s) }
	}
	return replayBodyMore(kind, spec)
}
