//go:build go1.18 && verif

package main

import (
	"encoding/json"
	"time"

	"github.com/nsqio/nsq/internal/verif/vx"
	"github.com/nsqio/nsq/nsqd"
)

func init() { checks["C16"] = checkC16 }

func runCaseC16(kind string, spec json.RawMessage) (vx.Out, bool) {
	if kind != "sync" {
		return vx.Out{}, false
	}
	var s nsqd.SyncSpec
	json.Unmarshal(spec, &s)
	return runBody(func() vx.Out { return nsqd.RunSync(s) }), true
}

func checkC16(tier string) int {
	rep := vx.NewReport("C16", tier, "fault_enumeration")
	vx.JobTimeout = 4 * time.Minute
	rep.Rule = "fault enumeration: every sequence of <= N churn operations (create/delete topic and channel, ephemeral channel, first publish to a new topic, heartbeat ticks) x every sequence of <= M faults applied to successive connection attempts to nsqlookupd (refuse, accept-then-close, stall, garbage, replies with length prefix -1 / -2^31 / max-body+1 / 2^31-1, truncated reply, E_INVALID to IDENTIFY, restart with empty state) x one or two lookupds; plus every sequence of <= K operations over {set the lookupd list at runtime to {}, {1}, {2}, {1,2}; create a topic; heartbeat tick} x <= 1 fault; on a real nsqd and real nsqlookupd(s) joined by in-memory connections; afterwards 4 heartbeat intervals of virtual time and a comparison of every lookupd's registrations with nsqd's topics/channels; a publish and a delivery must succeed after every step. distinct = distinct (case, outcome) pairs"
	rep.Assumptions = []string{"default schedule (the notification path's interleavings are explored by the E1/E2 checks of C06/C08)", "virtual time; nsqd's hard-coded 15 s heartbeat and 1 s lookupd I/O deadlines are real code"}
	faults := []string{"ok", "refuse", "close", "stall", "garbage", "neglen", "minlen", "overlimit", "hugelen", "trunc", "einvalid", "restart"}
	ops := []string{"mk:a", "mkch:a:x", "rmch:a:x", "rm:a", "mkeph", "pub:fresh", "tick"}
	nOps, nFaults := 2, 2
	if tier == "thorough" {
		nOps, nFaults = 3, 3
	}
	var jobs []caseJob
	opSeqs := seqs(ops, nOps)
	faultSeqs := append([][]string{{}}, seqs(faults, nFaults)...)
	for _, lk := range []int{1, 2} {
		for _, os := range opSeqs {
			for _, fs := range faultSeqs {
				jobs = append(jobs, caseJob{"sync", mustJSON(nsqd.SyncSpec{Lookupds: lk, Faults: fs, Ops: os, PreKnown: has(os, "pub:fresh")})})
			}
		}
	}
	nChurn := len(jobs)
	// runtime reconfiguration of the lookupd list interleaved with churn and heartbeats
	cfgOps := []string{"cfg:-", "cfg:1", "cfg:2", "cfg:12", "mk:a", "tick"}
	nCfg := 3
	if tier == "thorough" {
		nCfg = 4
	}
	for _, os := range seqs(cfgOps, nCfg) {
		isCfg := false
		for _, o := range os {
			if len(o) > 4 && o[:4] == "cfg:" {
				isCfg = true
			}
		}
		if !isCfg {
			continue
		}
		for _, fs := range append([][]string{{}}, seqs(faults, 1)...) {
			jobs = append(jobs, caseJob{"sync", mustJSON(nsqd.SyncSpec{Lookupds: 2, Faults: fs, Ops: os})})
		}
	}
	runCases(rep, jobs, 16)
	rep.Extra["cases"] = len(jobs)
	rep.Extra["churn_x_fault_cases"] = nChurn
	rep.Extra["reconfiguration_cases"] = len(jobs) - nChurn
	rep.Extra["max_reconfiguration_ops"] = nCfg
	rep.Extra["max_churn_ops"] = nOps
	rep.Extra["max_faults"] = nFaults
	return rep.Finish()
}
