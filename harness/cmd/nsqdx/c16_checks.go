//go:build go1.18 && verif

package main

import (
	"encoding/json"
	"time"

	"github.com/nsqio/nsq/internal/verif/vx"
	"github.com/nsqio/nsq/nsqd"
)

type syncDelayJob struct {
	Spec    nsqd.SyncSpec `json:"spec"`
	Bound   int           `json:"bound"`
	MaxRuns int           `json:"max_runs"`
	Secs    int           `json:"secs"`
}

func init() {
	checks["C16"] = checkC16
	vx.Register("syncdelay", func(arg json.RawMessage) (interface{}, error) {
		var j syncDelayJob
		if err := json.Unmarshal(arg, &j); err != nil {
			return nil, err
		}
		body := func() vx.Out { return nsqd.RunSync(j.Spec) }
		// (the execution budget is what bounds the search; the deadline only keeps a job on a
		// loaded machine from being taken for a hung worker - reaching it is reported as
		// "not exhaustive", never as a verdict)
		res := vx.Delay(body, j.Bound, vx.Opt{MaxRuns: j.MaxRuns, MaxSteps: 3000000, Deadline: time.Now().Add(time.Duration(j.Secs) * time.Second)})
		kept := res.Found[:0]
		for _, f := range res.Found {
			sched, _ := f.Replay.([]int)
			if vx.Confirm(body, sched, f.Sig, 5) {
				f.Replay = map[string]interface{}{"kind": "syncdelay", "spec": j.Spec, "schedule": sched}
				kept = append(kept, f)
			} else {
				res.Infra = append(res.Infra, "NONDETERMINISM: violation not reproduced 5/5: "+f.Sig)
			}
		}
		res.Found = kept
		return res, nil
	})
}

func runCaseC16(kind string, spec json.RawMessage) (vx.Out, bool) {
	if kind != "sync" {
		return vx.Out{}, false
	}
	var s nsqd.SyncSpec
	json.Unmarshal(spec, &s)
	return runBody(func() vx.Out { return nsqd.RunSync(s) }), true
}

func checkC16(tier string) int {
	rep := vx.NewReport("C16", tier, "fault_enumeration")
	vx.JobTimeout = 4 * time.Minute
	rep.Rule = "fault enumeration: every sequence of <= N churn operations (create/delete topic and channel, ephemeral channel, first publish to a new topic, heartbeat ticks) x every sequence of <= M faults applied to successive connection attempts to nsqlookupd (refuse, accept-then-close, stall, garbage, replies with length prefix -1 / -2^31 / max-body+1 / 2^31-1, truncated reply, E_INVALID to IDENTIFY, restart with empty state) x one or two lookupds; plus every sequence of <= K operations over {set the lookupd list at runtime to {}, {1}, {2}, {1,2}; create a topic; heartbeat tick} x <= 1 fault; on a real nsqd and real nsqlookupd(s) joined by in-memory connections; afterwards 4 heartbeat intervals of virtual time and a comparison of every lookupd's registrations with nsqd's topics/channels; a publish and a delivery must succeed after every step; nsqlookupd's replies arriving 1 or 3 bytes per read (TCP segmentation) on every connection; nsqlookupd dropping its connections or restarting empty after durable and ephemeral topics/channels exist (the reconnect registers everything again); one lookupd whose HTTP side fails (refused, 500, garbage, empty) next to a healthy one when a topic is first created by a publish; E2: create/delete/re-create scripts of topics and channels issued back to back with every schedule of <= d deviations over the notification path (Notify goroutines -> notifyChan -> lookupLoop). distinct = distinct (case, outcome) pairs"
	rep.Assumptions = []string{"default schedule for the fault and reconfiguration cases; delay-bounded schedules for the notification-path scripts", "virtual time; nsqd's hard-coded 15 s heartbeat and 1 s lookupd I/O deadlines are real code"}
	faults := []string{"ok", "refuse", "close", "slow", "stall", "garbage", "neglen", "minlen", "overlimit", "hugelen", "trunc", "einvalid", "restart"}
	ops := []string{"mk:a", "mkch:a:x", "rmch:a:x", "rm:a", "mkeph", "pub:fresh", "tick"}
	nOps, nFaults := 2, 2
	if tier == "thorough" {
		nOps, nFaults = 3, 3
	}
	var jobs []caseJob
	opSeqs := seqs(ops, nOps)
	faultSeqs := append([][]string{{}}, seqs(faults, nFaults)...)
	for _, lk := range []int{1, 2} {
		for _, os := range opSeqs {
			for _, fs := range faultSeqs {
				jobs = append(jobs, caseJob{"sync", mustJSON(nsqd.SyncSpec{Lookupds: lk, Faults: fs, Ops: os, PreKnown: has(os, "pub:fresh")})})
			}
		}
	}
	nChurn := len(jobs)
	// runtime reconfiguration of the lookupd list interleaved with churn and heartbeats
	cfgOps := []string{"cfg:-", "cfg:1", "cfg:2", "cfg:12", "mk:a", "tick"}
	nCfg := 3
	if tier == "thorough" {
		nCfg = 4
	}
	for _, os := range seqs(cfgOps, nCfg) {
		isCfg := false
		for _, o := range os {
			if len(o) > 4 && o[:4] == "cfg:" {
				isCfg = true
			}
		}
		if !isCfg {
			continue
		}
		for _, fs := range append([][]string{{}}, seqs(faults, 1)...) {
			jobs = append(jobs, caseJob{"sync", mustJSON(nsqd.SyncSpec{Lookupds: 2, Faults: fs, Ops: os})})
		}
	}
	// one lookupd's HTTP side fails while the other is healthy: a topic first created by a
	// publish still starts with the channels the healthy one knows
	nHTTP := 0
	for _, hf := range []string{"refuse", "500", "garbage", "empty"} {
		for _, lk := range []int{1, 2} {
			for _, os := range [][]string{{"pub:fresh"}, {"mk:a", "pub:fresh"}, {"tick", "pub:fresh"}} {
				jobs = append(jobs, caseJob{"sync", mustJSON(nsqd.SyncSpec{Lookupds: lk, Ops: os, PreKnown: true, HTTPFault: hf})})
				nHTTP++
			}
		}
	}
	// nsqlookupd drops its connections / is restarted empty AFTER topics and channels
	// (durable and ephemeral) exist: the reconnect must register all of them again
	nRe := 0
	for _, lk := range []int{1, 2} {
		for _, re := range []string{"lkdrop", "lkrestart"} {
			for _, pre := range [][]string{{"mk:a"}, {"mkch:a:x"}, {"mkeph"}, {"mkch:a:x", "mkeph"}, {"mk:a", "rm:a"}, {"mkch:a:x", "rmch:a:x"}} {
				for _, post := range [][]string{{}, {"tick"}, {"mk:b"}, {"tick", "mkch:a:y"}} {
					os := append(append(append([]string{}, pre...), re), post...)
					jobs = append(jobs, caseJob{"sync", mustJSON(nsqd.SyncSpec{Lookupds: lk, Ops: os})})
					nRe++
				}
			}
		}
	}
	// TCP segmentation: nsqlookupd's replies reach nsqd 1 or 3 bytes per read, always
	nSegm := 0
	for _, sg := range []int{1, 3} {
		for _, lk := range []int{1, 2} {
			for _, os := range opSeqs {
				jobs = append(jobs, caseJob{"sync", mustJSON(nsqd.SyncSpec{Lookupds: lk, Ops: os, PreKnown: has(os, "pub:fresh"), Segment: sg})})
				nSegm++
			}
			for _, os := range [][]string{{"mkch:a:x", "lkdrop", "tick"}, {"mkeph", "lkrestart", "tick", "mk:b"}} {
				jobs = append(jobs, caseJob{"sync", mustJSON(nsqd.SyncSpec{Lookupds: lk, Ops: os, Segment: sg})})
				nSegm++
			}
		}
	}
	rep.Extra["segmented_reply_cases"] = nSegm
	rep.Extra["reconnect_cases"] = nRe
	rep.Extra["http_fault_cases"] = nHTTP
	runCases(rep, jobs, 16)
	// E2: the schedules of the notification path (Notify goroutines -> notifyChan ->
	// lookupLoop) for delete-then-recreate and create-then-delete, <= 1 deviation
	var dj []interface{}
	var dspecs []nsqd.SyncSpec
	dBound, dRunsMax, dSecs := 1, 3000, 300
	if tier == "thorough" {
		dBound, dRunsMax, dSecs = 2, 60000, 1500
	}
	vx.JobTimeout = time.Duration(dSecs+240) * time.Second
	for _, os := range [][]string{{"mk:a", "rm:a"}, {"mk:a", "rm:a", "mk:a"}, {"mk:a", "mkch:a:x", "rmch:a:x"}, {"mk:a", "mkch:a:x", "rmch:a:x", "mkch:a:x"}, {"mk:a", "mk:b"}, {"mk:a", "mkch:a:x", "rm:a"},
		{"mk:a", "mkch:a:x", "rm:a", "mk:a"}, {"mk:a", "mkch:a:x", "rm:a", "mkch:a:x"}, {"mkeph", "mk:a", "rm:a"},
		{"mk:a", "mkephon:a", "rm:a", "mk:a"}, {"mk:a", "mkephon:a", "mkch:a:x", "rm:a", "mk:a"}} {
		for _, lk := range []int{1, 2} {
			if lk == 2 && len(os) > 3 {
				continue
			}
			sp := nsqd.SyncSpec{Lookupds: lk, Ops: os, Explore: true}
			dspecs = append(dspecs, sp)
			dj = append(dj, syncDelayJob{Spec: sp, Bound: dBound, MaxRuns: dRunsMax, Secs: dSecs})
		}
	}
	dRuns := 0
	vx.Par("syncdelay", dj, func(i int, res json.RawMessage, errStr, crash string) {
		if crash != "" || errStr != "" {
			rep.InfraError("sync delay " + dspecs[i].String() + ": " + crash + errStr)
			return
		}
		var r vx.Res
		json.Unmarshal(res, &r)
		dRuns += r.Runs
		rep.Evaluations += r.Runs
		if !r.Exhaustive {
			rep.Exhaustive = false
			rep.Notes = append(rep.Notes, dspecs[i].String()+": "+r.Capped)
		}
		for o, n := range r.Outcomes {
			rep.Outcomes[dspecs[i].String()+" => "+o] += n
		}
		for _, s := range r.Infra {
			rep.InfraError(s)
		}
		for _, f := range r.Found {
			rep.Violation(f)
		}
	})
	rep.Extra["notification_path_schedules"] = dRuns
	rep.Extra["notification_path_deviation_bound"] = dBound
	rep.Extra["cases"] = len(jobs)
	rep.Extra["churn_x_fault_cases"] = nChurn
	rep.Extra["reconfiguration_cases"] = len(jobs) - nChurn
	rep.Extra["max_reconfiguration_ops"] = nCfg
	rep.Extra["max_churn_ops"] = nOps
	rep.Extra["max_faults"] = nFaults
	return rep.Finish()
}
