//go:build go1.18 && verif

package main

import (
	"encoding/json"
	"time"

	"github.com/nsqio/nsq/internal/verif/vx"
	"github.com/nsqio/nsq/nsqd"
)

func registerMore() {}

func replayBodyMore(kind string, spec json.RawMessage) vx.Body { return nil }

var consumerOps = []string{"fin1", "fin2", "req1", "req1d", "touch1", "scan", "rdy2"}
var adminOps = []string{"empty_ch", "del_ch", "del_topic", "empty_topic", "pause_ch", "unpause_ch", "pause_t", "unpause_t", "create_ch2"}
var trafficOps = []string{"pub", "disc1", "sub3", "stats"}

func init() {
	checks["C08"] = checkC08
	checks["C02"] = checkC02
}

func checkC08(tier string) int {
	rep := vx.NewReport("C08", tier, "exploration")
	rep.Rule = "E1 (+ E2: every schedule with <= 1 deviation at any decision point, completed for every scenario): every interleaving (sleep-set reduced) of 2-3 real operations on one real channel with two messages (one operated on, one at rest), per initial state x durable/ephemeral x mem-queue-size; distinct = distinct (scenario, observable outcome) pairs"
	rep.Assumptions = []string{"sequentially consistent memory; plain data races are looked for separately", "independence relation of rt/vx (one synchronisation object per transition)"}
	var specs []nsqd.MicroSpec
	states := []string{"inflight", "queued", "deferred", "expired"}
	memqs := []int64{10, 0}
	ephs := []bool{false, true}
	secs := 3
	if tier == "thorough" {
		secs = 120
	}
	all := append(append(append([]string{}, adminOps...), consumerOps...), trafficOps...)
	for _, st := range states {
		for _, eph := range ephs {
			for _, mq := range memqs {
				for _, pr := range pairs(all) {
					admin := isAdmin(pr[0]) || isAdmin(pr[1]) || has(pr, "disc1") || has(pr, "sub3")
					if !admin || !realistic(pr) {
						continue // consumer-only pairs belong to C02
					}
					if tier != "thorough" {
						// quick: the full pair set from the two richest states on a durable
						// memory-backed channel; the other states / ephemeral / disk-backed
						// variants only for pairs that involve a message operation
						msgOp := false
						for _, o := range pr {
							for _, c := range []string{"fin1", "req1", "req1d", "touch1", "scan", "rdy2", "pub", "empty_ch", "del_ch"} {
								if o == c {
									msgOp = true
								}
							}
						}
						base := (st == "inflight" || st == "queued") && !eph && mq == 10
						if !base && !(msgOp && (st == "inflight" || (st == "deferred" && !eph && mq == 10) || (st == "expired" && has(pr, "scan") && !eph && mq == 10))) {
							continue
						}
						if !base && eph && mq == 0 {
							continue
						}
					}
					specs = append(specs, nsqd.MicroSpec{State: st, Eph: eph, MemQ: mq, Ops: pr})
				}
			}
		}
	}
	// the last consumers of an ephemeral channel leave while a new one arrives
	for _, st := range []string{"inflight", "queued", "none"} {
		specs = append(specs, nsqd.MicroSpec{State: st, Eph: true, MemQ: 10, Ops: []string{"disc1", "disc2", "sub3"}})
	}
	for _, st := range []string{"inflight", "queued", "none"} {
		for _, ops := range [][]string{{"del_ch", "sub3"}, {"disc1", "sub3"}, {"del_ch", "pub"}, {"disc1", "disc2", "sub3"}, {"empty_ch", "disc1"}} {
			specs = append(specs, nsqd.MicroSpec{State: st, EphCh: true, MemQ: 10, Ops: ops})
		}
	}
	triples := [][]string{{"del_ch", "create_ch2", "pub"}, {"del_ch", "pub", "sub3"}, {"empty_ch", "fin1", "scan"}, {"disc1", "sub3", "pub"}, {"del_topic", "pub", "sub3"}, {"empty_ch", "req1", "rdy2"}}
	for _, tr := range triples {
		for _, eph := range ephs {
			specs = append(specs, nsqd.MicroSpec{State: "inflight", Eph: eph, MemQ: 10, Ops: tr})
		}
	}
	// a delete racing whatever re-creates the object, with a backlog at rest in the disk queue
	// whose metadata has been synced (sync-timeout passed): the new object must not be opened
	// on what the old one has not removed yet
	for _, ops := range [][]string{{"del_topic", "pub"}, {"del_topic", "sub3"}, {"del_topic", "create_ch2"}} {
		specs = append(specs, nsqd.MicroSpec{State: "tpausedq", MemQ: 0, Sync: true, Ops: ops})
	}
	for _, ops := range [][]string{{"del_ch", "sub3"}, {"del_ch", "pub"}, {"del_topic", "pub"}, {"del_topic", "sub3"}} {
		specs = append(specs, nsqd.MicroSpec{State: "queued", MemQ: 0, Sync: true, Ops: ops})
	}
	runMicros(rep, specs, secs, false)
	// E2 over the same scenarios, completed for every one of them: the default schedule plus
	// every schedule with one deviation, placed at any decision point (what the budgeted E1
	// search above may not have reached for the scenarios it lists as capped)
	runMicrosDelay(rep, specs, 40, 1, true)
	// E2 (two deviations at shared points, completed): the last consumer of an ephemeral
	// channel leaves while a new one subscribes - the asynchronous auto-delete in between
	var especs []nsqd.MicroSpec
	for _, st := range []string{"none", "inflight"} {
		especs = append(especs, nsqd.MicroSpec{State: st, Eph: true, Solo: true, MemQ: 10, Ops: []string{"disc1", "sub3"}})
	}
	// ... and an explicit delete of an ephemeral channel whose consumer's connection is still
	// being torn down when a new consumer re-creates the channel (the old connection's late
	// clean-up must not take the new channel with it)
	// (ephemeral channel on a durable topic: an ephemeral topic would be auto-deleted too)
	especs = append(especs, nsqd.MicroSpec{State: "none", EphCh: true, Solo: true, MemQ: 10, Ops: []string{"del_ch", "sub3"}})
	if tier == "thorough" {
		especs = append(especs, nsqd.MicroSpec{State: "inflight", EphCh: true, Solo: true, MemQ: 10, Ops: []string{"del_ch", "sub3"}},
			nsqd.MicroSpec{State: "none", EphCh: true, MemQ: 10, Ops: []string{"del_ch", "sub3"}})
		especs = append(especs, nsqd.MicroSpec{State: "none", Eph: true, MemQ: 10, Ops: []string{"disc1", "disc2", "sub3"}},
			nsqd.MicroSpec{State: "queued", Eph: true, Solo: true, MemQ: 0, Ops: []string{"disc1", "sub3"}},
			nsqd.MicroSpec{State: "tpausedq", MemQ: 0, Sync: true, Ops: []string{"del_topic", "sub3"}},
			nsqd.MicroSpec{State: "tpausedq", MemQ: 0, Sync: true, Ops: []string{"del_topic", "pub"}},
			nsqd.MicroSpec{State: "queued", MemQ: 0, Sync: true, Ops: []string{"del_ch", "sub3"}})
	}
	runMicrosDelay(rep, especs, 150, 2, false)
	rep.Rule += "; E2: every schedule with <= 2 deviations at shared points for last-consumer-leaves vs new-subscriber on an ephemeral channel"
	return rep.Finish()
}

// connOf names the connection an operation is a command of ("" if none): commands of one
// connection are executed by its single IOLoop goroutine and can never overlap.
func connOf(op string) string {
	switch op {
	case "fin1", "fin1x2", "req1", "req1d", "touch1", "cls1", "rdy1_2", "disc1":
		return "c1"
	case "fin2", "req2", "req2d", "touch2", "rdy2", "rdy2_2", "disc2", "got2_req2d", "got2_req2", "got2_fin2", "got2_touch2":
		return "c2"
	}
	return ""
}

func realistic(ops []string) bool {
	seen := map[string]bool{}
	for _, o := range ops {
		if c := connOf(o); c != "" {
			if seen[c] {
				return false
			}
			seen[c] = true
		}
	}
	return true
}

func isAdmin(op string) bool {
	for _, a := range adminOps {
		if a == op {
			return true
		}
	}
	return false
}

func has(pr []string, op string) bool {
	for _, x := range pr {
		if x == op {
			return true
		}
	}
	return false
}

func checkC02(tier string) int {
	rep := vx.NewReport("C02", tier, "exploration")
	rep.Rule = "E1 (+ E2: every schedule with <= 1 deviation at any decision point, completed for every scenario): every interleaving (sleep-set reduced) of 2-3 consumer answers / timeout scans / deliveries on one real channel, from each initial holder state; distinct = distinct (scenario, observable outcome) pairs"
	rep.Assumptions = []string{"sequentially consistent memory; plain data races are looked for separately", "independence relation of rt/vx (one synchronisation object per transition)"}
	var specs []nsqd.MicroSpec
	ops := []string{"fin1", "fin1x2", "fin2", "req1", "req1d", "req2", "touch1", "touch2", "scan", "rdy2", "rdy2_2"}
	secs := 20
	if tier == "thorough" {
		secs = 180
	}
	for _, st := range []string{"inflight", "expired", "requeued", "held2", "deferred"} {
		for _, mq := range []int64{10, 0} {
			for _, pr := range pairs(ops) {
				if !realistic(pr) {
					continue
				}
				specs = append(specs, nsqd.MicroSpec{State: st, MemQ: mq, Ops: pr})
			}
		}
	}
	for _, tr := range [][]string{{"fin1", "scan", "rdy2"}, {"touch1", "scan", "rdy2"}, {"req1", "scan", "fin2"}, {"fin1", "fin2", "scan"}, {"touch1", "scan", "fin2"}} {
		for _, st := range []string{"expired", "held2"} {
			specs = append(specs, nsqd.MicroSpec{State: st, MemQ: 10, Ops: tr})
		}
	}
	// a deferral that has just elapsed: the deferred scan moves the message back to the queue
	// while the consumer it is handed to answers at once
	for _, mq := range []int64{10, 0} {
		for _, op := range []string{"got2_req2d", "got2_req2", "got2_fin2", "got2_touch2"} {
			specs = append(specs, nsqd.MicroSpec{State: "defexp", MemQ: mq, Unbuf: true, Ops: []string{"scan", op}})
		}
	}
	// the holder's connection breaks while it is being sent more: what it held stays in
	// flight until its timeout (nothing is handed to another consumer early)
	for _, st := range []string{"inflight", "queued"} {
		for _, un := range []bool{true, false} {
			for _, op := range []string{"rdy2", "rdy2_2", "pub"} {
				specs = append(specs, nsqd.MicroSpec{State: st, MemQ: 10, Unbuf: un, Ops: []string{"rdydisc1", op}})
			}
		}
	}
	runMicros(rep, specs, secs, false)
	runMicrosDelay(rep, specs, 40, 1, true) // every schedule with <= 1 deviation at any point, completed
	// E3: sequential histories (publish paths incl. deferred, two channels, two consumers,
	// answers by holder and non-holder, timeouts) judged by the same per-delivery monitor
	hb := 60 * time.Second
	if tier == "thorough" {
		hb = 15 * time.Minute
	}
	// the holder's TOUCH after a redelivery (REQ 0, handed out again, TOUCH): its timeout is
	// measured from the delivery it holds, judged from exact arrival times (shared with C04)
	var tjobs []caseJob
	for _, fs := range [][]string{{"req0touch"}, {"req0touch", "timeout"}, {"req0touch", "req0touch"}, {"touch1", "req0touch"}} {
		tjobs = append(tjobs, caseJob{"timing", mustJSON(nsqd.TimingSpec{Fates: fs})})
		tjobs = append(tjobs, caseJob{"timing", mustJSON(nsqd.TimingSpec{Fates: fs, MsgTO: 1500})})
	}
	runCases(rep, tjobs, 2)
	runHistPlans(rep, "C02", tier, "exploration", histPlans("C02", tier), hb)
	rep.Rule += "; E3: BFS over event histories from pre-subscribed states (two consumers on one channel; one consumer on each of two channels) with the holder/attempts/FIN-final monitor of the reference ledger"
	return rep.Finish()
}

func runCaseMore(kind string, spec json.RawMessage) vx.Out {
	if o, ok := runCaseC09(kind, spec); ok {
		return o
	}
	if o, ok := runCaseC10(kind, spec); ok {
		return o
	}
	if o, ok := runCaseC11(kind, spec); ok {
		return o
	}
	if o, ok := runCaseC07(kind, spec); ok {
		return o
	}
	if o, ok := runCaseC16(kind, spec); ok {
		return o
	}
	switch kind {
	case "rdyrange":
		var a nsqd.RdySpec
		json.Unmarshal(spec, &a)
		return runBody(func() vx.Out { return nsqd.RunRdyRange(a) })
	case "genwait":
		var a struct {
			Node int64 `json:"node"`
			Back bool  `json:"back"`
		}
		json.Unmarshal(spec, &a)
		return runBody(func() vx.Out { return nsqd.RunGenerateIDWaits(a.Node, a.Back) })
	case "nodeid":
		return vx.Out{Obs: "node id range", Viol: nsqd.CheckNodeIDRange()}
	}
	return vx.Out{Obs: "unknown case kind " + kind, Viol: []vx.Found{{Sig: "INFRA unknown case kind " + kind}}}
}
