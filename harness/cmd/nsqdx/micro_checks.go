//go:build go1.18 && verif

package main

import (
	"encoding/json"

	"github.com/nsqio/nsq/internal/verif/vx"
	"github.com/nsqio/nsq/nsqd"
)

func registerMore() {}

func replayBodyMore(kind string, spec json.RawMessage) vx.Body { return nil }

var consumerOps = []string{"fin1", "fin2", "req1", "req1d", "touch1", "scan", "rdy2"}
var adminOps = []string{"empty_ch", "del_ch", "del_topic", "empty_topic", "pause_ch", "unpause_ch", "pause_t", "unpause_t", "create_ch2"}
var trafficOps = []string{"pub", "disc1", "sub3", "stats"}

func init() {
	checks["C08"] = checkC08
	checks["C02"] = checkC02
}

func checkC08(tier string) int {
	rep := vx.NewReport("C08", tier, "exploration")
	rep.Rule = "E1: every interleaving (sleep-set reduced) of 2-3 real operations on one real channel with two messages (one operated on, one at rest), per initial state x durable/ephemeral x mem-queue-size; distinct = distinct (scenario, observable outcome) pairs"
	rep.Assumptions = []string{"sequentially consistent memory; plain data races are looked for separately", "independence relation of rt/vx (one synchronisation object per transition)"}
	var specs []nsqd.MicroSpec
	states := []string{"inflight", "queued", "deferred", "expired"}
	memqs := []int64{10, 0}
	ephs := []bool{false, true}
	secs := 20
	if tier == "thorough" {
		secs = 120
	}
	all := append(append(append([]string{}, adminOps...), consumerOps...), trafficOps...)
	for _, st := range states {
		for _, eph := range ephs {
			for _, mq := range memqs {
				if eph && mq == 0 && tier != "thorough" {
					continue
				}
				for _, pr := range pairs(all) {
					admin := isAdmin(pr[0]) || isAdmin(pr[1]) || pr[0] == "disc1" || pr[1] == "disc1" || pr[0] == "sub3" || pr[1] == "sub3"
					if !admin {
						continue // consumer-only pairs belong to C02
					}
					if tier != "thorough" && !(isAdmin(pr[0]) && isAdmin(pr[1])) && st == "expired" && !has(pr, "scan") {
						continue
					}
					specs = append(specs, nsqd.MicroSpec{State: st, Eph: eph, MemQ: mq, Ops: pr})
				}
			}
		}
	}
	triples := [][]string{{"del_ch", "pub", "sub3"}, {"empty_ch", "fin1", "scan"}, {"disc1", "sub3", "pub"}, {"del_topic", "pub", "sub3"}, {"empty_ch", "req1", "rdy2"}}
	for _, tr := range triples {
		for _, eph := range ephs {
			specs = append(specs, nsqd.MicroSpec{State: "inflight", Eph: eph, MemQ: 10, Ops: tr})
		}
	}
	runMicros(rep, specs, secs, false)
	return rep.Finish()
}

func isAdmin(op string) bool {
	for _, a := range adminOps {
		if a == op {
			return true
		}
	}
	return false
}

func has(pr []string, op string) bool {
	for _, x := range pr {
		if x == op {
			return true
		}
	}
	return false
}

func checkC02(tier string) int {
	rep := vx.NewReport("C02", tier, "exploration")
	rep.Rule = "E1: every interleaving (sleep-set reduced) of 2-3 consumer answers / timeout scans / deliveries on one real channel, from each initial holder state; distinct = distinct (scenario, observable outcome) pairs"
	rep.Assumptions = []string{"sequentially consistent memory; plain data races are looked for separately", "independence relation of rt/vx (one synchronisation object per transition)"}
	var specs []nsqd.MicroSpec
	ops := []string{"fin1", "fin1x2", "fin2", "req1", "req1d", "req2", "touch1", "touch2", "scan", "rdy2"}
	secs := 20
	if tier == "thorough" {
		secs = 180
	}
	for _, st := range []string{"inflight", "expired", "requeued", "held2", "deferred"} {
		for _, mq := range []int64{10, 0} {
			for _, pr := range pairs(ops) {
				specs = append(specs, nsqd.MicroSpec{State: st, MemQ: mq, Ops: pr})
			}
		}
	}
	for _, tr := range [][]string{{"fin1", "scan", "rdy2"}, {"touch1", "scan", "rdy2"}, {"req1", "scan", "fin1"}, {"fin1", "fin2", "scan"}} {
		for _, st := range []string{"expired", "held2"} {
			specs = append(specs, nsqd.MicroSpec{State: st, MemQ: 10, Ops: tr})
		}
	}
	runMicros(rep, specs, secs, false)
	return rep.Finish()
}
