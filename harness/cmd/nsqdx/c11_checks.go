//go:build go1.18 && verif

package main

import (
	"encoding/json"

	"github.com/nsqio/nsq/internal/verif/vx"
	"github.com/nsqio/nsq/nsqd"
)

func init() { checks["C11"] = checkC11 }

func runCaseC11(kind string, spec json.RawMessage) (vx.Out, bool) {
	if kind != "policy" {
		return vx.Out{}, false
	}
	var s nsqd.PolicySpec
	json.Unmarshal(spec, &s)
	return runBody(func() vx.Out { return nsqd.RunPolicy(s) }), true
}

func seqs(alpha []string, depth int) [][]string {
	var out [][]string
	var rec func(p []string)
	rec = func(p []string) {
		if len(p) > 0 {
			out = append(out, append([]string{}, p...))
		}
		if len(p) == depth {
			return
		}
		for _, a := range alpha {
			rec(append(p, a))
		}
	}
	rec(nil)
	return out
}

func checkC11(tier string) int {
	rep := vx.NewReport("C11", tier, "model_checking")
	rep.Rule = "E3: every command sequence up to depth N on one connection of a real nsqd, compared step by step with a reference policy, under (a) every TLS x client-certificate configuration with plain / TLS / TLS+valid-cert / TLS+self-signed-cert IDENTIFY, (b) auth on with every grant of the lattice perms x topic pattern x channel patterns, (c) TTL expiry with a second answer (other grant, 500, garbage, empty) after the TTL; plaintext HTTP per configuration; the auth stub's query log must match TTL expiry. distinct = distinct (configuration, sequence, answers) outcomes"
	rep.Assumptions = []string{"a publish grant whose channel patterns do not match the empty channel may be honoured or not (the documentation does not say)", "crypto/tls itself is trusted"}
	var jobs []caseJob
	d := 4
	if tier == "thorough" {
		d = 5
	}
	// (a) TLS
	tlsAlpha := []string{"identify", "identify_tls", "identify_tlscert", "identify_tlsselfsigned", "pub:a", "sub:a:x", "nop"}
	for _, t := range []string{"none", "required", "tcp-https"} {
		for _, ca := range []string{"", "require", "require-verify"} {
			for _, s := range seqs(tlsAlpha, d) {
				jobs = append(jobs, caseJob{"policy", mustJSON(nsqd.PolicySpec{TLS: t, ClientAuth: ca, Seq: s})})
			}
		}
	}
	nTLS := len(jobs)
	// (b) grants
	var grants []nsqd.GrantSpec
	for _, perms := range [][]string{{}, {"publish"}, {"subscribe"}, {"publish", "subscribe"}} {
		for _, tp := range []string{".*", "^a$"} {
			for _, ch := range [][]string{{".*"}, {"^x$"}, {}} {
				grants = append(grants, nsqd.GrantSpec{Perms: perms, Topic: tp, Chans: ch, TTL: 60})
			}
		}
	}
	authAlpha := []string{"auth:good", "auth:bad", "pub:a", "pub:b", "mpub:a", "dpub:b", "sub:a:x", "sub:b:y", "sub:a:y", "nop"}
	ad := 3
	for gi, g := range grants {
		dd := ad
		if tier == "thorough" {
			dd = 4
		}
		_ = gi
		for _, s := range seqs(authAlpha, dd) {
			jobs = append(jobs, caseJob{"policy", mustJSON(nsqd.PolicySpec{TLS: "none", Auth: true, Grants: []nsqd.GrantSpec{g}, Seq: s})})
		}
	}
	nGrant := len(jobs) - nTLS
	// (c) TTL and changes of mind
	firsts := []nsqd.GrantSpec{{Perms: []string{"publish", "subscribe"}, Topic: ".*", Chans: []string{".*"}, TTL: 1}, {Perms: []string{"publish"}, Topic: "^a$", Chans: []string{".*"}, TTL: 2}}
	seconds := []nsqd.GrantSpec{{Perms: []string{"publish", "subscribe"}, Topic: ".*", Chans: []string{".*"}, TTL: 1}, {Perms: []string{"subscribe"}, Topic: ".*", Chans: []string{".*"}, TTL: 1}, {Perms: []string{"publish"}, Topic: "^b$", Chans: []string{".*"}, TTL: 1},
		{Fault: "500", TTL: 1}, {Fault: "garbage", TTL: 1}, {Fault: "empty", TTL: 1}}
	gated := []string{"pub:a", "pub:b", "mpub:a", "dpub:a", "sub:a:x", "sub:b:y"}
	for _, g1 := range firsts {
		for _, g2 := range seconds {
			for _, c1 := range append([]string{"nop"}, gated...) {
				for _, c2 := range gated {
					jobs = append(jobs, caseJob{"policy", mustJSON(nsqd.PolicySpec{TLS: "none", Auth: true, Grants: []nsqd.GrantSpec{g1, g2}, Seq: []string{"auth:good", c1, "adv", c2}})})
					jobs = append(jobs, caseJob{"policy", mustJSON(nsqd.PolicySpec{TLS: "none", Auth: true, Grants: []nsqd.GrantSpec{g1, g2, g1}, Seq: []string{"auth:good", "adv", c1, "adv", c2}})})
				}
			}
		}
	}
	// (d) TLS and auth together
	for _, s := range [][]string{{"identify_tls", "auth:good", "pub:a"}, {"auth:good", "pub:a"}, {"identify", "auth:good"}, {"identify_tlscert", "auth:good", "sub:a:x"}, {"identify_tls", "pub:a"}} {
		for _, ca := range []string{"", "require-verify"} {
			jobs = append(jobs, caseJob{"policy", mustJSON(nsqd.PolicySpec{TLS: "required", ClientAuth: ca, Auth: true, Grants: []nsqd.GrantSpec{{Perms: []string{"publish", "subscribe"}, Topic: ".*", Chans: []string{".*"}, TTL: 60}}, Seq: s})})
		}
	}
	runCases(rep, jobs, 32)
	rep.States = len(jobs)
	rep.Transitions = len(jobs)
	rep.Traces = len(jobs)
	rep.Extra["tls_cases"] = nTLS
	rep.Extra["grant_lattice_cases"] = nGrant
	rep.Extra["ttl_cases"] = len(jobs) - nTLS - nGrant
	return rep.Finish()
}
