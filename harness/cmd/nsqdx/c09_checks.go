//go:build go1.18 && verif

package main

import (
	"encoding/json"
	"fmt"

	"github.com/nsqio/nsq/internal/verif/vx"
	"github.com/nsqio/nsq/nsqd"
)

type garbageSpec struct {
	Magic []byte `json:"magic"`
	Data  []byte `json:"data"`
	Desc  string `json:"desc"`
}

func init() {
	checks["C09"] = checkC09
}

func runCaseC09(kind string, spec json.RawMessage) (vx.Out, bool) {
	switch kind {
	case "protoseq":
		var idx []int
		json.Unmarshal(spec, &idx)
		return runBody(func() vx.Out { return nsqd.RunProtoSeq(idx) }), true
	case "garbage":
		var g garbageSpec
		json.Unmarshal(spec, &g)
		return runBody(func() vx.Out { return nsqd.RunProtoGarbage(g.Magic, g.Data, g.Desc) }), true
	}
	return vx.Out{}, false
}

func checkC09(tier string) int {
	rep := vx.NewReport("C09", tier, "model_checking")
	vs := nsqd.PVariants()
	rep.Rule = fmt.Sprintf("E3: every sequence of <= N command variants (alphabet of %d: each of the 12 commands valid and malformed - parameters, names, sizes, counts, numbers, IDENTIFY fields at and around their limits, truncated bodies) on one connection of a real nsqd, each answer compared with a protocol table (state x command x argument class -> response class, fatal?, enqueue effect), plus a bystander connection that must stay served; E5: every byte string of length <= 3 over a 7-symbol alphabet as first input and as magic, single-position mutations of valid streams, a 1 MiB line. distinct = distinct (sequence, answers) outcomes", len(vs))
	rep.Assumptions = []string{"where the protocol document does not order the checks of one command, inputs carry a single fault", "message texts of errors are not compared, only codes"}
	depth := 2
	if tier == "thorough" {
		depth = 3
	}
	var jobs []caseJob
	var rec func(prefix []int)
	// states worth starting from: fresh, identified, subscribed, closing
	n := len(vs)
	idxOf := func(name string) int {
		for i, v := range vs {
			if v.Name == name {
				return i
			}
		}
		panic("no variant " + name)
	}
	rec = func(prefix []int) {
		if len(prefix) > 0 {
			jobs = append(jobs, caseJob{"protoseq", mustJSON(prefix)})
		}
		if len(prefix) == depth {
			return
		}
		for i := 0; i < n; i++ {
			rec(append(append([]int{}, prefix...), i))
		}
	}
	rec(nil)
	// every variant also from the subscribed and closing states
	for _, pre := range [][]int{{idxOf("SUB t c")}, {idxOf("SUB t c"), idxOf("CLS")}, {idxOf("IDENTIFY plain"), idxOf("SUB t c"), idxOf("RDY 1")}, {idxOf("SUB t c"), idxOf("PUB t 1"), idxOf("RDY 1")},
		{idxOf("SUB t c"), idxOf("CLS"), idxOf("RDY 1")}, {idxOf("SUB t c"), idxOf("RDY 1"), idxOf("CLS")}, {idxOf("SUB t c"), idxOf("PUB t 1"), idxOf("CLS"), idxOf("RDY 1")}} {
		for i := 0; i < n; i++ {
			seq := append(append([]int{}, pre...), i)
			if len(seq) > depth {
				jobs = append(jobs, caseJob{"protoseq", mustJSON(seq)})
			}
		}
	}
	states := len(jobs)
	// E5 garbage
	alpha := []byte{' ', '\n', '\r', 'A', '0', 0, 0xFF}
	var strs [][]byte
	var gen func(p []byte)
	gen = func(p []byte) {
		if len(p) > 0 {
			strs = append(strs, append([]byte{}, p...))
		}
		if len(p) == 3 {
			return
		}
		for _, c := range alpha {
			gen(append(p, c))
		}
	}
	gen(nil)
	for _, s := range strs {
		jobs = append(jobs, caseJob{"garbage", mustJSON(garbageSpec{Magic: []byte("  V2"), Data: s, Desc: fmt.Sprintf("after magic %q", s)})})
		m := append(append([]byte{}, s...), []byte("    ")...)[:4]
		jobs = append(jobs, caseJob{"garbage", mustJSON(garbageSpec{Magic: m, Data: []byte("NOP\n"), Desc: fmt.Sprintf("magic %q", m)})})
	}
	// mutations of valid streams
	corpus := [][]byte{}
	for _, names := range [][]string{{"IDENTIFY plain", "SUB t c", "RDY 1"}, {"PUB t 1"}, {"MPUB t 2"}, {"DPUB t 100"}, {"SUB t c", "FIN unknown id"}, {"SUB t c", "REQ unknown id"}, {"SUB t c", "CLS"}, {"IDENTIFY negotiate"}} {
		var b []byte
		for _, nm := range names {
			b = append(b, vsBytes(vs, nm)...)
		}
		corpus = append(corpus, b)
	}
	nmut := 0
	for ci, stream := range corpus {
		for pos := 0; pos < len(stream); pos++ {
			var muts [][]byte
			for _, c := range alpha {
				if c != stream[pos] {
					m := append([]byte{}, stream...)
					m[pos] = c
					muts = append(muts, m)
				}
			}
			muts = append(muts, append(append([]byte{}, stream[:pos]...), stream[pos+1:]...))                            // delete
			muts = append(muts, append(append(append([]byte{}, stream[:pos+1]...), stream[pos]), stream[pos+1:]...)) // duplicate
			if tier != "thorough" && pos%3 != 0 {
				muts = muts[len(muts)-2:]
			}
			for _, m := range muts {
				nmut++
				jobs = append(jobs, caseJob{"garbage", mustJSON(garbageSpec{Magic: []byte("  V2"), Data: m, Desc: fmt.Sprintf("mutation of stream %d at %d", ci, pos)})})
			}
		}
	}
	big := make([]byte, 1<<20)
	for i := range big {
		big[i] = 'A'
	}
	jobs = append(jobs, caseJob{"garbage", mustJSON(garbageSpec{Magic: []byte("  V2"), Data: big, Desc: "1 MiB line without newline"})})
	runCases(rep, jobs, 64)
	rep.States = states
	rep.Transitions = states
	rep.Traces = states
	rep.Extra["alphabet"] = len(vs)
	rep.Extra["sequence_depth"] = depth
	rep.Extra["command_sequences"] = states
	rep.Extra["garbage_strings"] = 2 * len(strs)
	rep.Extra["stream_mutations"] = nmut
	return rep.Finish()
}

func vsBytes(vs []nsqd.PVariant, name string) []byte {
	for _, v := range vs {
		if v.Name == name {
			return v.Bytes()
		}
	}
	panic("no variant " + name)
}
