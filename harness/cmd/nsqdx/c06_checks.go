//go:build go1.18 && verif

package main

import (
	"encoding/json"
	"fmt"
	"strings"
	"time"

	"github.com/nsqio/nsq/internal/verif/vrt"
	"github.com/nsqio/nsq/internal/verif/vx"
	"github.com/nsqio/nsq/nsqd"
)

type metaJob struct {
	Spec  nsqd.MetaSpec `json:"spec"`
	Bound int           `json:"bound"`
	Secs  int           `json:"secs"`
}

type metaRes struct {
	Res         vx.Res `json:"res"`
	Images      int    `json:"images"`
	CrashPoints int    `json:"crash_points"`
}

func init() {
	vx.Register("meta", func(arg json.RawMessage) (interface{}, error) {
		var j metaJob
		json.Unmarshal(arg, &j)
		var mr metaRes
		body := func() vx.Out { return nsqd.RunMetaScript(j.Spec) }
		post := func(o *vx.Out) {
			jd := nsqd.JudgeMeta(nsqd.LastMeta)
			mr.Images += jd.Images
			mr.CrashPoints += jd.CrashPoints
			o.Viol = append(o.Viol, jd.Viol...)
		}
		// two default schedulers (lowest id first / round robin): the deviations of a bound
		// are placed around both
		for _, rr := range []bool{false, true} {
			r := vx.Delay(body, j.Bound, vx.Opt{Deadline: time.Now().Add(time.Duration(j.Secs) * time.Second), Post: post, RoundRobin: rr})
			for _, f := range r.Found {
				sched, _ := f.Replay.([]int)
				vrt.S.RoundRobin = rr
				ok := vx.Confirm(body, sched, f.Sig, 5, post)
				vrt.S.RoundRobin = false
				if ok {
					f.Replay = map[string]interface{}{"kind": "meta", "spec": j.Spec, "schedule": sched, "round_robin": rr}
					dup := false
					for _, g := range mr.Res.Found {
						dup = dup || g.Sig == f.Sig
					}
					if !dup {
						mr.Res.Found = append(mr.Res.Found, f)
					}
				} else {
					mr.Res.Infra = append(mr.Res.Infra, "NONDETERMINISM: violation not reproduced 5/5: "+f.Sig)
				}
			}
			mr.Res.Runs += r.Runs
			mr.Res.Candidates += r.Candidates
			mr.Res.Infra = append(mr.Res.Infra, r.Infra...)
			if mr.Res.Outcomes == nil {
				mr.Res.Outcomes = map[string]int{}
				mr.Res.Exhaustive = true
			}
			for o, n := range r.Outcomes {
				mr.Res.Outcomes[o] += n
			}
			if !r.Exhaustive {
				mr.Res.Exhaustive = false
				mr.Res.Capped = r.Capped
			}
		}
		return mr, nil
	})
	vx.Register("metafault", func(arg json.RawMessage) (interface{}, error) {
		var j metaJob
		json.Unmarshal(arg, &j)
		var mr metaRes
		mr.Res.Outcomes = map[string]int{}
		mr.Res.Exhaustive = true
		run := func(spec nsqd.MetaSpec) (*nsqd.MetaTrace, vx.Out, string) {
			var o vx.Out
			f := vrt.Run(func(*vrt.Thread, []vrt.Alt) int { return 0 }, 3000000, func() { o = nsqd.RunMetaScript(spec) })
			return nsqd.LastMeta, o, f
		}
		// dry run: how many operations of each kind does the script perform on nsqd.dat*?
		tr, _, f := run(j.Spec)
		mr.Res.Runs++
		if f != "" {
			mr.Res.Infra = append(mr.Res.Infra, "dry run failed: "+f)
			return mr, nil
		}
		counts := map[string]int{}
		for _, ev := range tr.Events {
			if ev.Kind == "effect" {
				for _, k := range []string{"write", "fsync", "rename", "open"} {
					if strings.HasPrefix(ev.Eff.Op, k) {
						counts[k]++
					}
				}
			}
		}
		for _, k := range []string{"write", "fsync", "rename", "open"} {
			for nth := 1; nth <= counts[k]; nth++ {
				sp := j.Spec
				sp.FaultKind, sp.FaultNth = k, nth
				tr, o, f := run(sp)
				mr.Res.Runs++
				if f != "" {
					mr.Res.Found = append(mr.Res.Found, vx.Found{Sig: vx.FailSig(f) + " :: meta " + sp.String(), Detail: f, Replay: map[string]interface{}{"kind": "meta", "spec": sp, "schedule": []int{}}})
					continue
				}
				jd := nsqd.JudgeMeta(tr)
				mr.Images += jd.Images
				mr.CrashPoints += jd.CrashPoints
				mr.Res.Outcomes[fmt.Sprintf("%s => %s hit=%v", k, o.Obs, tr.FaultHit)]++
				for _, v := range jd.Viol {
					v.Replay = map[string]interface{}{"kind": "meta", "spec": sp, "schedule": []int{}}
					mr.Res.Found = append(mr.Res.Found, v)
				}
			}
		}
		return mr, nil
	})
	checks["C06"] = checkC06
}

func metaScripts(maxLen int) []nsqd.MetaSpec {
	ops := []string{"mk:a", "rm:a", "mkch:a:x", "rmch:a:x", "pause:a", "unpause:a", "pausech:a:x", "unpausech:a:x", "mk:b", "mkch:a:y", "mk:e#ephemeral", "mkch:a:z#ephemeral"}
	var out []nsqd.MetaSpec
	var rec func(prefix []string)
	rec = func(prefix []string) {
		if len(prefix) > 0 {
			out = append(out, nsqd.MetaSpec{Steps: append([]string{}, prefix...)})
		}
		if len(prefix) == maxLen {
			return
		}
		for _, o := range ops {
			rec(append(prefix, o))
		}
	}
	rec(nil)
	return out
}

func checkC06(tier string) int {
	rep := vx.NewReport("C06", tier, "fault_enumeration")
	rep.Rule = "E4: every script of <= N admin operations (create/delete/pause/unpause of topics and channels, durable and ephemeral, over the real HTTP handlers) (+ scripts whose last step is two requests in flight at once: identical, conflicting, create vs delete; + a graceful shutdown as last step, alone or with a request in flight) x every schedule with <= d deviations (E2) x every prefix of the file-effect log of nsqd.dat* x loss variants of unsynced data (all / none / torn); each image is loaded by the real New+LoadMetadata (+ a second restart cycle); plus, for the scripts of <= 2 steps, every write / fsync / rename / open of nsqd.dat* failing in turn (short write + ENOSPC) followed by every crash point. distinct = distinct (script, answer codes) outcomes; evaluations = images judged"
	rep.Assumptions = []string{"rename/unlink are atomic and durable once returned (no directory fsync modelled)", "unsynced written data may be fully present, fully lost, or torn in the middle", "idle = quiescence of every daemon goroutine"}
	maxLen, bound, secs := 2, 1, 20
	if tier == "thorough" {
		maxLen, bound, secs = 3, 2, 120
	}
	specs := metaScripts(maxLen)
	if tier != "thorough" {
		// the length-3 scripts around deletion (where asynchronous persists overlap)
		for _, s := range [][]string{{"mk:a", "mkch:a:x", "rmch:a:x"}, {"mk:a", "mkch:a:x", "rm:a"}, {"mk:a", "rm:a", "mk:a"}, {"mk:a", "pause:a", "rm:a"}, {"mk:a", "mkch:a:x", "pausech:a:x"}, {"mk:a", "mk:b", "rm:a"}, {"mk:a", "mkch:a:z#ephemeral", "rmch:a:z#ephemeral"}} {
			specs = append(specs, nsqd.MetaSpec{Steps: s})
		}
	}
	// two requests in flight at once: identical (a retry, a second operator) and conflicting
	for _, pre := range [][]string{{"mk:a", "mkch:a:x"}} {
		for _, pr := range [][2]string{{"pause:a", "pause:a"}, {"pausech:a:x", "pausech:a:x"}, {"pause:a", "unpause:a"}, {"pausech:a:x", "unpausech:a:x"},
			{"pause:a", "pausech:a:x"}, {"pause:a", "mkch:a:y"}, {"pausech:a:x", "rmch:a:x"}, {"pause:a", "rm:a"}, {"mkch:a:y", "rmch:a:x"}, {"rm:a", "mk:b"}, {"mk:b", "mk:b"}, {"rmch:a:x", "rmch:a:x"}, {"rm:a", "rm:a"}} {
			specs = append(specs, nsqd.MetaSpec{Steps: append(append([]string{}, pre...), pr[0]+"||"+pr[1])})
		}
	}
	// a graceful shutdown as the last step, alone and with a request still in flight (its
	// asynchronous persist may run after Exit has closed the topics)
	for _, last := range []string{"exit", "mkch:a:y||exit", "mk:b||exit", "pausech:a:x||exit", "rmch:a:x||exit", "rm:a||exit"} {
		specs = append(specs, nsqd.MetaSpec{Steps: []string{"mk:a", "mkch:a:x", last}})
	}
	for _, pr := range [][2]string{{"unpause:a", "unpause:a"}, {"unpausech:a:x", "unpausech:a:x"}} {
		specs = append(specs, nsqd.MetaSpec{Steps: []string{"mk:a", "mkch:a:x", "pause:a", "pausech:a:x", pr[0] + "||" + pr[1]}})
	}
	var args []interface{}
	for _, s := range specs {
		args = append(args, metaJob{Spec: s, Bound: bound, Secs: secs})
	}
	images, crashPts, runs, cands := 0, 0, 0, 0
	vx.Par("meta", args, func(i int, res json.RawMessage, errStr, crash string) {
		if crash != "" || errStr != "" {
			rep.InfraError(fmt.Sprintf("meta %s: %s%s", specs[i], crash, errStr))
			return
		}
		var r metaRes
		json.Unmarshal(res, &r)
		images += r.Images
		crashPts += r.CrashPoints
		runs += r.Res.Runs
		cands += r.Res.Candidates
		if !r.Res.Exhaustive {
			rep.Exhaustive = false
			rep.Notes = append(rep.Notes, fmt.Sprintf("%s: %s", specs[i], r.Res.Capped))
		}
		for o, n := range r.Res.Outcomes {
			rep.Outcomes[specs[i].String()+" => "+o] += n
		}
		if len(rep.Samples) < 6 {
			rep.Sample(map[string]interface{}{"script": specs[i].Steps, "schedules": r.Res.Runs, "crash_points": r.CrashPoints, "images": r.Images})
		}
		for _, s := range r.Res.Infra {
			rep.InfraError(s)
		}
		for _, f := range r.Res.Found {
			rep.Violation(f)
		}
	})
	// I/O faults: every write / fsync / rename / open of nsqd.dat* in turn fails (a full disk:
	// short write of half the data + ENOSPC), default schedule; every crash point afterwards
	var fargs []interface{}
	var fspecs []nsqd.MetaSpec
	for _, s := range specs {
		if len(s.Steps) <= 2 || (len(s.Steps) == 3 && !strings.Contains(s.String(), "||") && tier == "thorough") {
			fspecs = append(fspecs, s)
			fargs = append(fargs, metaJob{Spec: s})
		}
	}
	fRuns := 0
	vx.Par("metafault", fargs, func(i int, res json.RawMessage, errStr, crash string) {
		if crash != "" || errStr != "" {
			rep.InfraError(fmt.Sprintf("meta fault %s: %s%s", fspecs[i], crash, errStr))
			return
		}
		var r metaRes
		json.Unmarshal(res, &r)
		images += r.Images
		crashPts += r.CrashPoints
		fRuns += r.Res.Runs
		for o, n := range r.Res.Outcomes {
			rep.Outcomes[fspecs[i].String()+" fault "+o] += n
		}
		for _, s := range r.Res.Infra {
			rep.InfraError(fspecs[i].String() + ": " + s)
		}
		for _, f := range r.Res.Found {
			rep.Violation(f)
		}
	})
	rep.Extra["io_fault_runs"] = fRuns
	rep.Notes = append(rep.Notes, "observation outside this property (I/O errors are not kills): doPauseTopic/doPauseChannel ignore the error returned by PersistMetadata, so with a failing disk a pause/unpause is answered 200 although it was not persisted; under injected I/O faults only 'complete, loadable document at every instant' and 'a state the daemon passed through' are judged")
	rep.Evaluations = images
	rep.Extra["scripts"] = len(specs)
	rep.Extra["schedules_executed"] = runs
	rep.Extra["deviation_bound_completed"] = bound
	rep.Extra["deviation_candidates_in_default_schedules"] = cands
	rep.Extra["crash_points"] = crashPts
	rep.Extra["images_judged"] = images
	for _, f := range nsqd.CheckDirLock() {
		rep.Violation(f)
	}
	return rep.Finish()
}
