//go:build go1.18 && verif

package main

import (
	"encoding/json"
	"fmt"
	"time"

	"github.com/nsqio/nsq/internal/verif/vrt"
	"github.com/nsqio/nsq/internal/verif/vx"
	"github.com/nsqio/nsq/nsqd"
)

type metaJob struct {
	Spec  nsqd.MetaSpec `json:"spec"`
	Bound int           `json:"bound"`
	Secs  int           `json:"secs"`
}

type metaRes struct {
	Res         vx.Res `json:"res"`
	Images      int    `json:"images"`
	CrashPoints int    `json:"crash_points"`
}

func init() {
	vx.Register("meta", func(arg json.RawMessage) (interface{}, error) {
		var j metaJob
		json.Unmarshal(arg, &j)
		var mr metaRes
		body := func() vx.Out { return nsqd.RunMetaScript(j.Spec) }
		post := func(o *vx.Out) {
			jd := nsqd.JudgeMeta(nsqd.LastMeta)
			mr.Images += jd.Images
			mr.CrashPoints += jd.CrashPoints
			o.Viol = append(o.Viol, jd.Viol...)
		}
		// two default schedulers (lowest id first / round robin): the deviations of a bound
		// are placed around both
		for _, rr := range []bool{false, true} {
			r := vx.Delay(body, j.Bound, vx.Opt{Deadline: time.Now().Add(time.Duration(j.Secs) * time.Second), Post: post, RoundRobin: rr})
			for _, f := range r.Found {
				sched, _ := f.Replay.([]int)
				vrt.S.RoundRobin = rr
				ok := vx.Confirm(body, sched, f.Sig, 5, post)
				vrt.S.RoundRobin = false
				if ok {
					f.Replay = map[string]interface{}{"kind": "meta", "spec": j.Spec, "schedule": sched, "round_robin": rr}
					dup := false
					for _, g := range mr.Res.Found {
						dup = dup || g.Sig == f.Sig
					}
					if !dup {
						mr.Res.Found = append(mr.Res.Found, f)
					}
				} else {
					mr.Res.Infra = append(mr.Res.Infra, "NONDETERMINISM: violation not reproduced 5/5: "+f.Sig)
				}
			}
			mr.Res.Runs += r.Runs
			mr.Res.Candidates += r.Candidates
			mr.Res.Infra = append(mr.Res.Infra, r.Infra...)
			if mr.Res.Outcomes == nil {
				mr.Res.Outcomes = map[string]int{}
				mr.Res.Exhaustive = true
			}
			for o, n := range r.Outcomes {
				mr.Res.Outcomes[o] += n
			}
			if !r.Exhaustive {
				mr.Res.Exhaustive = false
				mr.Res.Capped = r.Capped
			}
		}
		return mr, nil
	})
	checks["C06"] = checkC06
}

func metaScripts(maxLen int) []nsqd.MetaSpec {
	ops := []string{"mk:a", "rm:a", "mkch:a:x", "rmch:a:x", "pause:a", "unpause:a", "pausech:a:x", "unpausech:a:x", "mk:b", "mkch:a:y", "mk:e#ephemeral", "mkch:a:z#ephemeral"}
	var out []nsqd.MetaSpec
	var rec func(prefix []string)
	rec = func(prefix []string) {
		if len(prefix) > 0 {
			out = append(out, nsqd.MetaSpec{Steps: append([]string{}, prefix...)})
		}
		if len(prefix) == maxLen {
			return
		}
		for _, o := range ops {
			rec(append(prefix, o))
		}
	}
	rec(nil)
	return out
}

func checkC06(tier string) int {
	rep := vx.NewReport("C06", tier, "fault_enumeration")
	rep.Rule = "E4: every script of <= N admin operations (create/delete/pause/unpause of topics and channels, durable and ephemeral, over the real HTTP handlers) (+ scripts whose last step is two requests in flight at once: identical, conflicting, create vs delete) x every schedule with <= d deviations (E2) x every prefix of the file-effect log of nsqd.dat* x loss variants of unsynced data (all / none / torn); each image is loaded by the real New+LoadMetadata (+ a second restart cycle). distinct = distinct (script, answer codes) outcomes; evaluations = images judged"
	rep.Assumptions = []string{"rename/unlink are atomic and durable once returned (no directory fsync modelled)", "unsynced written data may be fully present, fully lost, or torn in the middle", "idle = quiescence of every daemon goroutine"}
	maxLen, bound, secs := 2, 1, 20
	if tier == "thorough" {
		maxLen, bound, secs = 3, 2, 120
	}
	specs := metaScripts(maxLen)
	if tier != "thorough" {
		// the length-3 scripts around deletion (where asynchronous persists overlap)
		for _, s := range [][]string{{"mk:a", "mkch:a:x", "rmch:a:x"}, {"mk:a", "mkch:a:x", "rm:a"}, {"mk:a", "rm:a", "mk:a"}, {"mk:a", "pause:a", "rm:a"}, {"mk:a", "mkch:a:x", "pausech:a:x"}, {"mk:a", "mk:b", "rm:a"}, {"mk:a", "mkch:a:z#ephemeral", "rmch:a:z#ephemeral"}} {
			specs = append(specs, nsqd.MetaSpec{Steps: s})
		}
	}
	// two requests in flight at once: identical (a retry, a second operator) and conflicting
	for _, pre := range [][]string{{"mk:a", "mkch:a:x"}} {
		for _, pr := range [][2]string{{"pause:a", "pause:a"}, {"pausech:a:x", "pausech:a:x"}, {"pause:a", "unpause:a"}, {"pausech:a:x", "unpausech:a:x"},
			{"pause:a", "pausech:a:x"}, {"pause:a", "mkch:a:y"}, {"pausech:a:x", "rmch:a:x"}, {"pause:a", "rm:a"}, {"mkch:a:y", "rmch:a:x"}, {"rm:a", "mk:b"}, {"mk:b", "mk:b"}, {"rmch:a:x", "rmch:a:x"}, {"rm:a", "rm:a"}} {
			specs = append(specs, nsqd.MetaSpec{Steps: append(append([]string{}, pre...), pr[0]+"||"+pr[1])})
		}
	}
	for _, pr := range [][2]string{{"unpause:a", "unpause:a"}, {"unpausech:a:x", "unpausech:a:x"}} {
		specs = append(specs, nsqd.MetaSpec{Steps: []string{"mk:a", "mkch:a:x", "pause:a", "pausech:a:x", pr[0] + "||" + pr[1]}})
	}
	var args []interface{}
	for _, s := range specs {
		args = append(args, metaJob{Spec: s, Bound: bound, Secs: secs})
	}
	images, crashPts, runs, cands := 0, 0, 0, 0
	vx.Par("meta", args, func(i int, res json.RawMessage, errStr, crash string) {
		if crash != "" || errStr != "" {
			rep.InfraError(fmt.Sprintf("meta %s: %s%s", specs[i], crash, errStr))
			return
		}
		var r metaRes
		json.Unmarshal(res, &r)
		images += r.Images
		crashPts += r.CrashPoints
		runs += r.Res.Runs
		cands += r.Res.Candidates
		if !r.Res.Exhaustive {
			rep.Exhaustive = false
			rep.Notes = append(rep.Notes, fmt.Sprintf("%s: %s", specs[i], r.Res.Capped))
		}
		for o, n := range r.Res.Outcomes {
			rep.Outcomes[specs[i].String()+" => "+o] += n
		}
		if len(rep.Samples) < 6 {
			rep.Sample(map[string]interface{}{"script": specs[i].Steps, "schedules": r.Res.Runs, "crash_points": r.CrashPoints, "images": r.Images})
		}
		for _, s := range r.Res.Infra {
			rep.InfraError(s)
		}
		for _, f := range r.Res.Found {
			rep.Violation(f)
		}
	})
	rep.Evaluations = images
	rep.Extra["scripts"] = len(specs)
	rep.Extra["schedules_executed"] = runs
	rep.Extra["deviation_bound_completed"] = bound
	rep.Extra["deviation_candidates_in_default_schedules"] = cands
	rep.Extra["crash_points"] = crashPts
	rep.Extra["images_judged"] = images
	for _, f := range nsqd.CheckDirLock() {
		rep.Violation(f)
	}
	return rep.Finish()
}
