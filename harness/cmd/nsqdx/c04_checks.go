//go:build go1.18 && verif

package main

import (
	"encoding/json"
	"fmt"
	"strings"
	"time"

	"github.com/nsqio/nsq/internal/verif/vrt"
	"github.com/nsqio/nsq/internal/verif/vx"
	"github.com/nsqio/nsq/nsqd"
)

// runBody executes a scenario body once under the default schedule.
func runBody(body func() vx.Out) vx.Out {
	var o vx.Out
	f := vrt.Run(func(*vrt.Thread, []vrt.Alt) int { return 0 }, 5000000, func() { o = body() })
	if f != "" {
		o.Viol = append(o.Viol, vx.Found{Sig: vx.FailSig(f), Detail: f})
		o.Obs = "FAIL " + vx.FailSig(f)
	}
	return o
}

type caseJob struct {
	Kind string          `json:"kind"`
	Spec json.RawMessage `json:"spec"`
}

type caseRes struct {
	Outs []vx.Out `json:"outs"`
}

func runCase(kind string, spec json.RawMessage) vx.Out {
	switch kind {
	case "delay":
		var s nsqd.DelaySpec
		json.Unmarshal(spec, &s)
		return runBody(func() vx.Out { return nsqd.RunDelay(s) })
	case "timing":
		var s nsqd.TimingSpec
		json.Unmarshal(spec, &s)
		return runBody(func() vx.Out { return nsqd.RunTiming(s) })
	case "churn":
		var s nsqd.ChurnSpec
		json.Unmarshal(spec, &s)
		return runBody(func() vx.Out { return nsqd.RunScanChurn(s) })
	case "msgto":
		var v int
		json.Unmarshal(spec, &v)
		return runBody(func() vx.Out { return nsqd.RunMsgTimeoutNegotiation(v) })
	}
	return runCaseMore(kind, spec)
}

func init() {
	vx.Register("heap", func(arg json.RawMessage) (interface{}, error) {
		var a struct {
			Which string
			Depth int
		}
		json.Unmarshal(arg, &a)
		return nsqd.HeapBFS(a.Which, a.Depth), nil
	})
	// "cases": a batch of independent single-execution cases
	vx.Register("cases", func(arg json.RawMessage) (interface{}, error) {
		var js []caseJob
		if err := json.Unmarshal(arg, &js); err != nil {
			return nil, err
		}
		var r caseRes
		for _, j := range js {
			o := runCase(j.Kind, j.Spec)
			for i := range o.Viol {
				if o.Viol[i].Replay == nil {
					o.Viol[i].Replay = map[string]interface{}{"kind": "case:" + j.Kind, "spec": j.Spec}
				}
			}
			r.Outs = append(r.Outs, o)
		}
		return r, nil
	})
	checks["C04"] = checkC04
}

// runCases distributes single-execution cases over the pool in batches.
func runCases(rep *vx.Report, jobs []caseJob, batch int) {
	var args []interface{}
	var groups [][]caseJob
	for i := 0; i < len(jobs); i += batch {
		j := i + batch
		if j > len(jobs) {
			j = len(jobs)
		}
		groups = append(groups, jobs[i:j])
		args = append(args, jobs[i:j])
	}
	vx.Par("cases", args, func(i int, res json.RawMessage, errStr, crash string) {
		if crash != "" {
			rep.InfraError(fmt.Sprintf("worker crashed on cases %s...: %s", groups[i][0].Spec, crash))
			return
		}
		if errStr != "" {
			rep.InfraError(errStr)
			return
		}
		var r caseRes
		json.Unmarshal(res, &r)
		for k, o := range r.Outs {
			rep.Evaluations++
			rep.Outcome(groups[i][k].Kind + " " + o.Obs)
			if len(rep.Samples) < 10 && (k == 0) {
				rep.Sample(map[string]interface{}{"case": groups[i][k].Kind, "spec": groups[i][k].Spec, "outcome": o.Obs})
			}
			for _, f := range o.Viol {
				clause := strings.SplitN(f.Sig, " :: ", 2)[0]
				switch {
				case strings.HasPrefix(clause, "INFRA"):
					rep.InfraError(f.Sig + ": " + f.Detail)
				case propIn(clause, rep.Property) || strings.HasPrefix(clause, "panic") || strings.HasPrefix(clause, "deadlock") || strings.HasPrefix(clause, "hang"):
					if !strings.Contains(f.Sig, " :: ") {
						f.Sig += " :: " + groups[i][k].Kind + " " + string(groups[i][k].Spec)
					}
					rep.Violation(f)
				}
			}
		}
	})
}

func mustJSON(v interface{}) json.RawMessage {
	b, _ := json.Marshal(v)
	return b
}

func checkC04(tier string) int {
	rep := vx.NewReport("C04", tier, "model_checking")
	rep.Rule = "(1) explicit-state BFS over all operation sequences (Push/Pop/Remove/PeekAndShift) on both real priority queues against a sorted multiset, states deduplicated by slice contents; (2) E5: every delay spelling x {REQ, DPUB, HTTP defer} x max-req-timeout, judged in virtual time; (3) every ordered pair of message fates (timeout, TOUCH patterns, REQ d, DPUB d) sharing one channel, judged from exact arrival times; (3b) the set of channels changing between two refreshes of the queue-scan loop's list (a channel replaced by another / re-created / an ephemeral one leaving and another arriving / one added / its topic replaced) x work falling due on the new channel (timeout, deferred publish, REQ delay) x offset within the refresh interval x other channels present, judged against deadline + refresh interval + scan interval; (4) E3 BFS over histories with the never-early clauses; (5) E1 TOUCH vs timeout scan. distinct = distinct heap states + distinct case outcomes"
	rep.Assumptions = []string{"virtual time: lateness bound = deadline + queue-scan-interval + queue-scan-refresh-interval", "DPUB delay judged only while the message is held in memory (mem-queue-size > 0)"}
	depth := 6
	if tier == "thorough" {
		depth = 8
	}
	// (1) heaps
	for _, which := range []string{"inflight", "deferred"} {
		which := which
		vx.Par("heap", []interface{}{map[string]interface{}{"Which": which, "Depth": depth}}, func(i int, res json.RawMessage, errStr, crash string) {
			if crash != "" || errStr != "" {
				rep.InfraError("heap BFS: " + crash + errStr)
				return
			}
			var st nsqd.HeapStats
			json.Unmarshal(res, &st)
			rep.States += st.States
			rep.Transitions += st.Transitions
			rep.Traces += st.Transitions
			rep.Extra["heap_"+which] = map[string]interface{}{"states": st.States, "transitions": st.Transitions, "depth": st.Depth}
			for _, s := range st.Sample {
				rep.Sample(map[string]interface{}{"heap": which, "ops => contents": s})
			}
			for _, f := range st.Viol {
				rep.Violation(f)
			}
		})
	}
	// (2) spellings
	texts := []string{"0", "1", "999", "1000", "1001", "2147483648", "9007199254740992", "9223372036854", "9223372036855", "18446744073709", "18446744073710",
		"9223372036854775807", "9223372036854775808", "18446744073709551615", "18446744073709551616", strings.Repeat("9", 40),
		"-1", "+5", "0005", "0x10", "1e3", "5.0", "", "abc", "٥", "5a"}
	var jobs []caseJob
	for _, maxReq := range []int64{1000, 3600000} {
		for _, kind := range []string{"req", "dpub", "http"} {
			ts := append([]string{}, texts...)
			if kind == "http" {
				ts = append(ts, " 5", "5 ")
			}
			if maxReq == 3600000 {
				ts = append(ts, "3599999", "3600000", "3600001")
			}
			for _, t := range ts {
				if maxReq == 3600000 && tier != "thorough" {
					// an accepted in-range value costs up to an hour of virtual time: keep the
					// boundary and the overflow spellings only
					if v, ok := map[string]bool{"0": true, "1000": true, "3599999": true, "3600000": true, "3600001": true, "9223372036855": true, "18446744073710": true, "18446744073709551616": true}[t]; !ok || !v {
						continue
					}
				}
				jobs = append(jobs, caseJob{"delay", mustJSON(nsqd.DelaySpec{Kind: kind, Text: t, MaxReq: maxReq})})
			}
		}
	}
	// (3) fates
	fates := []string{"timeout", "touch1", "touch2", "touchcap", "touch3", "req0", "req0touch", "req200", "req700", "dpub200", "dpub700"}
	for _, f := range fates {
		jobs = append(jobs, caseJob{"timing", mustJSON(nsqd.TimingSpec{Fates: []string{f}})})
		jobs = append(jobs, caseJob{"timing", mustJSON(nsqd.TimingSpec{Fates: []string{f}, MsgTO: 1500})})
		for _, g := range fates {
			jobs = append(jobs, caseJob{"timing", mustJSON(nsqd.TimingSpec{Fates: []string{f, g}})})
			if tier == "thorough" {
				for _, k := range fates {
					jobs = append(jobs, caseJob{"timing", mustJSON(nsqd.TimingSpec{Fates: []string{f, g, k}})})
				}
			}
		}
	}
	for _, v := range []int{0, 999, 1000, 2500, 2501, -1, 1500} {
		jobs = append(jobs, caseJob{"msgto", mustJSON(v)})
	}
	// the set of channels changing between two refreshes of the scan loop's channel list
	nChurn := 0
	for _, rp := range []string{"other", "same", "ephemeral", "add", "topic"} {
		for _, pd := range []string{"timeout", "dpub", "req"} {
			for _, off := range []int{50, 250, 450} {
				for _, others := range []int{0, 1, 2} {
					jobs = append(jobs, caseJob{"churn", mustJSON(nsqd.ChurnSpec{Replace: rp, Pending: pd, Offset: off, Others: others})})
					nChurn++
				}
			}
		}
	}
	rep.Extra["scan_list_churn_cases"] = nChurn
	runCases(rep, jobs, 4)
	rep.Extra["spelling_and_timing_cases"] = len(jobs)
	// (4) histories
	sub := vx.NewReport("C04", tier, "model_checking")
	hd := 5
	if tier == "thorough" {
		hd = 7
	}
	cfg := nsqd.HistCfg{MemQ: 8, MaxMsgs: 3, Chans: 1, Cons: 2}
	st := vx.BFS("hist", cfg, hd, time.Now().Add(10*time.Minute), sub, cfg.String())
	rep.States += st.States
	rep.Transitions += st.Transitions
	rep.Traces += st.Transitions
	rep.Evaluations += st.Runs
	rep.Extra["history_bfs"] = map[string]interface{}{"config": cfg.String(), "depth": st.MaxDepth, "states": st.States, "transitions": st.Transitions}
	for _, s := range sub.Infra {
		rep.InfraError(s)
	}
	for _, f := range sub.Found {
		clause := strings.SplitN(f.Sig, " :: ", 2)[0]
		if propIn(clause, "C04") || strings.HasPrefix(clause, "panic") {
			rep.Violation(f)
		}
	}
	// (5) TOUCH vs scan
	var specs []nsqd.MicroSpec
	for _, ops := range [][]string{{"touch1", "scan"}, {"touch1", "scan", "rdy2"}, {"req1d", "scan"}, {"fin1", "scan", "rdy2"}} {
		specs = append(specs, nsqd.MicroSpec{State: "expired", MemQ: 10, Ops: ops})
		specs = append(specs, nsqd.MicroSpec{State: "inflight", MemQ: 10, Ops: ops})
	}
	runMicros(rep, specs, 30, false)
	return rep.Finish()
}
