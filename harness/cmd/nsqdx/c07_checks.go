//go:build go1.18 && verif

package main

import (
	"encoding/json"
	"fmt"

	"github.com/nsqio/nsq/internal/verif/vx"
	"github.com/nsqio/nsq/nsqd"
)

func init() { checks["C07"] = checkC07 }

func runCaseC07(kind string, spec json.RawMessage) (vx.Out, bool) {
	if kind == "segmented" {
		var s nsqd.SegmentSpec
		json.Unmarshal(spec, &s)
		return runBody(func() vx.Out { return nsqd.RunSegmented(s) }), true
	}
	if kind != "integrity" {
		return vx.Out{}, false
	}
	var s nsqd.IntegritySpec
	json.Unmarshal(spec, &s)
	return runBody(func() vx.Out { return nsqd.RunIntegrity(s) }), true
}

func checkC07(tier string) int {
	rep := vx.NewReport("C07", tier, "exploration")
	rep.Rule = "E5: product of body sets (all 256 one-byte bodies + all two-byte bodies over {LF,CR,NUL,0xFF,space,A} in one batch; protocol look-alikes; position-dependent patterns at sizes around every buffer / file / limit boundary up to max-msg-size) x publish path {PUB, DPUB, MPUB, HTTP /pub, /mpub text, /mpub binary, /pub and /mpub binary with chunked transfer encoding} x queue path {memory, disk, disk with 64-byte files, REQ 0, REQ delayed, timeout redelivery, graceful restart} x transport {plain, snappy, deflate 1/6/9, TLS, TLS+snappy, TLS+deflate} x output buffer {default, none, 64, max without timeout} (+ a second channel), each run on a real nsqd with a consumer that really negotiates the transport; plus every 4-byte length field of PUB / DPUB / MPUB arriving in two pieces (split after 1, 2, 3 bytes) with nothing, a message frame or a heartbeat sent to that connection in between; E1: a consumer's connection breaking while it is written to, then further deliveries and disk writes (no buffer shared between two users, bodies intact). distinct = distinct (case, outcome) pairs"
	rep.Assumptions = []string{"crypto/tls, snappy and flate are trusted", "max-msg-size is set to 65536 for the size sweep"}
	paths := []string{"pub", "dpub", "mpub", "hpub", "hmpub", "hmpubbin", "hpubchunk", "hmpubchunk"}
	queues := []string{"mem", "disk", "disk64", "req0", "reqd", "timeout", "restart"}
	transports := []string{"plain", "snappy", "deflate1", "deflate6", "deflate9", "tls", "tls+snappy", "tls+deflate6"}
	outbufs := []string{"default", "-1", "64", "max"}
	sizes := []int{1, 2, 15, 16, 17, 4095, 4096, 4097, 16383, 16384, 16385, 65535, 65536}
	var jobs []caseJob
	add := func(s nsqd.IntegritySpec) { jobs = append(jobs, caseJob{"integrity", mustJSON(s)}) }
	for _, p := range paths {
		for _, q := range queues {
			for _, t := range transports {
				for _, ob := range outbufs {
					two := (q == "mem" && t == "plain") || tier == "thorough"
					add(nsqd.IntegritySpec{Bodies: "small", Path: p, Queue: q, Transport: t, OutBuf: ob, TwoChan: two})
					add(nsqd.IntegritySpec{Bodies: "special", Path: p, Queue: q, Transport: t, OutBuf: ob, TwoChan: two})
				}
			}
		}
	}
	for _, n := range sizes {
		for _, p := range paths {
			for _, q := range queues {
				for _, t := range transports {
					obs := outbufs
					if tier != "thorough" {
						if !(t == "plain" || t == "tls+deflate6" || t == "snappy" || t == "deflate1") {
							continue
						}
						obs = []string{"default", "64"}
						if q == "req0" || q == "reqd" || q == "timeout" {
							if n < 4095 {
								continue
							}
							obs = []string{"default"}
						}
					}
					for _, ob := range obs {
						add(nsqd.IntegritySpec{Bodies: fmt.Sprintf("size:%d", n), Path: p, Queue: q, Transport: t, OutBuf: ob})
					}
				}
			}
		}
	}
	// a length field that arrives in two TCP segments while nsqd sends a frame (a message, a
	// heartbeat) to that connection in between
	nSeg := 0
	for _, cmd := range []string{"pub", "dpub", "mpub"} {
		fields := []int{0}
		if cmd == "mpub" {
			fields = []int{0, 1, 2, 3}
		}
		for _, f := range fields {
			for split := 1; split <= 3; split++ {
				for _, btw := range []string{"none", "message", "heartbeat"} {
					jobs = append(jobs, caseJob{"segmented", mustJSON(nsqd.SegmentSpec{Cmd: cmd, Field: f, Split: split, Between: btw})})
					nSeg++
				}
			}
		}
	}
	rep.Extra["segmented_length_field_cases"] = nSeg
	runCases(rep, jobs, 8)
	// E1: sends that fail (the consumer's connection breaks while it is being written to)
	// followed by further deliveries and disk writes - buffers must not leak between them
	var mspecs []nsqd.MicroSpec
	for _, st := range []string{"queued", "inflight"} {
		for _, mq := range []int64{10, 0} {
			for _, op := range []string{"pub", "rdy2_2", "scan"} {
				mspecs = append(mspecs, nsqd.MicroSpec{State: st, MemQ: mq, Unbuf: true, Ops: []string{"rdydisc1", op}})
			}
		}
	}
	runMicros(rep, mspecs, 8, false)
	rep.Extra["cases"] = len(jobs)
	rep.Extra["bodies_per_small_batch"] = 292
	return rep.Finish()
}
