//go:build go1.18 && verif

package main

import (
	"encoding/json"
	"fmt"
	"time"

	"github.com/nsqio/nsq/internal/verif/vrt"
	"github.com/nsqio/nsq/internal/verif/vx"
	"github.com/nsqio/nsq/nsqd"
)

type guidRaceJob struct {
	Paths []string `json:"paths"`
	Secs  int      `json:"secs"`
}

func init() {
	vx.Register("guidbfs", func(arg json.RawMessage) (interface{}, error) {
		var a struct {
			Node  int64
			Depth int
		}
		json.Unmarshal(arg, &a)
		var st nsqd.GuidStats
		f := vrt.Run(func(*vrt.Thread, []vrt.Alt) int { return 0 }, 0, func() { st = nsqd.GuidBFS(a.Node, a.Depth) })
		if f != "" {
			st.Viol = append(st.Viol, vx.Found{Sig: vx.FailSig(f) + " :: guid bfs", Detail: f})
		}
		return st, nil
	})
	vx.Register("guidrace", func(arg json.RawMessage) (interface{}, error) {
		var j guidRaceJob
		json.Unmarshal(arg, &j)
		body := func() vx.Out { return nsqd.RunGuidRace(j.Paths) }
		res := vx.DPOR(body, vx.Opt{Deadline: time.Now().Add(time.Duration(j.Secs) * time.Second)})
		kept := res.Found[:0]
		for _, f := range res.Found {
			sched, _ := f.Replay.([]int)
			if vx.Confirm(body, sched, f.Sig, 5) {
				f.Replay = map[string]interface{}{"kind": "guidrace", "spec": j.Paths, "schedule": sched}
				kept = append(kept, f)
			} else {
				res.Infra = append(res.Infra, "NONDETERMINISM: violation not reproduced 5/5: "+f.Sig)
			}
		}
		res.Found = kept
		return res, nil
	})
	checks["C12"] = checkC12
}

func checkC12(tier string) int {
	rep := vx.NewReport("C12", tier, "exploration")
	rep.Rule = "(1) BFS over all sequences of {new id, clock +0/+1 tick/+1 tick-1ns/-1 tick/-3 ticks/+2^8/+2^18/+2^28 ticks, burst of 4100 calls}, ids compared both as numbers and as the 16 hex characters they are rendered to, on the real id factory under the virtual clock, for node ids 0, 1, 1023; (2) GenerateID with a frozen / stepped-back clock must wait; (3) E1: every interleaving (DPOR) of 2-3 concurrent publishers (TCP PUB, MPUB, HTTP /pub, direct GenerateID) on one topic, also with a clock-jump transition (three id ticks pass at any point between two steps of the publishers), and starting from a topic that has just exhausted the 4096 ids of the current millisecond; (4) node-id range at start-up. distinct = factory states + distinct scenario outcomes"
	rep.Assumptions = []string{"virtual clock", "sequentially consistent memory"}
	depth := 6
	if tier == "thorough" {
		depth = 8
	}
	var args []interface{}
	nodes := []int64{0, 1, 1023}
	for _, n := range nodes {
		args = append(args, map[string]interface{}{"Node": n, "Depth": depth})
	}
	vx.Par("guidbfs", args, func(i int, res json.RawMessage, errStr, crash string) {
		if crash != "" || errStr != "" {
			rep.InfraError("guid BFS: " + crash + errStr)
			return
		}
		var st nsqd.GuidStats
		json.Unmarshal(res, &st)
		rep.States += st.States
		rep.Transitions += st.Transitions
		rep.Evaluations += st.Transitions
		rep.Extra[fmt.Sprintf("factory_node%d", nodes[i])] = map[string]interface{}{"states": st.States, "transitions": st.Transitions, "ids_checked": st.IDs, "depth": depth}
		for _, s := range st.Sample {
			rep.Sample(map[string]interface{}{"node": nodes[i], "ops => state": s})
		}
		for _, f := range st.Viol {
			rep.Violation(f)
		}
	})
	var jobs []caseJob
	for _, n := range nodes {
		jobs = append(jobs, caseJob{"genwait", mustJSON(map[string]interface{}{"node": n, "back": false})}, caseJob{"genwait", mustJSON(map[string]interface{}{"node": n, "back": true})})
	}
	jobs = append(jobs, caseJob{"nodeid", mustJSON(0)})
	runCases(rep, jobs, 1)
	// races
	sets := [][]string{{"gen", "gen"}, {"pub", "pub"}, {"pub", "hpub"}, {"hpub", "hpub"}, {"pub", "mpub"}, {"mpub", "hpub"}, {"gen", "pub"}, {"gen", "gen", "gen"}, {"pub", "hpub", "mpub"},
		// ... with the id clock jumping three ticks at any point between the publishers' steps
		{"gen1", "gen", "tick"}, {"gen", "gen", "tick"}, {"pub", "mpub", "tick"}, {"hpub", "mpub", "tick"},
		// ... and right after the topic has used up the 4096 ids of the current millisecond
		{"exhaust", "gen1", "gen1"}, {"exhaust", "gen1", "pub"}, {"exhaust", "gen1", "gen1", "tick"}}
	secs := 30
	if tier == "thorough" {
		secs = 300
		sets = append(sets, []string{"pub", "pub", "pub"}, []string{"hpub", "hpub", "mpub"}, []string{"gen", "pub", "hpub"})
	}
	args = nil
	for _, s := range sets {
		args = append(args, guidRaceJob{Paths: s, Secs: secs})
	}
	vx.Par("guidrace", args, func(i int, res json.RawMessage, errStr, crash string) {
		if crash != "" || errStr != "" {
			rep.InfraError(fmt.Sprintf("guid race %v: %s%s", sets[i], crash, errStr))
			return
		}
		var r vx.Res
		json.Unmarshal(res, &r)
		rep.Evaluations += r.Runs
		if !r.Exhaustive {
			rep.Exhaustive = false
			rep.Notes = append(rep.Notes, fmt.Sprintf("race %v: %s", sets[i], r.Capped))
		}
		for o, n := range r.Outcomes {
			rep.Outcomes[fmt.Sprintf("race %v => %s", sets[i], o)] += n
		}
		rep.Sample(map[string]interface{}{"race": sets[i], "schedules": r.Runs, "sleep_blocked": r.Blocked, "max_points": r.MaxPoints})
		for _, s := range r.Infra {
			rep.InfraError(s)
		}
		for _, f := range r.Found {
			rep.Violation(f)
		}
	})
	return rep.Finish()
}
