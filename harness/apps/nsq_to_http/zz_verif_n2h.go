//go:build go1.18 && verif

package main

// C20 (nsq_to_http part): the real PublishHandler.HandleMessage with PostPublisher /
// GetPublisher against stub HTTP endpoints that answer from a scripted status string.

import (
	"encoding/json"
	"flag"
	"fmt"
	"io"
	"net/http"
	"net/http/httptest"
	"net/url"
	"os"
	"sync"
	"time"

	"github.com/bitly/go-hostpool"
	"github.com/bitly/timer_metrics"
	"github.com/nsqio/go-nsq"
	"github.com/nsqio/nsq/internal/app"
	"github.com/nsqio/nsq/internal/http_api"
	"github.com/nsqio/nsq/internal/verif/vx"
)

type partResult struct {
	Evaluations int            `json:"evaluations"`
	Outcomes    map[string]int `json:"outcomes"`
	Found       []vx.Found     `json:"found"`
	Samples     []interface{}  `json:"samples"`
	Extra       map[string]int `json:"extra"`
}

type endpoint struct {
	srv    *httptest.Server
	mu     sync.Mutex
	script []int // status codes; 0 = drop the connection; exhausted => 200
	n      int
	got    [][]byte // bodies (POST) or decoded query payloads (GET) answered 2xx
	ok200  [][]byte
}

func newEndpoint() *endpoint {
	e := &endpoint{}
	e.srv = httptest.NewServer(http.HandlerFunc(func(w http.ResponseWriter, r *http.Request) {
		var payload []byte
		if r.Method == "POST" {
			payload, _ = io.ReadAll(r.Body)
		} else {
			v, _ := url.QueryUnescape(r.URL.RawQuery[len("d="):])
			payload = []byte(v)
		}
		e.mu.Lock()
		code := 200
		if e.n < len(e.script) {
			code = e.script[e.n]
		}
		e.n++
		if code >= 200 && code < 300 {
			e.got = append(e.got, payload)
		}
		if code == 200 {
			e.ok200 = append(e.ok200, payload)
		}
		e.mu.Unlock()
		if code == 0 {
			if hj, ok := w.(http.Hijacker); ok {
				if c, _, err := hj.Hijack(); err == nil {
					c.Close()
				}
			}
			return
		}
		w.WriteHeader(code)
	}))
	return e
}

func (e *endpoint) reset(script []int) {
	e.mu.Lock()
	e.script, e.n, e.got, e.ok200 = script, 0, nil, nil
	e.mu.Unlock()
}

func (e *endpoint) has(body []byte, only200 bool) bool {
	e.mu.Lock()
	defer e.mu.Unlock()
	l := e.got
	if only200 {
		l = e.ok200
	}
	for _, g := range l {
		if string(g) == string(body) {
			return true
		}
	}
	return false
}

func runN2H(tier string) partResult {
	res := partResult{Outcomes: map[string]int{}, Extra: map[string]int{}}
	httpclient = &http.Client{Transport: http_api.NewDeadlineTransport(30*time.Second, 60*time.Second), Timeout: 60 * time.Second}
	codes := []int{200, 201, 204, 301, 400, 404, 500, 503, 0}
	maxLen := 3
	if tier == "thorough" {
		maxLen = 4
	}
	var scripts [][]int
	var gen func(p []int)
	gen = func(p []int) {
		scripts = append(scripts, append([]int{}, p...))
		if len(p) == maxLen {
			return
		}
		for _, c := range codes {
			gen(append(append([]int{}, p...), c))
		}
	}
	gen(nil)
	eps := []*endpoint{newEndpoint(), newEndpoint()}
	defer eps[0].srv.Close()
	defer eps[1].srv.Close()
	body := []byte("payload with spaces & symbols=%/\x00\n?")
	cases := 0
	for _, method := range []string{"POST", "GET"} {
		for _, modeName := range []string{"all", "round-robin", "hostpool", "epsilon-greedy"} {
			for _, nep := range []int{1, 2} {
				var addrs app.StringArray
				for i := 0; i < nep; i++ {
					if method == "POST" {
						addrs = append(addrs, eps[i].srv.URL+"/p")
					} else {
						addrs = append(addrs, eps[i].srv.URL+"/g?d=%s")
					}
				}
				// with two endpoints: both follow the script, or one follows it while the other is
				// healthy throughout (so that the endpoints disagree)
				variants := []string{"both"}
				if nep == 2 {
					variants = []string{"both", "first-only", "second-only"}
				}
				for _, variant := range variants {
				for _, sc := range scripts {
					if variant != "both" && len(sc) == 0 {
						continue
					}
					cases++
					for i := 0; i < nep; i++ {
						if variant == "both" || (variant == "first-only" && i == 0) || (variant == "second-only" && i == 1) {
							eps[i].reset(sc)
						} else {
							eps[i].reset(nil)
						}
					}
					selected := ModeAll
					switch modeName {
					case "round-robin":
						selected = ModeRoundRobin
					case "hostpool", "epsilon-greedy":
						selected = ModeHostPool
					}
					hp := hostpool.New(addrs)
					if modeName == "epsilon-greedy" {
						hp = hostpool.NewEpsilonGreedy(addrs, 0, &hostpool.LinearEpsilonValueCalculator{})
					}
					pas := map[string]*timer_metrics.TimerMetrics{}
					for _, a := range addrs {
						pas[a] = timer_metrics.NewTimerMetrics(0, "")
					}
					var pub Publisher = &PostPublisher{}
					if method == "GET" {
						pub = &GetPublisher{}
					}
					h := &PublishHandler{Publisher: pub, addresses: addrs, mode: selected, hostPool: hp, perAddressStatus: pas, timermetrics: timer_metrics.NewTimerMetrics(0, "")}
					outcome := ""
					done := false
					for attempt := 0; attempt < 2*len(sc)+3 && !done; attempt++ {
						m := nsq.NewMessage(nsq.MessageID{'x'}, body)
						err := h.HandleMessage(m)
						res.Evaluations++
						if err != nil {
							outcome += "R"
							continue
						}
						outcome += "F"
						done = true
						// nil => the library FINs: the endpoints the mode requires must have answered
						// 2xx (exactly 200 for GET) having received the exact bytes
						need := 1
						if selected == ModeAll {
							need = nep
						}
						have := 0
						for i := 0; i < nep; i++ {
							if eps[i].has(body, method == "GET") {
								have++
							}
						}
						if have < need {
							res.Found = append(res.Found, vx.Found{Sig: fmt.Sprintf("C20 nsq_to_http finished a message the destination did not accept :: nsq_to_http %s %s", method, modeName),
								Detail: fmt.Sprintf("%s mode %s, %d endpoint(s), status script %v (%s): HandleMessage returned nil on attempt %d but only %d of the %d required endpoints answered 2xx with the exact payload", method, modeName, nep, sc, variant, attempt+1, have, need),
								Replay: map[string]interface{}{"kind": "n2h", "method": method, "mode": modeName, "endpoints": nep, "script": sc}})
						}
					}
					if !done {
						res.Found = append(res.Found, vx.Found{Sig: fmt.Sprintf("C20 nsq_to_http never delivered although the endpoint recovered :: nsq_to_http %s %s", method, modeName),
							Detail: fmt.Sprintf("%s mode %s, %d endpoint(s), status script %v: still failing after %d offers", method, modeName, nep, sc, 2*len(sc)+3)})
					}
					res.Outcomes[fmt.Sprintf("nsq_to_http %s %s eps=%d script=%d => %s", method, modeName, nep, len(sc), outcome)]++
					if len(res.Samples) < 3 && len(sc) == maxLen {
						res.Samples = append(res.Samples, map[string]interface{}{"tool": "nsq_to_http", "method": method, "mode": modeName, "endpoints": nep, "statuses": sc, "answers": outcome})
					}
				}
				}
			}
		}
	}
	res.Extra["nsq_to_http_cases"] = cases
	return res
}

func init() {
	if os.Getenv("VERIF_HARNESS") == "" {
		return
	}
	fs := flag.NewFlagSet("n2h", flag.ExitOnError)
	tier := fs.String("tier", "quick", "tier")
	fs.Bool("part", true, "")
	fs.Parse(os.Args[1:])
	b, _ := json.Marshal(runN2H(*tier))
	os.Stdout.Write(b)
	os.Exit(0)
}
