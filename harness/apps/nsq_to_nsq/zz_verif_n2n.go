//go:build go1.18 && verif

package main

// C20 (nsq_to_nsq part): the real PublishHandler.HandleMessage + responder + real
// nsq.Producers against nsqd stand-ins whose answer to each publish is scripted.

import (
	"bytes"
	"encoding/json"
	"flag"
	"fmt"
	"os"
	"strings"
	"sync"
	"time"

	"github.com/bitly/go-hostpool"
	"github.com/bitly/timer_metrics"
	"github.com/nsqio/go-nsq"
	"github.com/nsqio/nsq/internal/verif/fakensqd"
	"github.com/nsqio/nsq/internal/verif/vx"
)

type partResult struct {
	Evaluations int            `json:"evaluations"`
	Outcomes    map[string]int `json:"outcomes"`
	Found       []vx.Found     `json:"found"`
	Samples     []interface{}  `json:"samples"`
	Extra       map[string]int `json:"extra"`
}

type recDelegate struct {
	mu  *sync.Mutex
	ch  chan string
}

func (d recDelegate) OnFinish(m *nsq.Message)                                   { d.ch <- "FIN" }
func (d recDelegate) OnRequeue(m *nsq.Message, delay time.Duration, backoff bool) { d.ch <- "REQ" }
func (d recDelegate) OnTouch(m *nsq.Message)                                    {}

func runN2N(tier string) partResult {
	res := partResult{Outcomes: map[string]int{}, Extra: map[string]int{}}
	verdicts := []string{"ok", "err", "close", "closebefore"}
	maxLen := 3
	if tier == "thorough" {
		maxLen = 4
	}
	var strs [][]string
	var gen func(p []string)
	gen = func(p []string) {
		strs = append(strs, append([]string{}, p...))
		if len(p) == maxLen {
			return
		}
		for _, v := range verdicts {
			gen(append(append([]string{}, p...), v))
		}
	}
	gen(nil)
	cases := 0
	for _, modeName := range []string{"round-robin", "hostpool", "epsilon-greedy"} {
		for _, ndest := range []int{1, 2} {
			servers := []*fakensqd.Server{}
			var addrs []string
			producers := map[string]*nsq.Producer{}
			for i := 0; i < ndest; i++ {
				s := fakensqd.New()
				servers = append(servers, s)
				addrs = append(addrs, s.Addr())
				p, _ := nsq.NewProducer(s.Addr(), nsq.NewConfig())
				p.SetLogger(nil, nsq.LogLevelError)
				producers[s.Addr()] = p
			}
			selected := ModeRoundRobin
			if modeName != "round-robin" {
				selected = ModeHostPool
			}
			for _, vs := range strs {
				cases++
				hp := hostpool.New(addrs)
				if modeName == "epsilon-greedy" {
					hp = hostpool.NewEpsilonGreedy(addrs, 0, &hostpool.LinearEpsilonValueCalculator{})
				}
				pas := map[string]*timer_metrics.TimerMetrics{}
				for _, a := range addrs {
					pas[a] = timer_metrics.NewTimerMetrics(0, "")
				}
				ph := &PublishHandler{addresses: addrs, producers: producers, mode: selected, hostPool: hp,
					respChan: make(chan *nsq.ProducerTransaction, len(addrs)), perAddressStatus: pas, timermetrics: timer_metrics.NewTimerMetrics(0, "")}
				for i := 0; i < len(addrs); i++ {
					go ph.responder()
				}
				// the same verdict script on every destination (each consumes it independently)
				for _, s := range servers {
					s.Script(vs)
				}
				bodies := [][]byte{[]byte("first message"), []byte("second\nmessage\x00with bytes")}
				outcome := ""
				for bi, body := range bodies {
					delivered := false
					for attempt := 0; attempt < 2*len(vs)+3 && !delivered; attempt++ {
						ch := make(chan string, 2)
						m := nsq.NewMessage(nsq.MessageID{byte('0' + bi)}, body)
						m.Delegate = recDelegate{ch: ch}
						err := ph.HandleMessage(m, "dst")
						verdict := ""
						if err != nil {
							verdict = "REQ" // the library requeues on a handler error
						} else if !m.IsAutoResponseDisabled() {
							verdict = "FIN" // the library finishes on nil
						} else {
							select {
							case verdict = <-ch:
							case <-time.After(3 * time.Second):
								verdict = "NONE"
							}
						}
						res.Evaluations++
						accepted := false
						for _, s := range servers {
							acc, _ := s.Records()
							for _, a := range acc {
								if bytes.Equal(a, body) {
									accepted = true
								}
							}
						}
						outcome += verdict[:1]
						switch verdict {
						case "FIN":
							if !accepted {
								res.Found = append(res.Found, vx.Found{Sig: "C20 nsq_to_nsq finished a message no destination accepted :: nsq_to_nsq " + modeName,
									Detail: fmt.Sprintf("mode %s, %d destination(s), verdict script %v: message %q was finished on attempt %d but is in no destination's accepted list", modeName, ndest, vs, body, attempt+1),
									Replay: map[string]interface{}{"kind": "n2n", "mode": modeName, "dests": ndest, "verdicts": vs}})
							}
							delivered = true
						case "REQ":
							// to be offered again
						case "NONE":
							res.Found = append(res.Found, vx.Found{Sig: "C20 nsq_to_nsq neither finished nor requeued a message :: nsq_to_nsq " + modeName,
								Detail: fmt.Sprintf("mode %s, %d destination(s), verdict script %v: message %q got no answer within 3 s", modeName, ndest, vs, body),
								Replay: map[string]interface{}{"kind": "n2n", "mode": modeName, "dests": ndest, "verdicts": vs}})
							delivered = true
						}
					}
					if !delivered {
						res.Found = append(res.Found, vx.Found{Sig: "C20 nsq_to_nsq never delivered a message although the destinations recovered :: nsq_to_nsq " + modeName,
							Detail: fmt.Sprintf("mode %s, %d destination(s), verdict script %v: message %q still requeued after %d offers", modeName, ndest, vs, body, 2*len(vs)+3)})
					}
					outcome += "/"
				}
				close(ph.respChan)
				res.Outcomes[fmt.Sprintf("nsq_to_nsq %s dests=%d script=%d => %s", modeName, ndest, len(vs), outcome)]++
				if len(res.Samples) < 3 && len(vs) == maxLen {
					res.Samples = append(res.Samples, map[string]interface{}{"tool": "nsq_to_nsq", "mode": modeName, "destinations": ndest, "verdicts": vs, "answers": outcome})
				}
			}
			for _, p := range producers {
				p.Stop()
			}
			for _, s := range servers {
				s.Close()
			}
		}
	}
	// filters: a message that the filter rejects is finished without being published
	res.Extra["nsq_to_nsq_cases"] = cases
	return res
}

func init() {
	if os.Getenv("VERIF_HARNESS") == "" {
		return
	}
	fs := flag.NewFlagSet("n2n", flag.ExitOnError)
	tier := fs.String("tier", "quick", "tier")
	fs.Bool("part", true, "")
	fs.Parse(os.Args[1:])
	b, _ := json.Marshal(runN2N(*tier))
	os.Stdout.Write(b)
	_ = strings.TrimSpace
	os.Exit(0)
}
