//go:build go1.18 && verif

package main

// C20 (nsq_to_nsq part): the real PublishHandler.HandleMessage + responder + real
// nsq.Producers against nsqd stand-ins whose answer to each publish is scripted.

import (
	"bytes"
	"encoding/json"
	"flag"
	"fmt"
	"io"
	"log"
	"os"
	"reflect"
	"strconv"
	"strings"
	"sync"
	"time"

	"github.com/bitly/go-hostpool"
	"github.com/bitly/timer_metrics"
	"github.com/nsqio/go-nsq"
	"github.com/nsqio/nsq/internal/verif/fakensqd"
	"github.com/nsqio/nsq/internal/verif/vx"
)

type partResult struct {
	Evaluations int            `json:"evaluations"`
	Outcomes    map[string]int `json:"outcomes"`
	Found       []vx.Found     `json:"found"`
	Samples     []interface{}  `json:"samples"`
	Extra       map[string]int `json:"extra"`
}

type recDelegate struct {
	mu  *sync.Mutex
	ch  chan string
}

func (d recDelegate) OnFinish(m *nsq.Message)                                   { d.ch <- "FIN" }
func (d recDelegate) OnRequeue(m *nsq.Message, delay time.Duration, backoff bool) { d.ch <- "REQ" }
func (d recDelegate) OnTouch(m *nsq.Message)                                    {}

func runN2N(tier string, shard int) partResult {
	res := partResult{Outcomes: map[string]int{}, Extra: map[string]int{}}
	verdicts := []string{"ok", "err", "close", "closebefore", "down"}
	maxLen := 3
	if tier == "thorough" {
		maxLen = 4
	}
	var strs [][]string
	var gen func(p []string)
	gen = func(p []string) {
		strs = append(strs, append([]string{}, p...))
		if len(p) == maxLen {
			return
		}
		for _, v := range verdicts {
			gen(append(append([]string{}, p...), v))
		}
	}
	gen(nil)
	// (no short wall-clock oracle: an answer that exists arrives within microseconds on an idle
	// machine, but the machine may be anything but idle; only a 30 s silence counts as "none")
	noneWait, nones := 30*time.Second, 0
	if os.Getenv("N2N_DEBUG") != "" {
		strs = [][]string{{"ok", "ok", "down"}, {"ok", "err"}, {"ok"}}
	}
	cases := 0
	cfgN := -1
	for _, modeName := range []string{"round-robin", "hostpool", "epsilon-greedy"} {
		for _, ndest := range []int{1, 2} {
			cfgN++
			if shard >= 0 && cfgN != shard {
				continue
			}
			servers := []*fakensqd.Server{}
			var addrs []string
			producers := map[string]*nsq.Producer{}
			for i := 0; i < ndest; i++ {
				s := fakensqd.New()
				servers = append(servers, s)
				addrs = append(addrs, s.Addr())
				p, _ := nsq.NewProducer(s.Addr(), nsq.NewConfig())
				p.SetLogger(nil, nsq.LogLevelError)
				if os.Getenv("N2N_DEBUG") != "" {
					p.SetLogger(log.New(os.Stderr, "", log.Lmicroseconds), nsq.LogLevelDebug)
				}
				producers[s.Addr()] = p
			}
			selected := ModeRoundRobin
			if modeName != "round-robin" {
				selected = ModeHostPool
			}
			for _, vs := range strs {
				cases++
				hp := hostpool.New(addrs)
				if modeName == "epsilon-greedy" {
					hp = hostpool.NewEpsilonGreedy(addrs, 0, &hostpool.LinearEpsilonValueCalculator{})
				}
				pas := map[string]*timer_metrics.TimerMetrics{}
				for _, a := range addrs {
					pas[a] = timer_metrics.NewTimerMetrics(0, "")
				}
				ph := &PublishHandler{addresses: addrs, producers: producers, mode: selected, hostPool: hp,
					respChan: make(chan *nsq.ProducerTransaction, len(addrs)), perAddressStatus: pas, timermetrics: timer_metrics.NewTimerMetrics(0, "")}
				for i := 0; i < len(addrs); i++ {
					go ph.responder()
				}
				// the same verdict script on every destination (each consumes it independently)
				for _, s := range servers {
					s.Script(vs)
				}
				bodies := [][]byte{[]byte("first message"), []byte("second\nmessage\x00with bytes")}
				outcome := ""
				for bi, body := range bodies {
					delivered := false
					ncWaits := 0
					for attempt := 0; attempt < 2*len(vs)+3 && !delivered; attempt++ {
						ch := make(chan string, 2)
						for _, s := range servers {
							if s.Peek() == "down" {
								// the destination has just gone down: give the producer the moment
								// it needs to notice that its connection is gone
								time.Sleep(30 * time.Millisecond)
								break
							}
						}
						m := nsq.NewMessage(nsq.MessageID{byte('0' + bi)}, body)
						m.Delegate = recDelegate{ch: ch}
						err := ph.HandleMessage(m, "dst")
						if os.Getenv("N2N_DEBUG") != "" {
							fmt.Fprintf(os.Stderr, "ATTEMPT script=%v body=%d attempt=%d err=%v\n", vs, bi, attempt, err)
						}
						verdict := ""
						// what go-nsq's handlerLoop does with the handler's result: requeue on an error,
						// finish on nil - but only if the handler did not disable auto-response, in
						// which case the handler itself owes the answer
						if err != nil && !m.IsAutoResponseDisabled() {
							verdict = "REQ"
						} else if err == nil && !m.IsAutoResponseDisabled() {
							verdict = "FIN"
						} else {
							select {
							case verdict = <-ch:
							case <-time.After(noneWait):
								// (the answer comes from the in-process responder goroutine within
								// microseconds when it comes at all)
								verdict = "NONE"
								nones++
								if nones >= 1 {
									noneWait = 200 * time.Millisecond // a silence is already established (and reported): do not crawl
								}
							}
						}
						res.Evaluations++
						accepted := false
						for _, s := range servers {
							acc, _ := s.Records()
							for _, a := range acc {
								if bytes.Equal(a, body) {
									accepted = true
								}
							}
						}
						outcome += verdict[:1]
						switch verdict {
						case "FIN":
							if !accepted {
								res.Found = append(res.Found, vx.Found{Sig: "C20 nsq_to_nsq finished a message no destination accepted :: nsq_to_nsq " + modeName,
									Detail: fmt.Sprintf("mode %s, %d destination(s), verdict script %v: message %q was finished on attempt %d but is in no destination's accepted list", modeName, ndest, vs, body, attempt+1),
									Replay: map[string]interface{}{"kind": "n2n", "mode": modeName, "dests": ndest, "verdicts": vs}})
							}
							delivered = true
						case "REQ":
							// to be offered again - as nsqd does, later: go-nsq needs up to ~100 ms to
							// tear a dead connection down (Conn.cleanup polls on a 100 ms ticker) and
							// answers "not connected" until then
							if err != nil && strings.Contains(err.Error(), "not connected") {
								time.Sleep(110 * time.Millisecond)
								// (such an offer consumed no verdict: it does not count towards the
								// number of offers - up to 30 s of them, so that a loaded machine on
								// which the tear-down takes longer is not taken for a tool that gives up)
								if ncWaits < 300 {
									ncWaits++
									attempt--
								}
							}
						case "NONE":
							res.Found = append(res.Found, vx.Found{Sig: "C20 nsq_to_nsq neither finished nor requeued a message :: nsq_to_nsq " + modeName,
								Detail: fmt.Sprintf("mode %s, %d destination(s), verdict script %v: message %q got no answer (neither Finish nor Requeue, and auto-response disabled)", modeName, ndest, vs, body),
								Replay: map[string]interface{}{"kind": "n2n", "mode": modeName, "dests": ndest, "verdicts": vs}})
							delivered = true
						}
					}
					if !delivered {
						res.Found = append(res.Found, vx.Found{Sig: "C20 nsq_to_nsq never delivered a message although the destinations recovered :: nsq_to_nsq " + modeName,
							Detail: fmt.Sprintf("mode %s, %d destination(s), verdict script %v: message %q still requeued after %d offers", modeName, ndest, vs, body, 2*len(vs)+3)})
					}
					outcome += "/"
				}
				if !strings.Contains(outcome, "N") {
					close(ph.respChan) // (left open when a transaction may still be pending)
				}
				res.Outcomes[fmt.Sprintf("nsq_to_nsq %s dests=%d script=%d => %s", modeName, ndest, len(vs), outcome)]++
				if len(res.Samples) < 3 && len(vs) == maxLen {
					res.Samples = append(res.Samples, map[string]interface{}{"tool": "nsq_to_nsq", "mode": modeName, "destinations": ndest, "verdicts": vs, "answers": outcome})
				}
			}
			for _, p := range producers {
				p.Stop()
			}
			for _, s := range servers {
				s.Close()
			}
		}
	}
	// filters: a message that the filter rejects is finished without being published
	res.Extra["nsq_to_nsq_cases"] = cases
	return res
}

// runN2NFilters: --require-json-field / --require-json-value / --whitelist-json-field. Every
// configuration x every message shape through the real HandleMessage into one healthy
// destination; a message that matches the filter must arrive (whitelisted to exactly the
// requested fields), one that does not must not - and either way it is answered.
func runN2NFilters() partResult {
	res := partResult{Outcomes: map[string]int{}, Extra: map[string]int{}}
	srv := fakensqd.New()
	defer srv.Close()
	prod, _ := nsq.NewProducer(srv.Addr(), nsq.NewConfig())
	prod.SetLogger(nil, nsq.LogLevelError)
	defer prod.Stop()
	log.SetOutput(io.Discard)
	msgs := []string{`{"status":"200"}`, `{"status":200}`, `{"status":200.0}`, `{"status":"abc"}`, `{"status":"1.5"}`, `{"status":1.5}`, `{"status":100}`, `{"status":"1e2"}`, `{"status":"100"}`,
		`{"status":true}`, `{"status":null}`, `{"other":1,"x":"y"}`, `{"status":"200","x":[1,2],"y":{"z":1}}`, `{"status":200,"x":7.25}`, `not json`, `[1,2]`, `"status"`}
	cases := 0
	for _, field := range []string{"", "status"} {
		for _, value := range []string{"", "200", "abc", "1.5", "1e2"} {
			if field == "" && value != "" {
				continue
			}
			for _, wl := range [][]string{nil, {"status"}, {"status", "x"}} {
				*requireJSONField, *requireJSONValue = field, value
				whitelistJSONFields = wl
				num, numErr := strconv.ParseFloat(value, 64)
				for mi, raw := range msgs {
					cases++
					srv.Script(nil)
					ph := &PublishHandler{addresses: []string{srv.Addr()}, producers: map[string]*nsq.Producer{srv.Addr(): prod}, mode: ModeRoundRobin, hostPool: hostpool.New([]string{srv.Addr()}),
						respChan: make(chan *nsq.ProducerTransaction, 1), perAddressStatus: map[string]*timer_metrics.TimerMetrics{srv.Addr(): timer_metrics.NewTimerMetrics(0, "")}, timermetrics: timer_metrics.NewTimerMetrics(0, "")}
					go ph.responder()
					ch := make(chan string, 2)
					m := nsq.NewMessage(nsq.MessageID{byte('a' + mi)}, []byte(raw))
					m.Delegate = recDelegate{ch: ch}
					err := ph.HandleMessage(m, "dst")
					verdict := ""
					if err != nil && !m.IsAutoResponseDisabled() {
						verdict = "REQ"
					} else if err == nil && !m.IsAutoResponseDisabled() {
						verdict = "FIN"
					} else {
						select {
						case verdict = <-ch:
						case <-time.After(30 * time.Second):
							verdict = "NONE"
						}
					}
					close(ph.respChan)
					res.Evaluations++
					// ---- the reference
					filtering := field != "" || len(wl) > 0
					var js map[string]interface{}
					isObj := json.Unmarshal([]byte(raw), &js) == nil && js != nil
					pass, wantVerdict := true, "FIN"
					switch {
					case !filtering:
					case !isObj:
						pass = false
					case field != "":
						v, ok := js[field]
						switch {
						case !ok:
							pass = false
							if value != "" {
								wantVerdict = "REQ" // (the tool backs off: "missing field to check required value")
							}
						case value == "":
						default:
							if sv, isStr := v.(string); isStr {
								pass = sv == value
							} else if fv, isNum := v.(float64); isNum && numErr == nil {
								pass = fv == num
							} else {
								pass = false
							}
						}
					}
					acc, _ := srv.Records()
					desc := fmt.Sprintf("require-json-field=%q require-json-value=%q whitelist=%v message %s", field, value, wl, raw)
					sig := func(what string) string { return "C20 nsq_to_nsq filter " + what + " :: nsq_to_nsq filters" }
					if verdict != wantVerdict {
						res.Found = append(res.Found, vx.Found{Sig: sig("answered a message wrongly"), Detail: fmt.Sprintf("%s: answered %s, expected %s", desc, verdict, wantVerdict)})
					}
					if pass && len(acc) != 1 {
						res.Found = append(res.Found, vx.Found{Sig: sig("held back a message that matches"), Detail: fmt.Sprintf("%s: matches the filter, was answered %s, and %d messages reached the destination", desc, verdict, len(acc))})
					}
					if !pass && len(acc) != 0 {
						res.Found = append(res.Found, vx.Found{Sig: sig("let through a message that does not match"), Detail: fmt.Sprintf("%s: does not match, yet %q reached the destination", desc, acc[0])})
					}
					if pass && len(acc) == 1 {
						if len(wl) == 0 {
							if string(acc[0]) != raw {
								res.Found = append(res.Found, vx.Found{Sig: sig("modified a message although no whitelist was requested"), Detail: fmt.Sprintf("%s: destination received %q", desc, acc[0])})
							}
						} else {
							var got map[string]interface{}
							want := map[string]interface{}{}
							for _, k := range wl {
								if v, ok := js[k]; ok {
									want[k] = v
								}
							}
							wb, _ := json.Marshal(want)
							var wantN map[string]interface{}
							json.Unmarshal(wb, &wantN)
							if json.Unmarshal(acc[0], &got) != nil || !reflect.DeepEqual(got, wantN) {
								res.Found = append(res.Found, vx.Found{Sig: sig("did not whitelist exactly the requested fields"), Detail: fmt.Sprintf("%s: destination received %q, expected the fields %s", desc, acc[0], wb)})
							}
						}
					}
					res.Outcomes[fmt.Sprintf("nsq_to_nsq filter field=%v value=%v wl=%d => pass=%v %s", field != "", value != "", len(wl), pass, verdict)]++
				}
			}
		}
	}
	*requireJSONField, *requireJSONValue = "", ""
	whitelistJSONFields = nil
	res.Extra["nsq_to_nsq_filter_cases"] = cases
	return res
}

func init() {
	if os.Getenv("VERIF_HARNESS") == "" {
		return
	}
	fs := flag.NewFlagSet("n2n", flag.ExitOnError)
	tier := fs.String("tier", "quick", "tier")
	fs.Bool("part", true, "")
	shard := fs.Int("shard", -1, "run only configuration number N (mode x destinations)")
	fs.Parse(os.Args[1:])
	r := runN2N(*tier, *shard)
	if *shard <= 0 {
		f := runN2NFilters()
		r.Evaluations += f.Evaluations
		r.Found = append(r.Found, f.Found...)
		for k, v := range f.Outcomes {
			r.Outcomes[k] += v
		}
		for k, v := range f.Extra {
			r.Extra[k] += v
		}
	}
	b, _ := json.Marshal(r)
	os.Stdout.Write(b)
	_ = strings.TrimSpace
	os.Exit(0)
}
