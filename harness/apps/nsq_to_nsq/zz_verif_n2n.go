//go:build go1.18 && verif

package main

// C20 (nsq_to_nsq part): the real PublishHandler.HandleMessage + responder + real
// nsq.Producers against nsqd stand-ins whose answer to each publish is scripted.

import (
	"bytes"
	"encoding/json"
	"flag"
	"fmt"
	"log"
	"os"
	"strings"
	"sync"
	"time"

	"github.com/bitly/go-hostpool"
	"github.com/bitly/timer_metrics"
	"github.com/nsqio/go-nsq"
	"github.com/nsqio/nsq/internal/verif/fakensqd"
	"github.com/nsqio/nsq/internal/verif/vx"
)

type partResult struct {
	Evaluations int            `json:"evaluations"`
	Outcomes    map[string]int `json:"outcomes"`
	Found       []vx.Found     `json:"found"`
	Samples     []interface{}  `json:"samples"`
	Extra       map[string]int `json:"extra"`
}

type recDelegate struct {
	mu  *sync.Mutex
	ch  chan string
}

func (d recDelegate) OnFinish(m *nsq.Message)                                   { d.ch <- "FIN" }
func (d recDelegate) OnRequeue(m *nsq.Message, delay time.Duration, backoff bool) { d.ch <- "REQ" }
func (d recDelegate) OnTouch(m *nsq.Message)                                    {}

func runN2N(tier string, shard int) partResult {
	res := partResult{Outcomes: map[string]int{}, Extra: map[string]int{}}
	verdicts := []string{"ok", "err", "close", "closebefore", "down"}
	maxLen := 3
	if tier == "thorough" {
		maxLen = 4
	}
	var strs [][]string
	var gen func(p []string)
	gen = func(p []string) {
		strs = append(strs, append([]string{}, p...))
		if len(p) == maxLen {
			return
		}
		for _, v := range verdicts {
			gen(append(append([]string{}, p...), v))
		}
	}
	gen(nil)
	noneWait, nones := 1500*time.Millisecond, 0
	if os.Getenv("N2N_DEBUG") != "" {
		strs = [][]string{{"ok", "ok", "down"}, {"ok", "err"}, {"ok"}}
	}
	cases := 0
	cfgN := -1
	for _, modeName := range []string{"round-robin", "hostpool", "epsilon-greedy"} {
		for _, ndest := range []int{1, 2} {
			cfgN++
			if shard >= 0 && cfgN != shard {
				continue
			}
			servers := []*fakensqd.Server{}
			var addrs []string
			producers := map[string]*nsq.Producer{}
			for i := 0; i < ndest; i++ {
				s := fakensqd.New()
				servers = append(servers, s)
				addrs = append(addrs, s.Addr())
				p, _ := nsq.NewProducer(s.Addr(), nsq.NewConfig())
				p.SetLogger(nil, nsq.LogLevelError)
				if os.Getenv("N2N_DEBUG") != "" {
					p.SetLogger(log.New(os.Stderr, "", log.Lmicroseconds), nsq.LogLevelDebug)
				}
				producers[s.Addr()] = p
			}
			selected := ModeRoundRobin
			if modeName != "round-robin" {
				selected = ModeHostPool
			}
			for _, vs := range strs {
				cases++
				hp := hostpool.New(addrs)
				if modeName == "epsilon-greedy" {
					hp = hostpool.NewEpsilonGreedy(addrs, 0, &hostpool.LinearEpsilonValueCalculator{})
				}
				pas := map[string]*timer_metrics.TimerMetrics{}
				for _, a := range addrs {
					pas[a] = timer_metrics.NewTimerMetrics(0, "")
				}
				ph := &PublishHandler{addresses: addrs, producers: producers, mode: selected, hostPool: hp,
					respChan: make(chan *nsq.ProducerTransaction, len(addrs)), perAddressStatus: pas, timermetrics: timer_metrics.NewTimerMetrics(0, "")}
				for i := 0; i < len(addrs); i++ {
					go ph.responder()
				}
				// the same verdict script on every destination (each consumes it independently)
				for _, s := range servers {
					s.Script(vs)
				}
				bodies := [][]byte{[]byte("first message"), []byte("second\nmessage\x00with bytes")}
				outcome := ""
				for bi, body := range bodies {
					delivered := false
					for attempt := 0; attempt < 2*len(vs)+3 && !delivered; attempt++ {
						ch := make(chan string, 2)
						for _, s := range servers {
							if s.Peek() == "down" {
								// the destination has just gone down: give the producer the moment
								// it needs to notice that its connection is gone
								time.Sleep(30 * time.Millisecond)
								break
							}
						}
						m := nsq.NewMessage(nsq.MessageID{byte('0' + bi)}, body)
						m.Delegate = recDelegate{ch: ch}
						err := ph.HandleMessage(m, "dst")
						if os.Getenv("N2N_DEBUG") != "" {
							fmt.Fprintf(os.Stderr, "ATTEMPT script=%v body=%d attempt=%d err=%v\n", vs, bi, attempt, err)
						}
						verdict := ""
						// what go-nsq's handlerLoop does with the handler's result: requeue on an error,
						// finish on nil - but only if the handler did not disable auto-response, in
						// which case the handler itself owes the answer
						if err != nil && !m.IsAutoResponseDisabled() {
							verdict = "REQ"
						} else if err == nil && !m.IsAutoResponseDisabled() {
							verdict = "FIN"
						} else {
							select {
							case verdict = <-ch:
							case <-time.After(noneWait):
								// (the answer comes from the in-process responder goroutine within
								// microseconds when it comes at all)
								verdict = "NONE"
								nones++
								if nones >= 3 {
									noneWait = 20 * time.Millisecond // already established; do not crawl
								}
							}
						}
						res.Evaluations++
						accepted := false
						for _, s := range servers {
							acc, _ := s.Records()
							for _, a := range acc {
								if bytes.Equal(a, body) {
									accepted = true
								}
							}
						}
						outcome += verdict[:1]
						switch verdict {
						case "FIN":
							if !accepted {
								res.Found = append(res.Found, vx.Found{Sig: "C20 nsq_to_nsq finished a message no destination accepted :: nsq_to_nsq " + modeName,
									Detail: fmt.Sprintf("mode %s, %d destination(s), verdict script %v: message %q was finished on attempt %d but is in no destination's accepted list", modeName, ndest, vs, body, attempt+1),
									Replay: map[string]interface{}{"kind": "n2n", "mode": modeName, "dests": ndest, "verdicts": vs}})
							}
							delivered = true
						case "REQ":
							// to be offered again - as nsqd does, later: go-nsq needs up to ~100 ms to
							// tear a dead connection down (Conn.cleanup polls on a 100 ms ticker) and
							// answers "not connected" until then
							if err != nil && strings.Contains(err.Error(), "not connected") {
								time.Sleep(110 * time.Millisecond)
							}
						case "NONE":
							res.Found = append(res.Found, vx.Found{Sig: "C20 nsq_to_nsq neither finished nor requeued a message :: nsq_to_nsq " + modeName,
								Detail: fmt.Sprintf("mode %s, %d destination(s), verdict script %v: message %q got no answer (neither Finish nor Requeue, and auto-response disabled)", modeName, ndest, vs, body),
								Replay: map[string]interface{}{"kind": "n2n", "mode": modeName, "dests": ndest, "verdicts": vs}})
							delivered = true
						}
					}
					if !delivered {
						res.Found = append(res.Found, vx.Found{Sig: "C20 nsq_to_nsq never delivered a message although the destinations recovered :: nsq_to_nsq " + modeName,
							Detail: fmt.Sprintf("mode %s, %d destination(s), verdict script %v: message %q still requeued after %d offers", modeName, ndest, vs, body, 2*len(vs)+3)})
					}
					outcome += "/"
				}
				if !strings.Contains(outcome, "N") {
					close(ph.respChan) // (left open when a transaction may still be pending)
				}
				res.Outcomes[fmt.Sprintf("nsq_to_nsq %s dests=%d script=%d => %s", modeName, ndest, len(vs), outcome)]++
				if len(res.Samples) < 3 && len(vs) == maxLen {
					res.Samples = append(res.Samples, map[string]interface{}{"tool": "nsq_to_nsq", "mode": modeName, "destinations": ndest, "verdicts": vs, "answers": outcome})
				}
			}
			for _, p := range producers {
				p.Stop()
			}
			for _, s := range servers {
				s.Close()
			}
		}
	}
	// filters: a message that the filter rejects is finished without being published
	res.Extra["nsq_to_nsq_cases"] = cases
	return res
}

func init() {
	if os.Getenv("VERIF_HARNESS") == "" {
		return
	}
	fs := flag.NewFlagSet("n2n", flag.ExitOnError)
	tier := fs.String("tier", "quick", "tier")
	fs.Bool("part", true, "")
	shard := fs.Int("shard", -1, "run only configuration number N (mode x destinations)")
	fs.Parse(os.Args[1:])
	b, _ := json.Marshal(runN2N(*tier, *shard))
	os.Stdout.Write(b)
	_ = strings.TrimSpace
	os.Exit(0)
}
