//go:build go1.18 && verif

package main

// C19 harness, compiled into the nsq_to_file binary itself: when VERIF_HARNESS is set the
// init() below takes over before main(). The app's own FileLogger and its real router()
// run as controlled threads with virtual time; every file-system effect is logged through
// the os shim, interleaved with the FINs of a recording message delegate; afterwards
// every prefix of the log x loss variants of unsynced data is judged in memory.

import (
	"bytes"
	"compress/gzip"
	"encoding/json"
	"flag"
	"fmt"
	"io"
	stdos "os"
	"path/filepath"
	"runtime"
	"sort"
	"strings"
	"syscall"
	"time"

	"github.com/nsqio/go-nsq"
	"github.com/nsqio/nsq/internal/lg"
	"github.com/nsqio/nsq/internal/verif/vos"
	"github.com/nsqio/nsq/internal/verif/vrt"
	"github.com/nsqio/nsq/internal/verif/vx"
)

type NTFCfg struct {
	GZIP        bool  `json:"gzip"`
	RotateSize  int64 `json:"rotate_size"`
	RotateIntvl int   `json:"rotate_interval_s"`
	WorkDir     bool  `json:"workdir"` // separate work dir
	SkipEmpty   bool  `json:"skip_empty"`
	MaxInFlight int   `json:"max_in_flight"`
	Pre         string `json:"pre"` // "" | work | out | both: pre-existing files colliding with the first names
}

func (c NTFCfg) String() string {
	return fmt.Sprintf("gzip=%v rsize=%d rint=%d workdir=%v skipempty=%v mif=%d pre=%s", c.GZIP, c.RotateSize, c.RotateIntvl, c.WorkDir, c.SkipEmpty, c.MaxInFlight, c.Pre)
}

type NTFSpec struct {
	Cfg    NTFCfg   `json:"cfg"`
	Events []string `json:"events"` // msg:a | msg:long | msg:nl | tick | hup | term | hour | adv:<s>
	// FaultKind / FaultNth: the FaultNth-th file operation of this kind (write | fsync | rename
	// | open) on the tool's files fails (a write stores half of its data first)
	FaultKind string `json:"fault_kind,omitempty"`
	FaultNth  int    `json:"fault_nth,omitempty"`
}

type ntfEv struct {
	Kind string // effect | fin | idle
	Eff  vos.Effect
	Body string
	What string
}

type recDelegate struct{ tr *[]ntfEv }

func (d recDelegate) OnFinish(m *nsq.Message) { *d.tr = append(*d.tr, ntfEv{Kind: "fin", Body: string(m.Body)}) }
func (d recDelegate) OnRequeue(m *nsq.Message, delay time.Duration, backoff bool) {
	*d.tr = append(*d.tr, ntfEv{Kind: "req", Body: string(m.Body)})
}
func (d recDelegate) OnTouch(m *nsq.Message) {}

type ntfTrace struct {
	Spec    NTFSpec
	Events  []ntfEv
	Pre     map[string][]byte // pre-existing files (relative path -> content)
	Base    string
	WorkRel string
	OutRel  string
	Exited  string
	FaultHit bool
}

var lastNTF *ntfTrace

func runNTF(spec NTFSpec, base string) vx.Out {
	tr := &ntfTrace{Spec: spec, Pre: map[string][]byte{}, Base: base, WorkRel: "out", OutRel: "out"}
	lastNTF = tr
	stdos.RemoveAll(base)
	out := filepath.Join(base, "out")
	work := out
	if spec.Cfg.WorkDir {
		work = filepath.Join(base, "work")
		tr.WorkRel = "work"
	}
	stdos.MkdirAll(out, 0755)
	stdos.MkdirAll(work, 0755)
	opts := NewOptions()
	opts.OutputDir, opts.WorkDir = out, work
	opts.Topics = []string{"t"}
	opts.MaxInFlight = spec.Cfg.MaxInFlight
	opts.GZIP = spec.Cfg.GZIP
	opts.RotateSize = spec.Cfg.RotateSize
	opts.RotateInterval = time.Duration(spec.Cfg.RotateIntvl) * time.Second
	opts.SkipEmptyFiles = spec.Cfg.SkipEmpty
	opts.HostIdentifier = "h"
	opts.SyncInterval = 30 * time.Second
	logf := func(lvl lg.LogLevel, f string, args ...interface{}) {
		if lvl >= lg.FATAL {
			tr.Exited = fmt.Sprintf(f, args...)
		}
	}
	// pre-existing files under the names the logger will want first
	ff, _ := computeFilenameFormat(opts, "t")
	first := strings.Replace(ff, "<DATETIME>", strftime(opts.DatetimeFormat, time.Unix(0, vrt.Epoch0)), -1)
	names := []string{strings.Replace(first, "<REV>", "-000000", -1), strings.Replace(first, "<REV>", "-000001", -1)}
	if !strings.Contains(first, "<REV>") {
		names = []string{first}
	}
	mkPre := func(dirRel string) {
		for i, n := range names {
			content := []byte(fmt.Sprintf("PRE-EXISTING %s %d\n", dirRel, i))
			if spec.Cfg.GZIP {
				var b bytes.Buffer
				zw := gzip.NewWriter(&b)
				zw.Write(content)
				zw.Close()
				content = b.Bytes()
			}
			stdos.WriteFile(filepath.Join(base, dirRel, n), content, 0644)
			tr.Pre[filepath.Join(dirRel, n)] = content
		}
	}
	switch spec.Cfg.Pre {
	case "work":
		mkPre(tr.WorkRel)
	case "out":
		mkPre("out")
	case "both":
		mkPre(tr.WorkRel)
		if spec.Cfg.WorkDir {
			mkPre("out")
		}
	}
	vos.Hook = func(e vos.Effect) {
		if strings.HasPrefix(e.Path, base) {
			tr.Events = append(tr.Events, ntfEv{Kind: "effect", Eff: e})
		}
	}
	defer func() { vos.Hook = nil; vos.CloseLeaked() }()
	if spec.FaultKind != "" {
		seen := 0
		vos.Fault = func(e vos.Effect) error {
			if !strings.HasPrefix(e.Path, base) || !strings.HasPrefix(e.Op, spec.FaultKind) {
				return nil
			}
			seen++
			if seen == spec.FaultNth {
				tr.FaultHit = true
				return syscall.EIO
			}
			return nil
		}
		defer func() { vos.Fault = nil }()
	}
	vos.ExitHook = func(code int) {
		tr.Exited = fmt.Sprintf("os.Exit(%d): %s", code, tr.Exited)
		vrt.Fail("app exited: " + tr.Exited)
		vrt.Yield("exit") // ends the run: this thread is parked and then torn down
		runtime.Goexit()
	}
	defer func() { vos.ExitHook = nil }()
	fl, err := NewFileLogger(logf, opts, "t", nsq.NewConfig())
	if err != nil {
		return vx.Out{Obs: "NewFileLogger: " + err.Error(), Viol: []vx.Found{{Sig: "INFRA NewFileLogger", Detail: err.Error()}}}
	}
	fl.consumer.SetLogger(nil, nsq.LogLevelError)
	lastConsumer = fl.consumer
	vrt.RegisterExternal(fl.consumer.StopChan)
	vrt.GoNamed("router", fl.router)
	vrt.Quiesce()
	n := 0
	termed := false
	for _, ev := range spec.Events {
		if termed {
			break
		}
		p := strings.Split(ev, ":")
		switch p[0] {
		case "msg":
			n++
			body := fmt.Sprintf("m%02d-", n)
			switch p[1] {
			case "long":
				body += strings.Repeat("x", 36)
			case "nl":
				body += "line1\nline2"
			default:
				body += "a"
			}
			m := nsq.NewMessage(nsq.MessageID{}, []byte(body))
			m.Delegate = recDelegate{&tr.Events}
			fl.HandleMessage(m)
		case "tick":
			vrt.SleepFor(int64(31 * time.Second))
		case "hour":
			vrt.SleepFor(int64(61 * time.Minute))
		case "adv":
			var s int64
			fmt.Sscan(p[1], &s)
			vrt.SleepFor(s * int64(time.Second))
		case "hup":
			vrt.Send(fl.hupChan, true)
		case "term":
			vrt.Send(fl.termChan, true)
			vrt.Quiesce()
			// consumer.Stop() is go-nsq's own goroutines: wait (in real time) until StopChan is
			// closed so that the explored program stays deterministic
			for i := 0; i < 2000; i++ {
				select {
				case <-fl.consumer.StopChan:
					i = 99999
				default:
					time.Sleep(time.Millisecond)
				}
			}
			termed = true
		}
		vrt.Quiesce()
		tr.Events = append(tr.Events, ntfEv{Kind: "idle", What: ev})
	}
	return vx.Out{Obs: fmt.Sprintf("%d events", len(tr.Events))}
}

// lastConsumer: the go-nsq consumer of the last run. Its rdyLoop / handlerLoop goroutines are
// go-nsq's own (real) goroutines and keep the FileLogger - and its gzip writer - alive; it is
// stopped once the run is over (stopConsumer), outside the controlled execution.
var lastConsumer *nsq.Consumer

func stopConsumer() {
	if c := lastConsumer; c != nil {
		lastConsumer = nil
		c.Stop() // a second Stop is a no-op
		select {
		case <-c.StopChan:
		case <-time.After(2 * time.Second):
		}
	}
}

// ---- crash images (in memory)

type inode struct {
	synced  []byte
	pending []byte
}

func readable(content []byte, gz bool) []byte {
	if !gz {
		return content
	}
	zr, err := gzip.NewReader(bytes.NewReader(content))
	if err != nil {
		return nil
	}
	var out bytes.Buffer
	io.Copy(&out, zr) // stops at the first error; what came before is what a reader gets
	return out.Bytes()
}

func judgeNTF(tr *ntfTrace) (viol []vx.Found, images int) {
	bad := func(clause, f string, a ...interface{}) {
		for _, v := range viol {
			if strings.HasPrefix(v.Sig, clause) {
				return
			}
		}
		viol = append(viol, vx.Found{Sig: clause + " :: ntf " + tr.Spec.Cfg.String(), Detail: fmt.Sprintf("events %v%s: ", tr.Spec.Events, faultTag(tr.Spec)) + fmt.Sprintf(f, a...)})
	}
	// (a fatal exit of the tool is not a violation of this property as long as nothing that
	// was FINed is missing; it is reported as an observation in the outcome)
	rel := func(p string) string { r, _ := filepath.Rel(tr.Base, p); return r }
	dir := map[string]*inode{}
	for p, c := range tr.Pre {
		dir[p] = &inode{synced: append([]byte(nil), c...)}
	}
	fins := map[string]bool{}
	gz := tr.Spec.Cfg.GZIP
	check := func(k int, what string) {
		// loss variants: every inode with unsynced data is varied alone (others keep all)
		var inodes []*inode
		seen := map[*inode]bool{}
		for _, in := range dir {
			if !seen[in] && len(in.pending) > 0 {
				seen[in] = true
				inodes = append(inodes, in)
			}
		}
		type variant struct {
			in   *inode
			keep int // bytes of pending kept (-1 = all)
		}
		vs := []variant{{nil, -1}}
		for _, in := range inodes {
			vs = append(vs, variant{in, 0}, variant{in, len(in.pending) / 2})
		}
		for _, v := range vs {
			images++
			content := func(in *inode) []byte {
				c := append([]byte(nil), in.synced...)
				if in == v.in {
					return append(c, in.pending[:v.keep]...)
				}
				return append(c, in.pending...)
			}
			// every FINed message is present, intact, in a readable file
			var all [][]byte
			for _, in := range dir {
				all = append(all, readable(content(in), gz))
			}
			for body := range fins {
				found := false
				for _, data := range all {
					if bytes.Contains(data, []byte(body+"\n")) {
						found = true
					}
				}
				if !found {
					bad("C19 finished message not durable", "kill %s (variant: keep %d unsynced bytes of one file): message %q was FINed but is in no readable file; files: %v", what, v.keep, body, fileList(dir, content, gz))
				}
			}
			// pre-existing files are never overwritten or dropped
			for p, c := range tr.Pre {
				in := dir[p]
				if in == nil {
					// moved as a whole? it must still exist somewhere with its bytes
					ok := false
					for _, o := range dir {
						if bytes.HasPrefix(content(o), c) {
							ok = true
						}
					}
					if !ok {
						bad("C19 pre-existing file dropped", "kill %s: %s is gone", what, p)
					}
					continue
				}
				got := content(in)
				if gz {
					if !bytes.HasPrefix(got, c) {
						bad("C19 pre-existing file overwritten", "kill %s: %s no longer starts with its original bytes", what, p)
					}
				} else if !bytes.HasPrefix(got, c) {
					bad("C19 pre-existing file overwritten", "kill %s: %s no longer starts with its original bytes (now %q)", what, p, got)
				}
			}
		}
	}
	for k, ev := range tr.Events {
		check(k, fmt.Sprintf("before event %d (%s %s %s)", k, ev.Kind, ev.Eff.Op, filepath.Base(ev.Eff.Path)))
		switch ev.Kind {
		case "fin":
			fins[ev.Body] = true
		case "idle":
			// after a clean HUP / TERM nothing is left only in the work dir
			if (ev.What == "hup" || ev.What == "term") && tr.Spec.Cfg.WorkDir {
				for p := range dir {
					if strings.HasPrefix(p, "work/") {
						if _, pre := tr.Pre[p]; !pre {
							bad("C19 file left in the work dir after a clean stop", "after %s: %s", ev.What, p)
						}
					}
				}
			}
		case "effect":
			e := ev.Eff
			p := rel(e.Path)
			switch {
			case strings.HasPrefix(e.Op, "open("):
				var fl int
				fmt.Sscanf(e.Op, "open(%v)", &fl)
				if dir[p] == nil {
					if fl&stdos.O_CREATE != 0 {
						dir[p] = &inode{}
					}
				} else if fl&stdos.O_EXCL != 0 {
					// fails: nothing changes
				} else if fl&stdos.O_TRUNC != 0 {
					dir[p].synced, dir[p].pending = nil, nil
				}
			case e.Op == "write":
				if in := dir[p]; in != nil {
					data := e.Data
					// a write that is not in append mode lands at the file position: it
					// overwrites what is there (taken as effective at once) and extends
					if size := int64(len(in.synced) + len(in.pending)); e.Off >= 0 && e.Off < size {
						for i := 0; i < len(data) && e.Off+int64(i) < size; i++ {
							pos := int(e.Off) + i
							if pos < len(in.synced) {
								in.synced = append([]byte(nil), in.synced...)
								in.synced[pos] = data[i]
							} else {
								in.pending[pos-len(in.synced)] = data[i]
							}
						}
						if over := size - e.Off; over < int64(len(data)) {
							data = data[over:]
						} else {
							data = nil
						}
					}
					in.pending = append(in.pending, data...)
				}
			case e.Op == "fsync":
				if in := dir[p]; in != nil {
					in.synced = append(in.synced, in.pending...)
					in.pending = nil
				}
			case e.Op == "link":
				to := rel(e.To)
				if dir[to] == nil && dir[p] != nil {
					dir[to] = dir[p]
				}
			case e.Op == "rename":
				to := rel(e.To)
				if dir[p] != nil {
					dir[to] = dir[p]
					delete(dir, p)
				}
			case e.Op == "remove":
				delete(dir, p)
			case e.Op == "truncate":
				if in := dir[p]; in != nil {
					all := append(append([]byte(nil), in.synced...), in.pending...)
					if int(e.Off) < len(all) {
						all = all[:e.Off]
					}
					in.synced, in.pending = all, nil
				}
			}
		}
	}
	check(len(tr.Events), "at the end")
	// every message handed over ends up FINed once the stream is idle after a sync point
	return viol, images
}

func fileList(dir map[string]*inode, content func(*inode) []byte, gz bool) []string {
	var out []string
	for p, in := range dir {
		out = append(out, fmt.Sprintf("%s=%q", p, readable(content(in), gz)))
	}
	sort.Strings(out)
	return out
}

// ---------------------------------------------------------------- harness entry

type ntfRes struct {
	Outs   []vx.Out `json:"outs"`
	Images int      `json:"images"`
	Hits   int      `json:"hits"` // runs in which the injected fault was reached
}

func init() {
	if stdos.Getenv("VERIF_HARNESS") == "" {
		return
	}
	base := stdos.Getenv("VERIF_SCRATCH")
	if base == "" {
		base = "/dev/shm/verif-adhoc"
	}
	base = fmt.Sprintf("%s/ntf%d", base, stdos.Getpid())
	vx.Register("ntf", func(arg json.RawMessage) (interface{}, error) {
		var specs []NTFSpec
		json.Unmarshal(arg, &specs)
		var r ntfRes
		for _, s := range specs {
			var o vx.Out
			f := vrt.Run(func(*vrt.Thread, []vrt.Alt) int { return 0 }, 3000000, func() { o = runNTF(s, base) })
			if f != "" && !strings.HasPrefix(f, "app exited") {
				o.Viol = append(o.Viol, vx.Found{Sig: vx.FailSig(f) + " :: ntf " + s.Cfg.String(), Detail: fmt.Sprintf("events %v: %s", s.Events, f)})
			}
			stopConsumer()
			if s.FaultKind != "" && !lastNTF.FaultHit {
				// the history has fewer operations of that kind: same run as without a fault
				r.Outs = append(r.Outs, vx.Out{Obs: "fault not reached"})
				continue
			}
			if lastNTF.FaultHit {
				r.Hits++
			}
			v, n := judgeNTF(lastNTF)
			r.Images += n
			o.Viol = append(o.Viol, v...)
			for i := range o.Viol {
				o.Viol[i].Replay = map[string]interface{}{"kind": "ntf", "spec": s}
			}
			o.Obs = fmt.Sprintf("%s fins=%d", o.Obs, countFins(lastNTF))
			if lastNTF.Exited != "" {
				o.Obs += " EXITED: " + lastNTF.Exited[strings.LastIndex(lastNTF.Exited, ":")+1:]
			}
			r.Outs = append(r.Outs, o)
		}
		stdos.RemoveAll(base)
		return r, nil
	})
	if vx.IsWorker() {
		vx.WorkerMain()
		stdos.Exit(0)
	}
	fs := flag.NewFlagSet("ntfx", flag.ExitOnError)
	prop := fs.String("prop", "C19", "property")
	tier := fs.String("tier", "quick", "tier")
	replay := fs.String("replay", "", "replay file")
	fs.Parse(stdos.Args[1:])
	_ = prop
	if *replay != "" {
		b, _ := stdos.ReadFile(*replay)
		var r struct {
			Sig    string `json:"sig"`
			Replay struct {
				Spec NTFSpec `json:"spec"`
			} `json:"replay"`
		}
		json.Unmarshal(b, &r)
		vrt.Run(func(*vrt.Thread, []vrt.Alt) int { return 0 }, 3000000, func() { runNTF(r.Replay.Spec, base) })
		v, _ := judgeNTF(lastNTF)
		for _, x := range v {
			fmt.Println("violation:", x.Sig, "\n ", x.Detail)
			if x.Sig == r.Sig {
				fmt.Printf("VIOLATION property=C19 replay=%s\n", *replay)
				stdos.Exit(1)
			}
		}
		fmt.Println("not reproduced")
		stdos.Exit(0)
	}
	stdos.Exit(checkC19(*tier))
}

func faultTag(s NTFSpec) string {
	if s.FaultKind == "" {
		return ""
	}
	return fmt.Sprintf(" %s#%d fails", s.FaultKind, s.FaultNth)
}

func countFins(tr *ntfTrace) int {
	n := 0
	for _, e := range tr.Events {
		if e.Kind == "fin" {
			n++
		}
	}
	return n
}

func checkC19(tier string) int {
	rep := vx.NewReport("C19", tier, "fault_enumeration")
	rep.Rule = "E4: every sequence of <= N events (message of three shapes, sync-interval tick, SIGHUP, SIGTERM, an hour passing, the rotate interval passing) x configurations (gzip x rotate-size x rotate-interval x work-dir x skip-empty-files x max-in-flight x pre-existing colliding files), and the same with every single write / fsync / rename / open of the tool failing in turn (EIO, a write stores half), run through nsq_to_file's own FileLogger and router() under the controlled runtime; the file-effect log interleaved with FINs is then cut at every prefix x loss variants of unsynced data (all / none / half, per file) and each image judged in memory: every FINed body+newline intact in a readable (gzip: decompressible up to the first error) file, pre-existing files never overwritten or dropped, nothing left in the work dir after a clean stop. evaluations = images judged; distinct = distinct (config, events, fins) outcomes"
	rep.Assumptions = []string{"link/unlink/rename are atomic and durable", "go-nsq turns Finish() into FIN (the tool's obligation is judged at the Delegate seam)"}
	depth := 4
	if tier == "thorough" {
		depth = 5
	}
	alpha := []string{"msg:a", "msg:long", "msg:nl", "tick", "hup", "term", "hour", "adv:3700"}
	var seqsAll [][]string
	var rec func(p []string)
	rec = func(p []string) {
		if len(p) > 0 {
			seqsAll = append(seqsAll, append([]string{}, p...))
		}
		if len(p) == depth || (len(p) > 0 && p[len(p)-1] == "term") {
			return
		}
		for _, a := range alpha {
			rec(append(p, a))
		}
	}
	rec(nil)
	var cfgs []NTFCfg
	for _, gz := range []bool{false, true} {
		for _, rs := range []int64{0, 10} {
			for _, ri := range []int{0, 3600} {
				for _, wd := range []bool{false, true} {
					cfgs = append(cfgs, NTFCfg{GZIP: gz, RotateSize: rs, RotateIntvl: ri, WorkDir: wd, MaxInFlight: 2})
				}
			}
		}
	}
	cfgs = append(cfgs, NTFCfg{MaxInFlight: 1}, NTFCfg{GZIP: true, WorkDir: true, RotateSize: 10, SkipEmpty: true, MaxInFlight: 2}, NTFCfg{WorkDir: true, SkipEmpty: true, MaxInFlight: 1, RotateIntvl: 3600})
	for _, pre := range []string{"work", "out", "both"} {
		cfgs = append(cfgs, NTFCfg{GZIP: true, RotateSize: 10, WorkDir: true, MaxInFlight: 2, Pre: pre}, NTFCfg{RotateSize: 10, WorkDir: true, MaxInFlight: 2, Pre: pre}, NTFCfg{GZIP: true, MaxInFlight: 2, Pre: pre}, NTFCfg{MaxInFlight: 2, Pre: pre}, NTFCfg{RotateIntvl: 3600, MaxInFlight: 2, Pre: pre})
	}
	var specs []NTFSpec
	for ci, c := range cfgs {
		for si, s := range seqsAll {
			if tier != "thorough" && ci >= 16 && len(s) == depth {
				continue // quick: the extra configurations (options, pre-existing files) up to depth-1
			}
			_ = si
			specs = append(specs, NTFSpec{Cfg: c, Events: s})
		}
	}
	// the same histories (one event shorter) with every single file operation failing in turn
	nFault := 0
	for ci, c := range cfgs {
		if tier != "thorough" && ci >= 16 {
			break
		}
		for _, s := range seqsAll {
			if len(s) >= depth {
				continue
			}
			for _, kind := range []string{"fsync", "write", "rename", "open"} {
				for nth := 1; nth <= 3; nth++ {
					specs = append(specs, NTFSpec{Cfg: c, Events: s, FaultKind: kind, FaultNth: nth})
					nFault++
				}
			}
		}
	}
	var args []interface{}
	var groups [][]NTFSpec
	for i := 0; i < len(specs); i += 64 {
		j := i + 64
		if j > len(specs) {
			j = len(specs)
		}
		groups = append(groups, specs[i:j])
		args = append(args, specs[i:j])
	}
	images, faultHits := 0, 0
	vx.Par("ntf", args, func(i int, res json.RawMessage, errStr, crash string) {
		if crash != "" || errStr != "" {
			rep.InfraError(fmt.Sprintf("ntf batch starting at %v %v: %s%s", groups[i][0].Cfg, groups[i][0].Events, crash, errStr))
			return
		}
		var r ntfRes
		json.Unmarshal(res, &r)
		images += r.Images
		faultHits += r.Hits
		for k, o := range r.Outs {
			if o.Obs == "fault not reached" {
				continue
			}
			rep.Outcome(fmt.Sprintf("%s %v%s => %s", groups[i][k].Cfg, groups[i][k].Events, faultTag(groups[i][k]), o.Obs))
			if k == 0 && len(rep.Samples) < 8 {
				rep.Sample(map[string]interface{}{"config": groups[i][k].Cfg.String(), "events": groups[i][k].Events, "outcome": o.Obs})
			}
			for _, f := range o.Viol {
				if strings.HasPrefix(f.Sig, "INFRA") {
					rep.InfraError(f.Sig + ": " + f.Detail)
				} else {
					rep.Violation(f)
				}
			}
		}
	})
	rep.Evaluations = images
	rep.Extra["configurations"] = len(cfgs)
	rep.Extra["event_sequences_per_configuration"] = len(seqsAll)
	rep.Extra["histories"] = len(specs) - nFault
	rep.Extra["histories_with_an_injected_io_fault"] = faultHits
	rep.Extra["images_judged"] = images
	rep.Extra["max_events"] = depth
	exits := 0
	for o := range rep.Outcomes {
		if strings.Contains(o, "EXITED") {
			exits++
		}
	}
	rep.Extra["histories_in_which_the_tool_exited_fatally"] = exits
	if exits > 0 {
		rep.Notes = append(rep.Notes, "observation outside this property: with --work-dir, FileLogger.Close returns before clearing f.out when the move to the output dir succeeds, so the first message after a SIGHUP (or a skip-empty-files rotation) is written to a closed file and nsq_to_file exits with a fatal error; nothing FINed is lost")
	}
	return rep.Finish()
}
