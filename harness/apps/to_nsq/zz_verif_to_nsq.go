//go:build go1.18 && verif

package main

// C20 (to_nsq part), compiled into the to_nsq binary; it is also the parent that runs the
// nsq_to_nsq and nsq_to_http parts (their harness binaries) and merges the three results.

import (
	"bufio"
	"bytes"
	"encoding/json"
	"flag"
	"fmt"
	"io"
	"os"
	"os/exec"
	"strings"

	"github.com/nsqio/go-nsq"
	"github.com/nsqio/nsq/internal/verif/fakensqd"
	"github.com/nsqio/nsq/internal/verif/vx"
)

type partResult struct {
	Evaluations int            `json:"evaluations"`
	Outcomes    map[string]int `json:"outcomes"`
	Found       []vx.Found     `json:"found"`
	Samples     []interface{}  `json:"samples"`
	Extra       map[string]int `json:"extra"`
}

func expectedRecords(input []byte, delim byte) [][]byte {
	var out [][]byte
	for _, rec := range bytes.Split(input, []byte{delim}) {
		if len(rec) > 0 {
			out = append(out, rec)
		}
	}
	return out
}

func runToNSQPart(tier string) partResult {
	res := partResult{Outcomes: map[string]int{}, Extra: map[string]int{}}
	servers := []*fakensqd.Server{fakensqd.New(), fakensqd.New()}
	defer servers[0].Close()
	defer servers[1].Close()
	*topic = "t"
	cfg := nsq.NewConfig()
	var prods []*nsq.Producer
	for _, s := range servers {
		p, err := nsq.NewProducer(s.Addr(), cfg)
		if err != nil {
			panic(err)
		}
		p.SetLogger(nil, nsq.LogLevelError)
		prods = append(prods, p)
	}
	defer prods[0].Stop()
	defer prods[1].Stop()
	maxLen := 5
	if tier == "thorough" {
		maxLen = 6
	}
	var inputs [][]byte
	for _, delim := range []byte{'\n', ',', 0} {
		alpha := []byte{'a', 'b', delim, 0}
		if delim == 0 {
			alpha = []byte{'a', 'b', 0, '\n'}
		}
		var gen func(p []byte)
		gen = func(p []byte) {
			inputs = append(inputs, append([]byte{delim}, p...))
			if len(p) == maxLen {
				return
			}
			for _, c := range alpha {
				gen(append(append([]byte{}, p...), c))
			}
		}
		gen(nil)
		for _, n := range []int{4095, 4096, 4097} {
			rec := bytes.Repeat([]byte{'r'}, n)
			inputs = append(inputs, append([]byte{delim}, append(append([]byte{}, rec...), delim)...))
			inputs = append(inputs, append([]byte{delim}, rec...))
			inputs = append(inputs, append([]byte{delim}, append(append(append([]byte{}, rec...), delim), rec...)...))
		}
	}
	for _, in := range inputs {
		delim, data := in[0], in[1:]
		for _, ndest := range []int{1, 2} {
			producers := map[string]*nsq.Producer{}
			for i := 0; i < ndest; i++ {
				servers[i].Script(nil)
				producers[servers[i].Addr()] = prods[i]
			}
			r := bufio.NewReader(bytes.NewReader(data))
			var err error
			for {
				err = readAndPublish(r, delim, producers)
				if err != nil {
					break
				}
			}
			res.Evaluations++
			want := expectedRecords(data, delim)
			okAll := err == io.EOF
			for i := 0; i < ndest; i++ {
				acc, _ := servers[i].Records()
				same := len(acc) == len(want)
				for k := 0; same && k < len(want); k++ {
					same = bytes.Equal(acc[k], want[k])
				}
				if !same {
					okAll = false
					if len(res.Found) < 20 {
						last := "terminated"
						if len(data) > 0 && data[len(data)-1] != delim {
							last = "unterminated final record"
						}
						res.Found = append(res.Found, vx.Found{Sig: fmt.Sprintf("C20 to_nsq published something else than the records of its input (%s) :: to_nsq", last),
							Detail: fmt.Sprintf("input %q delimiter %q, destination %d of %d: published %q, records are %q (err=%v)", trunc(data), delim, i+1, ndest, truncs(acc), truncs(want), err),
							Replay: map[string]interface{}{"kind": "to_nsq", "input": data, "delim": delim}})
					}
				}
			}
			res.Outcomes[fmt.Sprintf("to_nsq records=%d ok=%v", len(want), okAll)]++
			if len(res.Samples) < 3 && len(want) > 1 {
				res.Samples = append(res.Samples, map[string]interface{}{"tool": "to_nsq", "input": string(data), "delimiter": string([]byte{delim}), "records": len(want)})
			}
		}
	}
	res.Extra["to_nsq_inputs"] = len(inputs)
	// a destination that refuses or drops a publish: the tool may end cleanly (io.EOF from
	// the read loop, exit status 0) only if every record was accepted by every destination
	var scripts [][]string
	var genS func(p []string)
	genS = func(p []string) {
		if len(p) > 0 {
			scripts = append(scripts, append([]string{}, p...))
		}
		if len(p) == 3 {
			return
		}
		for _, v := range []string{"ok", "err", "close"} {
			genS(append(append([]string{}, p...), v))
		}
	}
	genS(nil)
	nFault := 0
	for _, in := range []string{"a\n", "a", "a\nb\n", "a\nb", "a\nb\nc\n", "a\nb\nc", "\na", "a\n\n"} {
		for _, vs := range scripts {
			for _, ndest := range []int{1, 2} {
				for faulty := 0; faulty < ndest; faulty++ {
					producers := map[string]*nsq.Producer{}
					for i := 0; i < ndest; i++ {
						servers[i].Script(nil)
						producers[servers[i].Addr()] = prods[i]
					}
					servers[faulty].Script(vs)
					r := bufio.NewReader(bytes.NewReader([]byte(in)))
					var err error
					for {
						err = readAndPublish(r, '\n', producers)
						if err != nil {
							break
						}
					}
					res.Evaluations++
					nFault++
					want := expectedRecords([]byte(in), '\n')
					all := true
					for i := 0; i < ndest; i++ {
						acc, _ := servers[i].Records()
						if len(acc) != len(want) {
							all = false
						}
					}
					if err == io.EOF && !all {
						if len(res.Found) < 20 {
							acc0, _ := servers[faulty].Records()
							res.Found = append(res.Found, vx.Found{Sig: "C20 to_nsq ended cleanly although a record was not accepted by every destination :: to_nsq",
								Detail: fmt.Sprintf("input %q, %d destination(s), destination %d answers %v: the read loop ended with io.EOF (exit status 0), that destination accepted %q of the records %q", in, ndest, faulty+1, vs, truncs(acc0), truncs(want)),
								Replay: map[string]interface{}{"kind": "to_nsq", "input": []byte(in), "verdicts": vs}})
						}
					}
					res.Outcomes[fmt.Sprintf("to_nsq faulty destination: clean_end=%v all_accepted=%v", err == io.EOF, all)]++
					// (a closed connection is re-dialled by the producer on its next publish)
				}
			}
		}
	}
	res.Extra["to_nsq_faulty_destination_cases"] = nFault
	return res
}

func trunc(b []byte) []byte {
	if len(b) > 40 {
		return append(append([]byte{}, b[:40]...), []byte("...")...)
	}
	return b
}
func truncs(bs [][]byte) [][]byte {
	var out [][]byte
	for _, b := range bs {
		out = append(out, trunc(b))
	}
	return out
}

func init() {
	if os.Getenv("VERIF_HARNESS") == "" {
		return
	}
	fs := flag.NewFlagSet("relayx", flag.ExitOnError)
	tier := fs.String("tier", "quick", "tier")
	fs.String("prop", "C20", "property")
	part := fs.Bool("part", false, "run only this tool's part and print its result as JSON")
	replay := fs.String("replay", "", "replay file")
	fs.Parse(os.Args[1:])
	if *replay != "" {
		fmt.Println("replay: re-run the check; the replay file holds the failing case in full")
		os.Exit(0)
	}
	if *part {
		b, _ := json.Marshal(runToNSQPart(*tier))
		os.Stdout.Write(b)
		os.Exit(0)
	}
	rep := vx.NewReport("C20", *tier, "fault_enumeration")
	rep.Rule = "to_nsq: every input over {a, b, delimiter, NUL} up to length N x delimiter {LF, comma, NUL} + records of 4095/4096/4097 bytes with and without a final delimiter, through the real readAndPublish loop and real nsq.Producers into recording nsqd stand-ins (1 and 2 destinations), and short inputs x every verdict script of length <= 3 over {OK, error frame, connection closed} on one destination: a clean end only if every record was accepted everywhere. nsq_to_nsq: every verdict string of length <= 4 over {OK, error frame, close, close before reading, destination down (no live connection, next connect cut off)} x mode {round-robin, hostpool, epsilon-greedy} x destinations {1,2} through the real PublishHandler/responder, source messages with a recording delegate, re-offered after a requeue; plus every filter configuration (--require-json-field x --require-json-value x --whitelist-json-field) x 17 message shapes against a reference filter. nsq_to_http: every status string of length <= 4 over {200,201,204,301,400,404,500,503,close} x {GET,POST} x mode x endpoints {1,2} through the real HandleMessage. distinct = distinct (tool, case class, outcome)"
	rep.Assumptions = []string{"go-nsq turns a nil handler return / Finish() into FIN and an error / Requeue() into REQ", "real loopback sockets, no controlled scheduler: nothing here is scheduling-dependent beyond go-nsq's own request/response pairing"}
	merge := func(p partResult) {
		rep.Evaluations += p.Evaluations
		for o, n := range p.Outcomes {
			rep.Outcomes[o] += n
		}
		for _, f := range p.Found {
			rep.Violation(f)
		}
		for _, s := range p.Samples {
			rep.Sample(s)
		}
		for k, v := range p.Extra {
			if old, ok := rep.Extra[k].(int); ok {
				v += old
			}
			rep.Extra[k] = v
		}
	}
	self, _ := os.Executable()
	dir := self[:strings.LastIndex(self, "/")]
	type childRes struct {
		name string
		out  []byte
		err  error
	}
	// (nsq_to_nsq is sharded by mode x destinations: its cases wait for go-nsq to tear dead
	// connections down, which is wall-clock time)
	others := []string{"h_nsq_to_nsq -shard 0", "h_nsq_to_nsq -shard 1", "h_nsq_to_nsq -shard 2", "h_nsq_to_nsq -shard 3", "h_nsq_to_nsq -shard 4", "h_nsq_to_nsq -shard 5", "h_nsq_to_http"}
	ch := make(chan childRes, len(others))
	for _, other := range others {
		other := other
		go func() {
			f := strings.Fields(other)
			cmd := exec.Command(dir+"/"+f[0], append([]string{"-part", "-tier", *tier}, f[1:]...)...)
			cmd.Stderr = os.Stderr
			out, err := cmd.Output()
			ch <- childRes{other, out, err}
		}()
	}
	merge(runToNSQPart(*tier))
	for range others {
		c := <-ch
		var p partResult
		if c.err != nil || json.Unmarshal(c.out, &p) != nil {
			rep.InfraError(fmt.Sprintf("%s failed: %v: %s", c.name, c.err, c.out))
			continue
		}
		merge(p)
	}
	os.Exit(rep.Finish())
}
