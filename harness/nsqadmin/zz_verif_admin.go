//go:build go1.18 && verif

package nsqadmin

// C17 / C18 harness: a real nsqadmin (New + NewHTTPServer) whose requests go through the
// real router, with stub nsqd / nsqlookupd upstreams on loopback that are generated from a
// model cluster and record every request they receive. No controlled runtime is needed:
// nothing here depends on scheduling; a panic in a fetch goroutine kills the worker
// process, which the parent reports with the case that was running.

import (
	"time"
	"encoding/base64"
	"net/url"
	"encoding/json"
	"fmt"
	"io"
	"net"
	"net/http"
	"net/http/httptest"
	"os"
	"sort"
	"strings"
	"sync"

	"github.com/nsqio/nsq/internal/lg"
	"github.com/nsqio/nsq/internal/verif/vx"
)

type nopLogger struct{}

func (nopLogger) Output(int, string) error { return nil }

// ---- model cluster

type MClient struct {
	Full bool `json:"full"`
}

type MChannel struct {
	Name     string    `json:"name"`
	Depth    int64     `json:"depth"`
	InFlight int64     `json:"in_flight"`
	Deferred int64     `json:"deferred"`
	Requeue  int64     `json:"requeue"`
	Timeout  int64     `json:"timeout"`
	Msgs     int64     `json:"msgs"`
	Paused   bool      `json:"paused"`
	Clients  []MClient `json:"clients"`
}

type MTopic struct {
	Name     string     `json:"name"`
	Depth    int64      `json:"depth"`
	Msgs     int64      `json:"msgs"`
	Paused   bool       `json:"paused"`
	Channels []MChannel `json:"channels"`
}

type MNode struct {
	Host   string   `json:"host"`
	Topics []MTopic `json:"topics"`
	Health string   `json:"health"` // ok | refused | 500 | empty | null | wrongtypes | inconsistent
}

type MCluster struct {
	Direct   bool     `json:"direct"` // nsqadmin is given the nsqds directly (no lookupd)
	Lookupds []string `json:"lookupds"` // health of each lookupd
	Nodes    []MNode  `json:"nodes"`
	// Knows[li] is the ordered list of node indices registered with lookupd li (an nsqd may
	// be registered with a subset of the lookupds); nil = every lookupd knows every node
	Knows [][]int `json:"knows,omitempty"`
}

// known returns the node indices lookupd li reports, in its answer order.
func (c MCluster) known(li int) []int {
	if c.Knows != nil && li < len(c.Knows) {
		return c.Knows[li]
	}
	var all []int
	for i := range c.Nodes {
		all = append(all, i)
	}
	return all
}

// visible returns the nodes the view can know about: all of them in direct mode, otherwise
// those registered with at least one lookupd.
func (c MCluster) visible() []MNode {
	if c.Direct || c.Knows == nil {
		return c.Nodes
	}
	seen := map[int]bool{}
	for li := range c.Lookupds {
		for _, i := range c.known(li) {
			seen[i] = true
		}
	}
	var out []MNode
	for i, n := range c.Nodes {
		if seen[i] {
			out = append(out, n)
		}
	}
	return out
}

func (c MCluster) String() string {
	var ns []string
	for _, n := range c.Nodes {
		var ts []string
		for _, t := range n.Topics {
			var cs []string
			for _, ch := range t.Channels {
				cs = append(cs, ch.Name)
			}
			ts = append(ts, t.Name+"("+strings.Join(cs, ",")+")")
		}
		ns = append(ns, fmt.Sprintf("%s[%s]{%s}", n.Host, n.Health, strings.Join(ts, " ")))
	}
	k := ""
	if c.Knows != nil {
		k = fmt.Sprintf(" knows=%v", c.Knows)
	}
	return fmt.Sprintf("direct=%v lookupds=%v%s nodes=%s", c.Direct, c.Lookupds, k, strings.Join(ns, " "))
}

type reqLog struct {
	mu   sync.Mutex
	reqs []string
}

func (l *reqLog) add(s string) {
	l.mu.Lock()
	l.reqs = append(l.reqs, s)
	l.mu.Unlock()
}

func (l *reqLog) take() []string {
	l.mu.Lock()
	defer l.mu.Unlock()
	r := l.reqs
	l.reqs = nil
	sort.Strings(r)
	return r
}

type stubs struct {
	servers []*httptest.Server
	nsqd    []string // host:port per node
	lk      []string
	log     *reqLog
	mu      sync.Mutex
	cur     MCluster
}

func (s *stubs) close() {}

func (s *stubs) cluster() MCluster {
	s.mu.Lock()
	defer s.mu.Unlock()
	return s.cur
}

func portOf(addr string) int {
	_, p, _ := net.SplitHostPort(addr)
	var n int
	fmt.Sscan(p, &n)
	return n
}

// faulty answers on behalf of an unhealthy upstream. "refused" is emulated by dropping the
// connection without an answer (the stub servers are persistent so that no socket churn
// exhausts the loopback port range).
func faulty(w http.ResponseWriter, health string) bool {
	switch health {
	case "refused":
		if hj, ok := w.(http.Hijacker); ok {
			if c, _, err := hj.Hijack(); err == nil {
				c.Close()
			}
		}
		return true
	case "500":
		w.WriteHeader(500)
		io.WriteString(w, `{"message":"boom"}`)
		return true
	case "empty":
		return true
	case "null":
		io.WriteString(w, "null")
		return true
	case "wrongtypes":
		io.WriteString(w, `{"topics":"x","producers":7,"channels":{"a":1},"version":[1]}`)
		return true
	}
	return false
}

func statsJSON(n MNode, topic, channel string, inconsistent bool, withClients bool) interface{} {
	var ts []interface{}
	for _, t := range n.Topics {
		if topic != "" && t.Name != topic {
			continue
		}
		var cs []interface{}
		for _, c := range t.Channels {
			if channel != "" && c.Name != channel {
				continue
			}
			var cl []interface{}
			for i, k := range c.Clients {
				m := map[string]interface{}{"client_id": fmt.Sprintf("cl%d", i), "hostname": fmt.Sprintf("h%d", i), "remote_address": fmt.Sprintf("10.0.0.%d:5000", i+1), "version": "V2", "connect_ts": 1600000000}
				if k.Full {
					m["user_agent"], m["in_flight_count"], m["ready_count"], m["finish_count"], m["requeue_count"], m["message_count"], m["sample_rate"], m["tls"], m["deflate"] = "ua/1", 1, 2, 3, 4, 5, 6, true, true
				}
				cl = append(cl, m)
			}
			if !withClients {
				// like nsqd: include_clients=false reports client_count but no client list
				cl = []interface{}{}
			}
			d := c.Depth
			if inconsistent {
				d = -d - 1
			}
			var e2e interface{} = map[string]interface{}{"count": 0, "percentiles": nil}
			if inconsistent {
				e2e = nil // the field is simply null
			}
			cs = append(cs, map[string]interface{}{"e2e_processing_latency": e2e, "channel_name": c.Name, "depth": d, "backend_depth": 0, "in_flight_count": c.InFlight, "deferred_count": c.Deferred,
				"requeue_count": c.Requeue, "timeout_count": c.Timeout, "message_count": c.Msgs, "paused": c.Paused, "clients": cl, "client_count": len(c.Clients)})
		}
		ts = append(ts, map[string]interface{}{"e2e_processing_latency": map[string]interface{}{"count": 0, "percentiles": nil}, "topic_name": t.Name, "depth": t.Depth, "backend_depth": 0, "message_count": t.Msgs, "paused": t.Paused, "channels": cs})
	}
	out := map[string]interface{}{"health": "OK", "start_time": 1600000000, "topics": ts}
	if !inconsistent {
		out["version"] = "1.2.0"
	}
	return out
}

var theStubs *stubs

// startStubs points the (persistent, per-process) stub upstreams at cluster c.
func startStubs(c MCluster) *stubs {
	if theStubs == nil {
		theStubs = newStubs()
	}
	theStubs.mu.Lock()
	theStubs.cur = c
	theStubs.mu.Unlock()
	theStubs.log.take()
	return theStubs
}

func newStubs() *stubs {
	s := &stubs{log: &reqLog{}}
	for i := 0; i < 3; i++ {
		i := i
		var srv *httptest.Server
		srv = httptest.NewServer(http.HandlerFunc(func(w http.ResponseWriter, r *http.Request) {
			c := s.cluster()
			s.log.add(fmt.Sprintf("nsqd%d %s %s?%s", i, r.Method, r.URL.Path, r.URL.RawQuery))
			if i >= len(c.Nodes) {
				faulty(w, "refused")
				return
			}
			n := c.Nodes[i]
			if faulty(w, n.Health) {
				return
			}
			switch r.URL.Path {
			case "/info":
				json.NewEncoder(w).Encode(map[string]interface{}{"version": "1.2.0", "broadcast_address": "127.0.0.1", "hostname": n.Host, "http_port": portOf(srv.Listener.Addr().String()), "tcp_port": 30000 + i})
			case "/stats":
				q := r.URL.Query()
				json.NewEncoder(w).Encode(statsJSON(n, q.Get("topic"), q.Get("channel"), n.Health == "inconsistent", q.Get("include_clients") != "false"))
			default:
				io.WriteString(w, "{}")
			}
		}))
		s.servers = append(s.servers, srv)
		s.nsqd = append(s.nsqd, srv.Listener.Addr().String())
	}
	for li := 0; li < 2; li++ {
		li := li
		srv := httptest.NewServer(http.HandlerFunc(func(w http.ResponseWriter, r *http.Request) {
			c := s.cluster()
			s.log.add(fmt.Sprintf("lookupd%d %s %s?%s", li, r.Method, r.URL.Path, r.URL.RawQuery))
			if li >= len(c.Lookupds) {
				faulty(w, "refused")
				return
			}
			health := c.Lookupds[li]
			if faulty(w, health) {
				return
			}
			prod := func(i int, n MNode, topics bool) map[string]interface{} {
				m := map[string]interface{}{"remote_address": fmt.Sprintf("10.1.%d.%d:4000", li, i), "hostname": n.Host, "broadcast_address": "127.0.0.1", "tcp_port": 30000 + i, "http_port": portOf(s.nsqd[i]), "version": "1.2.0"}
				if topics {
					ts := []string{}
					tomb := []bool{}
					for _, t := range n.Topics {
						ts = append(ts, t.Name)
						tomb = append(tomb, false)
					}
					if health == "inconsistent" && len(tomb) > 0 {
						tomb = tomb[:len(tomb)-1]
					}
					m["topics"], m["tombstones"] = ts, tomb
				}
				return m
			}
			switch r.URL.Path {
			case "/topics":
				set := map[string]bool{}
				for _, i := range c.known(li) {
					n := c.Nodes[i]
					for _, t := range n.Topics {
						set[t.Name] = true
					}
				}
				ts := []string{}
				for t := range set {
					ts = append(ts, t)
				}
				sort.Strings(ts)
				json.NewEncoder(w).Encode(map[string]interface{}{"topics": ts})
			case "/nodes":
				ps := []interface{}{}
				for _, i := range c.known(li) {
					ps = append(ps, prod(i, c.Nodes[i], true))
				}
				json.NewEncoder(w).Encode(map[string]interface{}{"producers": ps})
			case "/lookup":
				topic := r.URL.Query().Get("topic")
				var ps []interface{}
				chans := map[string]bool{}
				for _, i := range c.known(li) {
					n := c.Nodes[i]
					for _, t := range n.Topics {
						if t.Name == topic {
							ps = append(ps, prod(i, n, false))
							for _, ch := range t.Channels {
								chans[ch.Name] = true
							}
						}
					}
				}
				if len(ps) == 0 {
					w.WriteHeader(404)
					io.WriteString(w, `{"message":"TOPIC_NOT_FOUND"}`)
					return
				}
				cs := []string{}
				for c := range chans {
					cs = append(cs, c)
				}
				sort.Strings(cs)
				json.NewEncoder(w).Encode(map[string]interface{}{"channels": cs, "producers": ps})
			case "/channels":
				json.NewEncoder(w).Encode(map[string]interface{}{"channels": []string{}})
			default:
				io.WriteString(w, "{}")
			}
		}))
		s.servers = append(s.servers, srv)
		s.lk = append(s.lk, srv.Listener.Addr().String())
	}
	return s
}

var adminCache = map[string]*httpServer{}

// newAdmin returns the (cached, per-process) nsqadmin for this upstream layout with
// default options as modified by mod.
func newAdmin(c MCluster, s *stubs, mod func(*Options)) (*httpServer, error) {
	key := fmt.Sprintf("%v/%d/%d", c.Direct, len(c.Lookupds), len(c.Nodes))
	base := NewOptions()
	base.Logger = nopLogger{}
	base.LogLevel = lg.FATAL
	base.HTTPAddress = "127.0.0.1:0"
	// (no stub upstream stalls; generous client timeouts keep a loaded machine from turning a
	// slow local round trip into a "failed upstream")
	base.HTTPClientConnectTimeout, base.HTTPClientRequestTimeout = 30*time.Second, 60*time.Second
	if c.Direct {
		base.NSQDHTTPAddresses = s.nsqd[:len(c.Nodes)]
	} else {
		base.NSQLookupdHTTPAddresses = s.lk[:len(c.Lookupds)]
	}
	if mod != nil {
		mod(base)
	}
	h := adminCache[key]
	if h == nil {
		n, err := New(base)
		if err != nil {
			return nil, err
		}
		n.httpListener.Close()
		h = NewHTTPServer(n)
		adminCache[key] = h
	}
	h.nsqadmin.swapOpts(base)
	return h, nil
}

func doReq(h http.Handler, method, path string, body string, hdr map[string]string, remote string) (int, string) {
	var rd io.Reader
	if body != "" {
		rd = strings.NewReader(body)
	}
	req := httptest.NewRequest(method, path, rd)
	for k, v := range hdr {
		req.Header.Set(k, v)
	}
	if remote != "" {
		req.RemoteAddr = remote
	}
	rec := httptest.NewRecorder()
	h.ServeHTTP(rec, req)
	return rec.Code, rec.Body.String()
}

// ---------------------------------------------------------------- C17

type ACLSpec struct {
	Route      string   `json:"route"` // e.g. "POST /api/topics"
	Body       string   `json:"body"`
	Identity   string   `json:"identity"` // "" = header absent; "<empty>" = present but empty
	AdminUsers []string `json:"admins"`
	Header     string   `json:"header"`  // configured ACL header ("" = default)
	SendAs     string   `json:"send_as"` // header name the identity is sent under ("" = the configured one)
	// LkHealth: health of the two nsqlookupd stubs (nil = both ok): the action must still be
	// carried out on every nsqd that can be determined
	LkHealth []string `json:"lk_health,omitempty"`
}

func (a ACLSpec) String() string {
	s := fmt.Sprintf("%s body=%q identity=%q admins=%v header=%q sent-as=%q", a.Route, a.Body, a.Identity, a.AdminUsers, a.Header, a.SendAs)
	if a.LkHealth != nil {
		s += fmt.Sprintf(" lookupds=%v", a.LkHealth)
	}
	return s
}

var aclCluster = MCluster{Lookupds: []string{"ok", "ok"}, Nodes: []MNode{
	{Host: "n0", Health: "ok", Topics: []MTopic{{Name: "t", Depth: 1, Msgs: 2, Channels: []MChannel{{Name: "c", Depth: 1, Msgs: 2}}}}},
	{Host: "n1", Health: "ok", Topics: []MTopic{{Name: "t", Depth: 3, Msgs: 4, Channels: []MChannel{{Name: "c", Depth: 3, Msgs: 4}}}, {Name: "u", Depth: 0, Msgs: 0}}},
}}

func RunACL(spec ACLSpec) vx.Out {
	fmt.Fprintf(os.Stderr, "CASE acl %s\n", spec)
	var viol []vx.Found
	bad := func(clause, f string, a ...interface{}) {
		viol = append(viol, vx.Found{Sig: clause + " :: acl " + spec.String(), Detail: fmt.Sprintf(f, a...)})
	}
	cluster := aclCluster
	lkFailing, lkHealthy := 0, 0
	if spec.LkHealth != nil {
		cluster.Lookupds = spec.LkHealth
	}
	for _, hl := range cluster.Lookupds {
		if hl == "ok" {
			lkHealthy++
		} else {
			lkFailing++
		}
	}
	s := startStubs(cluster)
	defer s.close()
	h, err := newAdmin(cluster, s, func(o *Options) {
		o.AdminUsers = spec.AdminUsers
		if spec.Header != "" {
			o.ACLHTTPHeader = spec.Header
		}
	})
	if err != nil {
		return vx.Out{Obs: "admin: " + err.Error(), Viol: []vx.Found{{Sig: "INFRA nsqadmin New", Detail: err.Error()}}}
	}
	parts := strings.SplitN(spec.Route, " ", 2)
	method, path := parts[0], strings.Replace(parts[1], "NODE0", s.nsqd[0], 1)
	cfgHeader := "X-Forwarded-User"
	if spec.Header != "" {
		cfgHeader = spec.Header
	}
	hdr := map[string]string{}
	reqPath := path
	if spec.Identity != "" {
		name := cfgHeader
		if spec.SendAs != "" {
			name = spec.SendAs
		}
		v := spec.Identity
		if v == "<empty>" {
			v = ""
		}
		switch name {
		case "Authorization-Basic":
			// the identity claimed as the user name of HTTP basic auth (no ACL header at all)
			hdr["Authorization"] = "Basic " + base64.StdEncoding.EncodeToString([]byte(v+":secret"))
		case "Authorization-Basic+empty":
			// ... with the ACL header present but empty
			hdr["Authorization"] = "Basic " + base64.StdEncoding.EncodeToString([]byte(v+":secret"))
			hdr[cfgHeader] = ""
		case "Cookie":
			hdr["Cookie"] = cfgHeader + "=" + v
		case "Query":
			sep := "?"
			if strings.Contains(reqPath, "?") {
				sep = "&"
			}
			reqPath += sep + url.QueryEscape(cfgHeader) + "=" + url.QueryEscape(v) + "&user=" + url.QueryEscape(v)
		default:
			hdr[name] = v
		}
	}
	s.log.take()
	code, body := doReq(h, method, reqPath, spec.Body, hdr, "")
	reqs := s.log.take()
	mutating := method == "POST" || method == "DELETE"
	isAdmin := len(spec.AdminUsers) == 0
	effective := spec.Identity
	if effective == "<empty>" {
		effective = ""
	}
	if spec.SendAs != "" && !strings.EqualFold(spec.SendAs, cfgHeader) {
		effective = "" // sent under another header name: not an identity
	}
	for _, a := range spec.AdminUsers {
		if a == effective && spec.Identity != "" {
			isAdmin = true
		}
	}
	var writes []string
	for _, r := range reqs {
		if strings.Contains(r, " POST ") {
			writes = append(writes, r)
		}
	}
	switch {
	case mutating && !isAdmin:
		if code != 403 {
			bad("C17 state-changing request without an admin identity not refused", "answered %d %s", code, strings.TrimSpace(body))
		}
		if len(reqs) != 0 {
			bad("C17 refused request reached an upstream", "upstream requests: %v", reqs)
		}
	case mutating && isAdmin && lkFailing > 0:
		// some nsqlookupd fails: the action is still carried out on every nsqd that can be
		// determined - the producers of the topic as long as one nsqlookupd answers, the
		// named node in any case
		var nsqdWrites, want []string
		for _, wr := range writes {
			if strings.HasPrefix(wr, "nsqd") {
				nsqdWrites = append(nsqdWrites, wr)
			}
		}
		for _, wr := range expectedFanout(method, path, spec.Body, s.nsqd[0]) {
			if strings.HasPrefix(wr, "nsqd") {
				want = append(want, wr)
			}
		}
		isNode := strings.HasPrefix(path, "/api/nodes")
		if lkHealthy > 0 || isNode {
			if code == 403 {
				bad("C17 admin request refused", "answered 403")
			}
			if fmt.Sprint(nsqdWrites) != fmt.Sprint(want) {
				bad("C17 admin action not carried out on every relevant upstream", "with nsqlookupds %v: answered %d, nsqd writes %v, expected %v", cluster.Lookupds, code, nsqdWrites, want)
			}
		}
	case mutating && isAdmin:
		if code == 403 {
			bad("C17 admin request refused", "answered 403")
		}
		validBody := strings.Contains(spec.Body, `"action":"pause"`) || strings.Contains(spec.Body, `"action":"unpause"`) || strings.Contains(spec.Body, `"action":"empty"`) ||
			(strings.Contains(spec.Body, `"topic":"t"`) && !strings.Contains(spec.Body, `"action"`)) || (method == "DELETE" && !strings.HasPrefix(path, "/api/nodes"))
		if validBody && code != 200 {
			bad("C17 valid admin action failed", "answered %d %s; upstream: %v", code, strings.TrimSpace(body), reqs)
		}
		if !validBody && code == 200 {
			bad("C17 invalid admin action accepted", "answered 200; upstream writes: %v", writes)
		}
		if code != 200 && len(writes) != 0 {
			bad("C17 rejected admin action reached an upstream", "answered %d; upstream writes: %v", code, writes)
		}
		if code == 200 {
			// fan-out: every lookupd for create/delete/tombstone, every producer of the topic for
			// actions and deletes
			want := expectedFanout(method, path, spec.Body, s.nsqd[0])
			if fmt.Sprint(writes) != fmt.Sprint(want) {
				bad("C17 admin action not carried out on every relevant upstream", "upstream writes %v, expected %v", writes, want)
			}
		}
	default:
		if code == 403 {
			bad("C17 read-only view refused", "answered 403")
		}
		if len(writes) != 0 {
			bad("C17 read-only request wrote to an upstream", "%v", writes)
		}
	}
	return vx.Out{Obs: fmt.Sprintf("%d admin=%v writes=%d", code, isAdmin, len(writes)), Viol: viol}
}

func expectedFanout(method, path, body, node0 string) []string {
	var out []string
	seg := strings.Split(strings.TrimPrefix(path, "/api/"), "/")
	lk := func(uri, qs string) {
		for i := 0; i < 2; i++ {
			out = append(out, fmt.Sprintf("lookupd%d POST %s?%s", i, uri, qs))
		}
	}
	producers := func(topic, uri, qs string) {
		for i, n := range aclCluster.Nodes {
			for _, t := range n.Topics {
				if t.Name == topic {
					out = append(out, fmt.Sprintf("nsqd%d POST %s?%s", i, uri, qs))
				}
			}
		}
	}
	switch {
	case method == "POST" && path == "/api/topics":
		var b struct{ Topic, Channel string }
		json.Unmarshal([]byte(body), &b)
		lk("/topic/create", "topic="+b.Topic)
		if b.Channel != "" {
			lk("/channel/create", "topic="+b.Topic+"&channel="+b.Channel)
			producers(b.Topic, "/channel/create", "topic="+b.Topic+"&channel="+b.Channel)
		}
	case method == "DELETE" && seg[0] == "topics" && len(seg) == 2:
		lk("/topic/delete", "topic="+seg[1])
		producers(seg[1], "/topic/delete", "topic="+seg[1])
	case method == "DELETE" && seg[0] == "topics" && len(seg) == 3:
		lk("/channel/delete", "topic="+seg[1]+"&channel="+seg[2])
		producers(seg[1], "/channel/delete", "topic="+seg[1]+"&channel="+seg[2])
	case method == "DELETE" && seg[0] == "nodes":
		var b struct{ Topic string }
		json.Unmarshal([]byte(body), &b)
		lk("/topic/tombstone", "topic="+b.Topic+"&node="+strings.Replace(seg[1], ":", "%3A", 1))
		if seg[1] == node0 {
			out = append(out, "nsqd0 POST /topic/delete?topic="+b.Topic)
		}
	case method == "POST" && seg[0] == "topics":
		var b struct{ Action string }
		json.Unmarshal([]byte(body), &b)
		if len(seg) == 2 {
			producers(seg[1], "/topic/"+b.Action, "topic="+seg[1])
		} else {
			producers(seg[1], "/channel/"+b.Action, "topic="+seg[1]+"&channel="+seg[2])
		}
	}
	sort.Strings(out)
	return out
}

type CIDRSpec struct {
	Method string `json:"method"`
	Remote string `json:"remote"`
	CIDR   string `json:"cidr"`
}

func RunCIDR(spec CIDRSpec) vx.Out {
	fmt.Fprintf(os.Stderr, "CASE cidr %+v\n", spec)
	var viol []vx.Found
	bad := func(clause, f string, a ...interface{}) {
		viol = append(viol, vx.Found{Sig: fmt.Sprintf("%s :: config %+v", clause, spec), Detail: fmt.Sprintf(f, a...)})
	}
	s := startStubs(aclCluster)
	defer s.close()
	h, err := newAdmin(aclCluster, s, func(o *Options) { o.AllowConfigFromCIDR = spec.CIDR })
	if err != nil {
		return vx.Out{Obs: "admin: " + err.Error(), Viol: []vx.Found{{Sig: "INFRA nsqadmin New", Detail: err.Error()}}}
	}
	body := ""
	if spec.Method == "PUT" {
		body = "debug"
	}
	code, _ := doReq(h, spec.Method, "/config/log_level", body, nil, spec.Remote)
	after := h.nsqadmin.getOpts().LogLevel
	allowed := true
	host, _, err := net.SplitHostPort(spec.Remote)
	ip := net.ParseIP(host)
	if spec.CIDR != "" {
		_, ipnet, _ := net.ParseCIDR(spec.CIDR)
		allowed = err == nil && ip != nil && ipnet.Contains(ip)
	}
	if !allowed {
		if code == 200 {
			bad("C17 /config served outside the allowed CIDR", "answered 200")
		}
		if after != lg.FATAL {
			bad("C17 /config changed an option from outside the allowed CIDR", "log level is now %v", after)
		}
	} else {
		if code != 200 {
			bad("C17 /config refused inside the allowed CIDR", "answered %d", code)
		}
		if spec.Method == "PUT" && after != lg.DEBUG {
			bad("C17 /config PUT had no effect", "log level %v", after)
		}
	}
	return vx.Out{Obs: fmt.Sprintf("%d allowed=%v", code, allowed), Viol: viol}
}

// ---------------------------------------------------------------- C18

func healthyNode(n MNode) bool { return n.Health == "ok" }

// hard failures must produce a warning (or 502 when nothing answers); null bodies decode
// as empty documents; inconsistent documents may be used or dropped
func hard(h string) bool { return h == "refused" || h == "500" || h == "empty" || h == "wrongtypes" }

func RunView(c MCluster) vx.Out {
	fmt.Fprintf(os.Stderr, "CASE view %s\n", c)
	var viol []vx.Found
	bad := func(clause, f string, a ...interface{}) {
		viol = append(viol, vx.Found{Sig: clause + " :: view " + c.String(), Detail: fmt.Sprintf(f, a...)})
	}
	s := startStubs(c)
	defer s.close()
	vis := c.visible()
	h, err := newAdmin(c, s, nil)
	if err != nil {
		return vx.Out{Obs: "admin: " + err.Error(), Viol: []vx.Found{{Sig: "INFRA nsqadmin New", Detail: err.Error()}}}
	}
	// which upstreams feed the node list
	okLk, hardLk, softLk := 0, 0, 0
	for _, l := range c.Lookupds {
		switch {
		case l == "ok":
			okLk++
		case hard(l):
			hardLk++
		default:
			softLk++
		}
	}
	anyInconsistent := false
	for _, l := range c.Lookupds {
		if l == "inconsistent" || l == "null" {
			anyInconsistent = true
		}
	}
	for _, n := range vis {
		if n.Health == "inconsistent" || n.Health == "null" {
			anyInconsistent = true
		}
	}
	get := func(path string) (int, map[string]interface{}) {
		code, body := doReq(h, "GET", path, "", nil, "")
		var m map[string]interface{}
		if code == 200 {
			if err := json.Unmarshal([]byte(body), &m); err != nil {
				bad("C18 malformed JSON view", "%s: %q", path, body)
			}
		}
		if code == 500 {
			bad("C18 view answered 500", "%s: %s", path, body)
		}
		return code, m
	}
	num := func(m map[string]interface{}, k string) int64 {
		f, _ := m[k].(float64)
		return int64(f)
	}
	warn := func(m map[string]interface{}) bool { s, _ := m["message"].(string); return s != "" }
	// sources of truth
	directoryDown := (!c.Direct && okLk+softLk == 0)
	nodesDown := 0
	for _, n := range vis {
		if hard(n.Health) {
			nodesDown++
		}
	}
	if c.Direct && nodesDown == len(vis) {
		directoryDown = true
	}
	// ---- /api/topics
	code, m := get("/api/topics")
	wantTopics := map[string]bool{}
	for _, n := range vis {
		if c.Direct && !healthyNode(n) {
			continue
		}
		for _, t := range n.Topics {
			wantTopics[t.Name] = true
		}
	}
	if directoryDown {
		if code != 502 {
			bad("C18 no upstream answers but the view is not 502", "/api/topics answered %d", code)
		}
	} else if code != 200 {
		bad("C18 view failed although an upstream answers", "/api/topics answered %d", code)
	} else if !anyInconsistent || (okLk > 0 && !c.Direct) {
		got := map[string]bool{}
		if ts, ok := m["topics"].([]interface{}); ok {
			for _, t := range ts {
				got[fmt.Sprint(t)] = true
			}
		}
		exact := !anyInconsistent
		for t := range wantTopics {
			if !got[t] && (exact || okLk > 0) {
				bad("C18 topic missing from the view", "/api/topics lists %v, upstreams report %v", keys(got), keys(wantTopics))
				break
			}
		}
		for t := range got {
			if !wantTopics[t] {
				bad("C18 view lists a topic no upstream reports", "%s", t)
			}
		}
		hardFail := hardLk
		if c.Direct {
			hardFail = nodesDown
		}
		if hardFail > 0 && !warn(m) {
			bad("C18 failing upstream without a warning", "/api/topics: %d upstream(s) failing, message empty", hardFail)
		}
		if hardFail == 0 && !anyInconsistent && warn(m) {
			bad("C18 warning although every upstream is healthy", "/api/topics: %v", m["message"])
		}
	}
	// ---- /api/nodes
	code, m = get("/api/nodes")
	if directoryDown {
		if code != 502 {
			bad("C18 no upstream answers but the view is not 502", "/api/nodes answered %d", code)
		}
	} else if code != 200 {
		bad("C18 view failed although an upstream answers", "/api/nodes answered %d", code)
	} else if !anyInconsistent {
		want := 0
		for _, n := range vis {
			if !c.Direct || healthyNode(n) {
				want++
			}
		}
		ns, _ := m["nodes"].([]interface{})
		if len(ns) != want {
			bad("C18 node list incomplete or duplicated", "/api/nodes lists %d nodes, expected %d", len(ns), want)
		}
	}
	// ---- per topic / channel sums
	if !directoryDown {
		topics := keys(wantTopics)
		for _, t := range topics {
			var depth, msgs int64
			healthyHolders, failingHolders := 0, 0
			chanSum := map[string]*MChannel{}
			for _, n := range vis {
				for _, mt := range n.Topics {
					if mt.Name != t {
						continue
					}
					if !healthyNode(n) {
						if hard(n.Health) {
							failingHolders++
						}
						continue
					}
					healthyHolders++
					depth += mt.Depth
					msgs += mt.Msgs
					for _, ch := range mt.Channels {
						a := chanSum[ch.Name]
						if a == nil {
							a = &MChannel{Name: ch.Name}
							chanSum[ch.Name] = a
						}
						a.Depth += ch.Depth
						a.InFlight += ch.InFlight
						a.Deferred += ch.Deferred
						a.Requeue += ch.Requeue
						a.Timeout += ch.Timeout
						a.Msgs += ch.Msgs
						a.Clients = append(a.Clients, ch.Clients...)
					}
				}
			}
			code, m := get("/api/topics/" + url.PathEscape(t))
			if healthyHolders == 0 && failingHolders > 0 && !anyInconsistent {
				if code != 502 {
					bad("C18 no producer of the topic answers but the view is not 502", "/api/topics/%s answered %d", t, code)
				}
				continue
			}
			if code != 200 {
				if !anyInconsistent {
					bad("C18 view failed although an upstream answers", "/api/topics/%s answered %d", t, code)
				}
				continue
			}
			if anyInconsistent {
				continue
			}
			if num(m, "depth") != depth || num(m, "message_count") != msgs {
				bad("C18 aggregated topic numbers are not the sum over nodes", "/api/topics/%s: depth %d message_count %d, sum over healthy nodes: %d / %d", t, num(m, "depth"), num(m, "message_count"), depth, msgs)
			}
			if ns, _ := m["nodes"].([]interface{}); len(ns) != healthyHolders {
				bad("C18 per-node list of the topic incomplete", "/api/topics/%s lists %d nodes, %d healthy nodes have it", t, len(ns), healthyHolders)
			}
			gotCh := map[string]bool{}
			if cs, ok := m["channels"].([]interface{}); ok {
				for _, x := range cs {
					cm, _ := x.(map[string]interface{})
					name := fmt.Sprint(cm["channel_name"])
					gotCh[name] = true
					w := chanSum[name]
					if w == nil {
						bad("C18 view lists a channel no upstream reports", "/api/topics/%s: %s", t, name)
						continue
					}
					if num(cm, "depth") != w.Depth || num(cm, "in_flight_count") != w.InFlight || num(cm, "deferred_count") != w.Deferred || num(cm, "requeue_count") != w.Requeue || num(cm, "timeout_count") != w.Timeout || num(cm, "message_count") != w.Msgs {
						bad("C18 aggregated channel numbers are not the sum over nodes", "/api/topics/%s channel %s: got depth %d in_flight %d deferred %d requeue %d timeout %d msgs %d, sums %+v", t, name, num(cm, "depth"), num(cm, "in_flight_count"), num(cm, "deferred_count"), num(cm, "requeue_count"), num(cm, "timeout_count"), num(cm, "message_count"), *w)
					}
					if num(cm, "client_count") != int64(len(w.Clients)) {
						bad("C18 aggregated channel numbers are not the sum over nodes", "/api/topics/%s channel %s: client_count %d, the nodes report %d consumers in total", t, name, num(cm, "client_count"), len(w.Clients))
					}
				}
			}
			for name := range chanSum {
				if !gotCh[name] {
					bad("C18 channel missing from the topic view", "/api/topics/%s: %s", t, name)
				}
			}
			if failingHolders > 0 && !warn(m) {
				bad("C18 failing upstream without a warning", "/api/topics/%s: %d producer(s) failing, message empty", t, failingHolders)
			}
			for name, w := range chanSum {
				code, cm := get("/api/topics/" + url.PathEscape(t) + "/" + url.PathEscape(name))
				if code != 200 {
					bad("C18 view failed although an upstream answers", "/api/topics/%s/%s answered %d", t, name, code)
					continue
				}
				if num(cm, "depth") != w.Depth || num(cm, "message_count") != w.Msgs || num(cm, "in_flight_count") != w.InFlight {
					bad("C18 aggregated channel numbers are not the sum over nodes", "/api/topics/%s/%s: depth %d msgs %d in_flight %d; sums %d %d %d", t, name, num(cm, "depth"), num(cm, "message_count"), num(cm, "in_flight_count"), w.Depth, w.Msgs, w.InFlight)
				}
				if cl, _ := cm["clients"].([]interface{}); len(cl) != len(w.Clients) {
					bad("C18 client list is not the union over nodes", "/api/topics/%s/%s lists %d clients, nodes report %d", t, name, len(cl), len(w.Clients))
				}
				if num(cm, "client_count") != int64(len(w.Clients)) {
					bad("C18 aggregated channel numbers are not the sum over nodes", "/api/topics/%s/%s: client_count %d, the nodes report %d consumers in total", t, name, num(cm, "client_count"), len(w.Clients))
				}
			}
		}
		// ---- /api/counter
		code, m = get("/api/counter")
		healthyVis := 0
		for _, n := range vis {
			if healthyNode(n) {
				healthyVis++
			}
		}
		if !anyInconsistent && healthyVis > 0 && code != 200 {
			// some nsqd answers: the view is built from the rest (whatever it contains)
			bad("C18 view failed although an upstream answers", "/api/counter answered %d with %d of %d nsqd healthy", code, healthyVis, len(vis))
		}
		if code == 200 && !anyInconsistent {
			var want int64
			for _, n := range vis {
				if !healthyNode(n) {
					continue
				}
				for _, t := range n.Topics {
					for _, ch := range t.Channels {
						want += ch.Msgs
					}
				}
			}
			var got int64
			if st, ok := m["stats"].(map[string]interface{}); ok {
				for _, v := range st {
					vm, _ := v.(map[string]interface{})
					got += num(vm, "message_count")
				}
			}
			if got != want {
				bad("C18 counter view is not the sum over channels and nodes", "/api/counter sums to %d, healthy nodes report %d", got, want)
			}
			if nodesDown > 0 && healthyVis > 0 && !warn(m) {
				bad("C18 failing upstream without a warning", "/api/counter: %d nsqd failing, message empty", nodesDown)
			}
		}
	}
	tc, _ := doReq(h, "GET", "/api/topics", "", nil, "")
	nc, _ := doReq(h, "GET", "/api/nodes", "", nil, "")
	return vx.Out{Obs: fmt.Sprintf("topics=%d nodes=%d down=%d/%d ok=%v", tc, nc, hardLk, nodesDown, len(viol) == 0), Viol: viol}
}

func keys(m map[string]bool) []string {
	var s []string
	for k := range m {
		s = append(s, k)
	}
	sort.Strings(s)
	return s
}
