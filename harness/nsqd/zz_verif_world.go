//go:build go1.18 && verif

package nsqd

// World: a real *NSQD whose goroutines are vrt threads, with in-memory client connections
// (real tcpServer.Handle -> protocolV2.IOLoop/messagePump) and synchronous HTTP requests
// through the real httpServer. Harness code only reads unexported state; every mutation
// goes through the package's own functions.

import (
	"bytes"
	"encoding/binary"
	"encoding/json"
	"fmt"
	"io"
	"net/http"
	"net/http/httptest"
	stdos "os"
	"sort"
	"strings"
	"time"

	"github.com/nsqio/nsq/internal/lg"
	"github.com/nsqio/nsq/internal/verif/vos"
	"github.com/nsqio/nsq/internal/verif/vrt"
)

type nopLogger struct{}

func (nopLogger) Output(int, string) error { return nil }

type stderrLogger struct{}

func (stderrLogger) Output(_ int, s string) error {
	fmt.Fprintf(stdos.Stderr, "[+%dms] %s\n", (vrt.Now()-vrt.Epoch0)/1e6, s)
	return nil
}

// WOpts are the knobs scenarios turn.
type WOpts struct {
	MemQ            int64
	MaxBytesPerFile int64
	MsgTimeout      time.Duration
	MaxMsgTimeout   time.Duration
	MaxReqTimeout   time.Duration
	ScanInterval    time.Duration
	RefreshInterval time.Duration
	NoLoops         bool // do not start queueScanLoop / lookupLoop
	Verbose         bool
	Mod             func(*Options)
}

type World struct {
	N     *NSQD
	Dir   string
	HTTP  *httpServer
	Conns []*WConn
	Opts  *Options
	exited bool
}

var worldSeq int

// VerifBase is the directory under which every execution gets a fresh data dir.
var VerifBase = "/dev/shm"

// FreshDir returns a new empty directory and removes the previous one.
func FreshDir() string {
	worldSeq++
	stdos.RemoveAll(fmt.Sprintf("%s/w%d", VerifBase, worldSeq-1))
	d := fmt.Sprintf("%s/w%d", VerifBase, worldSeq)
	stdos.RemoveAll(d)
	stdos.MkdirAll(d, 0755)
	return d
}

func mkOpts(dir string, o WOpts) *Options {
	opts := NewOptions()
	opts.Logger = nopLogger{}
	opts.LogLevel = lg.FATAL
	if o.Verbose {
		opts.Logger = stderrLogger{}
		opts.LogLevel = lg.DEBUG
	}
	opts.TCPAddress = "127.0.0.1:0"
	opts.HTTPAddress = "127.0.0.1:0"
	opts.HTTPSAddress = "127.0.0.1:0"
	opts.BroadcastAddress = "127.0.0.1"
	opts.DataPath = dir
	opts.MemQueueSize = o.MemQ
	opts.MsgTimeout = time.Second
	opts.QueueScanInterval = 500 * time.Millisecond
	opts.QueueScanRefreshInterval = 500 * time.Millisecond
	if o.MaxBytesPerFile > 0 {
		opts.MaxBytesPerFile = o.MaxBytesPerFile
	}
	if o.MsgTimeout > 0 {
		opts.MsgTimeout = o.MsgTimeout
	}
	if o.MaxMsgTimeout > 0 {
		opts.MaxMsgTimeout = o.MaxMsgTimeout
	}
	if o.MaxReqTimeout > 0 {
		opts.MaxReqTimeout = o.MaxReqTimeout
	}
	if o.ScanInterval > 0 {
		opts.QueueScanInterval = o.ScanInterval
	}
	if o.RefreshInterval > 0 {
		opts.QueueScanRefreshInterval = o.RefreshInterval
	}
	if o.Mod != nil {
		o.Mod(opts)
	}
	return opts
}

// NewWorld does what apps/nsqd program.Start does: New, LoadMetadata, PersistMetadata, and
// then starts the loops Main would start (through the daemon's own waitGroup, so the real
// Exit joins them). Listeners exist but are never accepted on.
func NewWorld(dir string, o WOpts) (*World, error) {
	opts := mkOpts(dir, o)
	n, err := New(opts)
	if err != nil {
		return nil, err
	}
	w := &World{N: n, Dir: dir, Opts: opts}
	if err := n.LoadMetadata(); err != nil {
		w.Release()
		return nil, fmt.Errorf("LoadMetadata: %v", err)
	}
	if err := n.PersistMetadata(); err != nil {
		w.Release()
		return nil, fmt.Errorf("PersistMetadata: %v", err)
	}
	if !o.NoLoops {
		n.waitGroup.Wrap(n.queueScanLoop)
		n.waitGroup.Wrap(n.lookupLoop)
	}
	w.HTTP = newHTTPServer(n, false, false)
	return w, nil
}

// Release frees the real OS resources of a world that is abandoned without Exit.
func (w *World) Release() {
	if w.exited {
		vos.CloseLeaked()
		return
	}
	if w.N.tcpListener != nil {
		w.N.tcpListener.Close()
	}
	if w.N.httpListener != nil {
		w.N.httpListener.Close()
	}
	if w.N.httpsListener != nil {
		w.N.httpsListener.Close()
	}
	w.N.dl.Unlock()
	vos.CloseLeaked()
}

// FlushWatch notes, for the channels of a daemon that is being shut down, which messages
// Channel.flush wrote to the channel's disk queue (the records written after its exit flag
// was set, identified by the message id inside each record). A message that sits in the
// in-flight table afterwards and was not written was registered in flight after the flush
// had passed it by.
type FlushWatch struct {
	n       *NSQD
	Flushed map[string]map[string]bool // "topic/channel" -> message ids
	// the channel's consumers and how many messages each had been sent when the flush started
	clients map[string]map[*clientV2]uint64
}

func WatchFlush(n *NSQD) *FlushWatch {
	fw := &FlushWatch{n: n, Flushed: map[string]map[string]bool{}, clients: map[string]map[*clientV2]uint64{}}
	// (consumers known before the shutdown starts: Channel.exit drops them from the channel)
	pre := map[string]map[*clientV2]bool{}
	for tn, t := range n.topicMap {
		for cn, c := range t.channelMap {
			pre[tn+"/"+cn] = map[*clientV2]bool{}
			for _, cons := range c.clients {
				if k, ok := cons.(*clientV2); ok {
					pre[tn+"/"+cn][k] = true
				}
			}
		}
	}
	vos.Hook = func(e vos.Effect) {
		// (data files only: the queue's metadata file is written when the backend is closed)
		if e.Op != "write" || !strings.Contains(e.Path, ".diskqueue.") || strings.Contains(e.Path, ".meta.") {
			return
		}
		for tn, t := range n.topicMap {
			for cn, c := range t.channelMap {
				key := tn + "/" + cn
				if c.exitFlag != 1 || !strings.Contains(e.Path, "/"+tn+":"+cn+".diskqueue.") {
					continue
				}
				if fw.Flushed[key] == nil {
					// the flush starts: remember how many messages each consumer had been sent
					fw.Flushed[key] = map[string]bool{}
					fw.clients[key] = map[*clientV2]uint64{}
					for k := range pre[key] {
						fw.clients[key][k] = k.MessageCount
					}
				}
				// what is written to the channel's queue while it shuts down is what the flush
				// persists: one record = 4-byte length, 8-byte timestamp, 2-byte attempts,
				// 16-byte id, body
				if len(e.Data) >= 4+minValidMsgLength {
					fw.Flushed[key][string(e.Data[14:30])] = true
				}
			}
		}
	}
	return fw
}

func (fw *FlushWatch) Stop() { vos.Hook = nil }

// SendsAfterFlush: how many messages the channel's consumers were sent after the flush had
// started (each is a message a pump took off the queue or off the just-written backend).
func (fw *FlushWatch) SendsAfterFlush(topic, ch string) int {
	n := 0
	for k, before := range fw.clients[topic+"/"+ch] {
		n += int(k.MessageCount - before)
	}
	return n
}

// RegisteredAfterFlush: bodies of the messages that sit in the channel's in-flight table
// now and were not there when the flush started.
func (fw *FlushWatch) RegisteredAfterFlush(topic, ch string) map[string]bool {
	out := map[string]bool{}
	t := fw.n.topicMap[topic]
	if t == nil {
		return out
	}
	c := t.channelMap[ch]
	if c == nil {
		return out
	}
	set := fw.Flushed[topic+"/"+ch]
	for id, m := range c.inFlightMessages {
		if !set[string(id[:])] {
			out[string(m.Body)] = true
		}
	}
	return out
}

// ---------------------------------------------------------------- connections

type Frame struct {
	Type     int32
	Data     []byte
	ID       string // message frames
	Body     string
	Attempts int
	TS       int64
	At       int64 // virtual time when parsed
}

func (f Frame) String() string {
	switch f.Type {
	case frameTypeMessage:
		return fmt.Sprintf("MSG(%s #%d)", f.Body, f.Attempts)
	case frameTypeError:
		return "ERR(" + string(f.Data) + ")"
	}
	return "RESP(" + string(f.Data) + ")"
}

type WConn struct {
	C      *vrt.Conn
	Name   string
	w      *World
	buf    []byte
	Frames []Frame // every frame received so far (in order)
	seen   int     // frames already handed out by Next/Take
	Closed bool
	NoPoll bool // the byte stream is consumed by someone else (a TLS client)
	marks  []wmark // (cumulative bytes written by the server, virtual time of that write)
	wtotal int
	rtotal int // bytes consumed by parse
}

type wmark struct {
	upto int
	at   int64
}

var connSeq int

// Dial opens a client connection served by the real tcpServer.Handle and sends the magic.
func (w *World) Dial(name string) *WConn {
	wc := w.DialRaw(name)
	wc.C.Write([]byte("  V2"))
	return wc
}

// DialRaw opens a client connection without sending the protocol magic.
func (w *World) DialRaw(name string) *WConn {
	connSeq++
	s, c := vrt.Pipe(fmt.Sprintf("%d", 10000+len(w.Conns)), name)
	n := w.N
	vrt.GoNamed("conn-"+name, func() { n.tcpServer.Handle(s) })
	wc := &WConn{C: c, Name: name, w: w}
	s.OnWrite = func(p []byte) {
		wc.wtotal += len(p)
		wc.marks = append(wc.marks, wmark{wc.wtotal, vrt.Now()})
	}
	w.Conns = append(w.Conns, wc)
	return wc
}

func (c *WConn) Cmd(line string, body []byte) {
	var b bytes.Buffer
	b.WriteString(line)
	b.WriteByte('\n')
	if body != nil {
		binary.Write(&b, binary.BigEndian, int32(len(body)))
		b.Write(body)
	}
	c.C.Write(b.Bytes())
}

func (c *WConn) Raw(p []byte) { c.C.Write(p) }

func mpubBody(bodies ...string) []byte {
	var b bytes.Buffer
	binary.Write(&b, binary.BigEndian, int32(len(bodies)))
	for _, x := range bodies {
		binary.Write(&b, binary.BigEndian, int32(len(x)))
		b.WriteString(x)
	}
	return b.Bytes()
}

func (c *WConn) parse() {
	for len(c.buf) >= 8 {
		sz := int(binary.BigEndian.Uint32(c.buf[:4]))
		if sz < 4 || len(c.buf) < 4+sz {
			return
		}
		f := Frame{Type: int32(binary.BigEndian.Uint32(c.buf[4:8])), Data: append([]byte(nil), c.buf[8:4+sz]...), At: vrt.Now()}
		// the frame arrived when the server wrote its last byte
		c.rtotal += 4 + sz
		for len(c.marks) > 0 && c.marks[0].upto < c.rtotal {
			c.marks = c.marks[1:]
		}
		if len(c.marks) > 0 {
			f.At = c.marks[0].at
		}
		if f.Type == frameTypeMessage && len(f.Data) >= 26 {
			f.TS = int64(binary.BigEndian.Uint64(f.Data[:8]))
			f.Attempts = int(binary.BigEndian.Uint16(f.Data[8:10]))
			f.ID = string(f.Data[10:26])
			f.Body = string(f.Data[26:])
		}
		c.Frames = append(c.Frames, f)
		c.buf = c.buf[4+sz:]
	}
}

// Poll moves whatever bytes have arrived into Frames without blocking or scheduling.
func (c *WConn) Poll() {
	if c.NoPoll {
		if c.C.PeerClosed() && c.C.Buffered() == 0 {
			c.Closed = true
		}
		return
	}
	var tmp [4096]byte
	for c.C.Buffered() > 0 {
		n, _ := c.C.ReadNoSched(tmp[:])
		c.buf = append(c.buf, tmp[:n]...)
	}
	if c.C.PeerClosed() {
		c.Closed = true
	}
	c.parse()
}

// Next blocks (as a scheduling point) until another frame is available; ok=false on EOF.
func (c *WConn) Next() (Frame, bool) {
	for {
		c.Poll()
		if c.seen < len(c.Frames) {
			c.seen++
			return c.Frames[c.seen-1], true
		}
		if c.Closed {
			return Frame{}, false
		}
		var tmp [4096]byte
		n, err := c.C.Read(tmp[:])
		c.buf = append(c.buf, tmp[:n]...)
		if err != nil {
			c.Closed = true
			c.parse()
			if c.seen < len(c.Frames) {
				continue
			}
			return Frame{}, false
		}
	}
}

// Take returns the frames that arrived since the last Next/Take (non-blocking).
func (c *WConn) Take() []Frame {
	c.Poll()
	out := c.Frames[c.seen:]
	c.seen = len(c.Frames)
	return out
}

func (c *WConn) Close() { c.C.Close() }

// Identify sends IDENTIFY with the given fields and returns the response frame.
func (c *WConn) Identify(fields map[string]interface{}) Frame {
	b, _ := json.Marshal(fields)
	c.Cmd("IDENTIFY", b)
	f, _ := c.Next()
	return f
}

// ---------------------------------------------------------------- HTTP

func (w *World) Do(method, url string, body []byte) (int, string) {
	var rd io.Reader
	if body != nil {
		rd = bytes.NewReader(body)
	}
	req := httptest.NewRequest(method, url, rd)
	rec := httptest.NewRecorder()
	w.HTTP.ServeHTTP(rec, req)
	return rec.Code, rec.Body.String()
}

var _ = http.StatusOK

// ---------------------------------------------------------------- state dumps (read-only)

type ChanDump struct {
	Name      string
	Depth     int64
	InFlight  map[string]string // id -> "client/attempts/deadline-now(ms)"
	Deferred  map[string]int64  // id -> release-now (ms)
	Paused    bool
	Clients   []int64
	MsgCount  uint64
	Requeues  uint64
	Timeouts  uint64
	PQLen     int
	DefPQLen  int
	Exiting   bool
	Ephemeral bool
}

func DumpChannel(c *Channel) ChanDump {
	d := ChanDump{Name: c.name, Depth: c.Depth(), InFlight: map[string]string{}, Deferred: map[string]int64{}, Paused: c.paused == 1,
		MsgCount: c.messageCount, Requeues: c.requeueCount, Timeouts: c.timeoutCount, Exiting: c.exitFlag == 1, Ephemeral: c.ephemeral}
	now := vrt.Now()
	for id, m := range c.inFlightMessages {
		d.InFlight[string(id[:])] = fmt.Sprintf("c%d/a%d/%+dms", m.clientID, m.Attempts, (m.pri-now)/1e6)
	}
	for id, it := range c.deferredMessages {
		d.Deferred[string(id[:])] = (it.Priority - now) / 1e6
	}
	for id := range c.clients {
		d.Clients = append(d.Clients, id)
	}
	sort.Slice(d.Clients, func(i, j int) bool { return d.Clients[i] < d.Clients[j] })
	d.PQLen = len(c.inFlightPQ)
	d.DefPQLen = len(c.deferredPQ)
	return d
}

// CheckChannelStructure verifies the invariants that tie the in-flight / deferred maps to
// their heaps (C02 clause f).
func CheckChannelStructure(c *Channel) string {
	var errs []string
	if len(c.inFlightMessages) != len(c.inFlightPQ) {
		errs = append(errs, fmt.Sprintf("inFlight map has %d entries, deadline heap has %d", len(c.inFlightMessages), len(c.inFlightPQ)))
	}
	for i, m := range c.inFlightPQ {
		if m.index != i {
			errs = append(errs, fmt.Sprintf("heap[%d].index=%d", i, m.index))
		}
		if x, ok := c.inFlightMessages[m.ID]; !ok || x != m {
			errs = append(errs, fmt.Sprintf("heap[%d] (%s) is not the in-flight map's entry", i, m.ID))
		}
		if i > 0 && c.inFlightPQ[(i-1)/2].pri > m.pri {
			errs = append(errs, fmt.Sprintf("heap order broken at %d", i))
		}
	}
	if len(c.deferredMessages) != len(c.deferredPQ) {
		errs = append(errs, fmt.Sprintf("deferred map has %d entries, heap has %d", len(c.deferredMessages), len(c.deferredPQ)))
	}
	for i, it := range c.deferredPQ {
		if it.Index != i {
			errs = append(errs, fmt.Sprintf("deferred heap[%d].Index=%d", i, it.Index))
		}
		if i > 0 && c.deferredPQ[(i-1)/2].Priority > it.Priority {
			errs = append(errs, fmt.Sprintf("deferred heap order broken at %d", i))
		}
	}
	return strings.Join(errs, "; ")
}

func (w *World) Topic(name string) *Topic {
	w.N.RLock()
	defer w.N.RUnlock()
	return w.N.topicMap[name]
}

func (w *World) Channel(topic, ch string) *Channel {
	t := w.Topic(topic)
	if t == nil {
		return nil
	}
	t.RLock()
	defer t.RUnlock()
	return t.channelMap[ch]
}

// Quiesce lets every daemon thread run until nothing is enabled, then polls all conns.
func (w *World) Quiesce() {
	vrt.Quiesce()
	for _, c := range w.Conns {
		c.Poll()
	}
}

// Sleep advances virtual time (timers that fall due fire in order) and quiesces.
func (w *World) Sleep(d time.Duration) {
	vrt.SleepFor(int64(d))
	w.Quiesce()
}

// SleepAlive advances virtual time like Sleep but in steps of at most 20 s, sending NOP on
// the given connections at each step the way a client library answers heartbeats (nsqd
// closes a connection that stays silent for two heartbeat intervals).
func (w *World) SleepAlive(d time.Duration, conns ...*WConn) {
	for d > 0 {
		step := d
		if step > 20*time.Second {
			step = 20 * time.Second
		}
		w.Sleep(step)
		d -= step
		for _, c := range conns {
			if !c.Closed {
				c.Cmd("NOP", nil)
			}
		}
		w.Quiesce()
	}
}
