//go:build go1.18 && verif

package nsqd

// C07: content and envelope integrity (E5): bodies x publish path x queue path x transport
// x output buffer, in a world. The consumer negotiates TLS / snappy / deflate for real.

import (
	"bytes"
	"compress/flate"
	"crypto/tls"
	"encoding/binary"
	"encoding/json"
	"fmt"
	"io"
	"strings"
	"time"

	"github.com/golang/snappy"
	"github.com/nsqio/nsq/internal/verif/vrt"
	"github.com/nsqio/nsq/internal/verif/vx"
)

type IntegritySpec struct {
	Bodies    string `json:"bodies"`    // small | special | size:<n>
	Path      string `json:"path"`      // pub | dpub | mpub | hpub | hmpub | hmpubbin
	Queue     string `json:"queue"`     // mem | disk | disk64 | req0 | reqd | timeout | restart
	Transport string `json:"transport"` // plain | snappy | deflate1 | deflate6 | deflate9 | tls | tls+snappy | tls+deflate
	OutBuf    string `json:"outbuf"`    // default | -1 | 64 | max
	TwoChan   bool   `json:"twochan"`
}

func (s IntegritySpec) String() string {
	return fmt.Sprintf("%s/%s/%s/%s/buf%s/two%v", s.Bodies, s.Path, s.Queue, s.Transport, s.OutBuf, s.TwoChan)
}

const c07MaxMsg = 65536

func pattern(n int) []byte {
	b := make([]byte, n)
	for i := range b {
		b[i] = byte((i*31 + 7) % 251)
	}
	return b
}

func integrityBodies(kind string, textSafe bool) [][]byte {
	var out [][]byte
	switch {
	case kind == "small":
		for i := 0; i < 256; i++ {
			out = append(out, []byte{byte(i)})
		}
		set := []byte{'\n', '\r', 0, 0xFF, ' ', 'A'}
		for _, a := range set {
			for _, b := range set {
				out = append(out, []byte{a, b})
			}
		}
	case kind == "special":
		out = append(out, []byte("  V2"), []byte("FIN x\n"), []byte{0, 0, 0, 5}, append([]byte{0, 0, 0, 6, 0, 0, 0, 0}, []byte("OK")...),
			append(make([]byte, 10), []byte("0123456789abcdef")...), []byte("_heartbeat_"), []byte("\n\n\n"), []byte("PUB t\n\x00\x00\x00\x01x"))
		for _, n := range []int{15, 16, 17, 63, 64, 65} {
			out = append(out, pattern(n))
		}
	case strings.HasPrefix(kind, "size:"):
		var n int
		fmt.Sscanf(kind, "size:%d", &n)
		out = append(out, pattern(n))
	}
	if textSafe {
		var f [][]byte
		for _, b := range out {
			if !bytes.Contains(b, []byte("\n")) && len(b) > 0 {
				f = append(f, b)
			}
		}
		out = f
	}
	return out
}

// tclient reads frames through the negotiated transport stack.
type tclient struct {
	wc  *WConn
	r   io.Reader
	w   io.Writer
	fl  func() error
	buf []byte
	tc  *tls.Conn
	eof bool
}

func (t *tclient) send(line string, body []byte) {
	var b bytes.Buffer
	b.WriteString(line)
	b.WriteByte('\n')
	if body != nil {
		binary.Write(&b, binary.BigEndian, int32(len(body)))
		b.Write(body)
	}
	t.w.Write(b.Bytes())
	if t.fl != nil {
		t.fl()
	}
}

// readUntil blocks (as scheduling points, virtual time passing) until done(frames so far)
// holds, the connection ends, or `limit` of virtual time has passed; it returns every frame
// received since the previous call. Blocking reads are used because decompressing readers
// keep a timeout as a sticky error.
func (t *tclient) readUntil(w *World, limit time.Duration, done func(fs []Frame) bool) []Frame {
	w.Quiesce()
	end := vrt.Now() + int64(limit)
	var zero time.Time
	if t.tc != nil {
		t.tc.SetReadDeadline(zero)
	} else {
		t.wc.C.SetReadDeadline(zero)
	}
	for {
		x := &WConn{buf: append([]byte(nil), t.buf...)}
		x.parse()
		if done(x.Frames) || vrt.Now() > end || t.eof {
			t.buf = x.buf
			return x.Frames
		}
		tmp := make([]byte, 1<<17)
		n, err := t.r.Read(tmp)
		t.buf = append(t.buf, tmp[:n]...)
		if err != nil {
			t.eof = true
		}
	}
}

func nMsgs(n int) func(fs []Frame) bool {
	return func(fs []Frame) bool {
		k := 0
		for _, f := range fs {
			if f.Type == frameTypeMessage {
				k++
			}
		}
		return k >= n
	}
}

func nFrames(n int) func(fs []Frame) bool { return func(fs []Frame) bool { return len(fs) >= n } }

func dialTransport(w *World, name, transport, outbuf string, certs string) (*tclient, string) {
	wc := w.Dial(name)
	wc.NoPoll = true
	t := &tclient{wc: wc, r: wc.C, w: wc.C}
	id := map[string]interface{}{"client_id": name, "feature_negotiation": true}
	switch outbuf {
	case "-1":
		id["output_buffer_size"] = -1
	case "64":
		id["output_buffer_size"] = 64
	case "max":
		id["output_buffer_size"] = 65536
		id["output_buffer_timeout"] = -1
	}
	parts := strings.Split(transport, "+")
	for _, p := range parts {
		switch {
		case p == "tls":
			id["tls_v1"] = true
		case p == "snappy":
			id["snappy"] = true
		case strings.HasPrefix(p, "deflate"):
			id["deflate"] = true
			lvl := 6
			fmt.Sscanf(p, "deflate%d", &lvl)
			id["deflate_level"] = lvl
		}
	}
	b, _ := json.Marshal(id)
	t.send("IDENTIFY", b)
	fs := t.readUntil(w, 5*time.Second, nFrames(1))
	if len(fs) == 0 || fs[0].Type != frameTypeResponse {
		return nil, fmt.Sprintf("IDENTIFY answered %v", fs)
	}
	var resp struct {
		TLSv1   bool `json:"tls_v1"`
		Snappy  bool `json:"snappy"`
		Deflate bool `json:"deflate"`
	}
	json.Unmarshal(fs[0].Data, &resp)
	okFrame := func() string {
		fs := t.readUntil(w, 5*time.Second, nFrames(1))
		if len(fs) != 1 || string(fs[0].Data) != "OK" {
			return fmt.Sprintf("expected OK after upgrade, got %v", fs)
		}
		return ""
	}
	if resp.TLSv1 {
		t.tc = tls.Client(wc.C, &tls.Config{InsecureSkipVerify: true})
		if err := t.tc.Handshake(); err != nil {
			return nil, "handshake: " + err.Error()
		}
		t.r, t.w = t.tc, t.tc
		if e := okFrame(); e != "" {
			return nil, e
		}
	} else if strings.Contains(transport, "tls") {
		return nil, "TLS not negotiated"
	}
	// whatever was read past the IDENTIFY response already belongs to the upgraded stream
	under := io.MultiReader(bytes.NewReader(append([]byte(nil), t.buf...)), t.r)
	t.buf = nil
	underW := t.w
	if resp.Snappy {
		t.r = snappy.NewReader(under)
		sw := snappy.NewBufferedWriter(underW)
		t.w, t.fl = sw, sw.Flush
		if e := okFrame(); e != "" {
			return nil, e
		}
	} else if strings.Contains(transport, "snappy") {
		return nil, "snappy not negotiated"
	}
	if resp.Deflate {
		t.r = flate.NewReader(under)
		fw, _ := flate.NewWriter(underW, 6)
		t.w, t.fl = fw, fw.Flush
		if e := okFrame(); e != "" {
			return nil, e
		}
	} else if strings.Contains(transport, "deflate") {
		return nil, "deflate not negotiated"
	}
	return t, ""
}

func RunIntegrity(spec IntegritySpec) vx.Out {
	var viol []vx.Found
	// successive clock reads differ (as on a real clock), so that a copy of a message that
	// is stamped anew instead of inheriting the publish timestamp is visible
	vrt.S.TickNow = true
	bad := func(clause, f string, a ...interface{}) {
		if len(viol) < 8 {
			viol = append(viol, vx.Found{Sig: clause + " :: integrity " + spec.String(), Detail: fmt.Sprintf(f, a...)})
		}
	}
	certs := repoDir() + "/nsqd/test/certs/"
	wo := WOpts{MemQ: 1000, MsgTimeout: 60 * time.Second, Mod: func(o *Options) {
		o.MaxMsgSize = c07MaxMsg
		o.TLSCert, o.TLSKey = certs+"server.pem", certs+"server.key"
		o.MaxDeflateLevel = 9
	}}
	switch spec.Queue {
	case "disk", "restart":
		wo.MemQ = 0
	case "disk64":
		wo.MemQ, wo.MaxBytesPerFile = 0, 64
	case "timeout":
		wo.MsgTimeout = time.Second
	}
	w, err := NewWorld(FreshDir(), wo)
	if err != nil {
		return vx.Out{Obs: "world: " + err.Error(), Viol: []vx.Found{{Sig: "INFRA world :: integrity", Detail: err.Error()}}}
	}
	defer func() { w.Release() }()
	textSafe := spec.Path == "hmpub"
	bodies := integrityBodies(spec.Bodies, textSafe)
	if len(bodies) == 0 {
		return vx.Out{Obs: "no bodies"}
	}
	w.Do("POST", "/topic/create?topic=t", nil)
	w.Do("POST", "/channel/create?topic=t&channel=c", nil)
	if spec.TwoChan {
		w.Do("POST", "/channel/create?topic=t&channel=d", nil)
	}
	w.Quiesce()
	// ---- publish
	t0 := vrt.Now()
	p := w.Dial("p")
	switch spec.Path {
	case "pub", "dpub":
		for _, b := range bodies {
			if spec.Path == "pub" {
				p.Cmd("PUB t", b)
			} else {
				p.Cmd("DPUB t 100", b)
			}
			if f, ok := p.Next(); !ok || string(f.Data) != "OK" {
				bad("C07 C09 valid publish refused", "body %q: %v", b, f)
			}
		}
	case "mpub":
		var strs []string
		for _, b := range bodies {
			strs = append(strs, string(b))
		}
		for i := 0; i < len(strs); i += 50 {
			j := i + 50
			if j > len(strs) {
				j = len(strs)
			}
			p.Cmd("MPUB t", mpubBody(strs[i:j]...))
			if f, ok := p.Next(); !ok || string(f.Data) != "OK" {
				bad("C07 C09 valid publish refused", "MPUB: %v", f)
			}
		}
	case "hpub":
		for _, b := range bodies {
			if code, _ := w.Do("POST", "/pub?topic=t", b); code != 200 {
				bad("C07 C10 valid publish refused", "body %q: %d", b, code)
			}
		}
	case "hpubchunk":
		// the same with Transfer-Encoding: chunked (no declared length)
		for _, b := range bodies {
			if code, _, _ := w.DoRaw(HTTPCase{Method: "POST", Path: "/pub", Query: "topic=t", Body: string(b), Chunk: true}); code != 200 {
				bad("C07 C10 valid publish refused", "chunked body %q: %d", b, code)
			}
		}
	case "hmpubchunk":
		var strs []string
		for _, b := range bodies {
			strs = append(strs, string(b))
		}
		for i := 0; i < len(strs); i += 50 {
			j := i + 50
			if j > len(strs) {
				j = len(strs)
			}
			if code, _, _ := w.DoRaw(HTTPCase{Method: "POST", Path: "/mpub", Query: "topic=t&binary=true", Body: string(mpubBody(strs[i:j]...)), Chunk: true}); code != 200 {
				bad("C07 C10 valid publish refused", "chunked /mpub binary: %d", code)
			}
		}
	case "hmpub":
		if code, _ := w.Do("POST", "/mpub?topic=t", bytes.Join(bodies, []byte("\n"))); code != 200 {
			bad("C07 C10 valid publish refused", "/mpub text: %d", code)
		}
	case "hmpubbin":
		var strs []string
		for _, b := range bodies {
			strs = append(strs, string(b))
		}
		for i := 0; i < len(strs); i += 50 {
			j := i + 50
			if j > len(strs) {
				j = len(strs)
			}
			if code, _ := w.Do("POST", "/mpub?topic=t&binary=true", mpubBody(strs[i:j]...)); code != 200 {
				bad("C07 C10 valid publish refused", "/mpub binary: %d", code)
			}
		}
	}
	w.Sleep(700 * time.Millisecond) // deferred publishes are released, the channel is in the scan list
	t1 := vrt.Now()
	want := map[string]int{}
	for _, b := range bodies {
		want[string(b)]++
	}
	type env struct {
		id string
		ts int64
	}
	envs := map[string][]env{} // body -> envelopes seen on first delivery (channel c)
	check := func(label string, fs []Frame, attemptsWant int, strictEnv bool) map[string]int {
		got := map[string]int{}
		for _, f := range fs {
			switch f.Type {
			case frameTypeMessage:
				got[f.Body]++
				if !reHexID.MatchString(f.ID) {
					bad("C07 message id is not 16 hex characters", "%s: %q", label, f.ID)
				}
				if f.TS < t0 || f.TS > t1 {
					bad("C07 message timestamp outside its publish call", "%s: ts +%dms, published between +%d and +%d ms", label, rel(f.TS), rel(t0), rel(t1))
				}
				if attemptsWant > 0 && f.Attempts != attemptsWant {
					bad("C07 C02 attempts wrong", "%s: body %q carries attempts %d, want %d", label, f.Body, f.Attempts, attemptsWant)
				}
				if strictEnv {
					found := false
					for _, e := range envs[f.Body] {
						if e.id == f.ID && e.ts == f.TS {
							found = true
						}
					}
					if !found {
						bad("C07 id or timestamp changed on redelivery or across channels", "%s: body %q has (id %s, ts %d), first deliveries had %v", label, f.Body, f.ID, f.TS, envs[f.Body])
					}
				} else {
					envs[f.Body] = append(envs[f.Body], env{f.ID, f.TS})
				}
			case frameTypeResponse:
				if string(f.Data) != "_heartbeat_" && string(f.Data) != "OK" {
					bad("C07 unexpected frame in the stream", "%s: response %q", label, f.Data)
				}
			default:
				bad("C07 unexpected frame in the stream", "%s: type %d %q", label, f.Type, f.Data)
			}
		}
		return got
	}
	same := func(label string, got map[string]int) {
		for b, n := range want {
			if got[b] != n {
				bad("C07 body not delivered byte-for-byte", "%s: body %q (len %d) published %d time(s), received %d; received set has %d distinct bodies", label, trunc(b, 40), len(b), n, got[b], len(got))
				return
			}
		}
		for b, n := range got {
			if want[b] != n {
				bad("C07 a body was delivered that was never published", "%s: %q (len %d) x%d", label, trunc(b, 40), len(b), n)
				return
			}
		}
	}
	// ---- consume on channel c through the negotiated transport
	c, e := dialTransport(w, "c", spec.Transport, spec.OutBuf, certs)
	if e != "" {
		bad("C07 C09 feature negotiation failed", "%s", e)
		return vx.Out{Obs: "negotiation failed", Viol: viol}
	}
	c.send("SUB t c", nil)
	c.readUntil(w, 5*time.Second, nFrames(1))
	c.send(fmt.Sprintf("RDY %d", len(bodies)), nil)
	first := c.readUntil(w, 5*time.Second, nMsgs(len(bodies)))
	got := check("first delivery", first, 1, false)
	same("first delivery", got)
	ids := []string{}
	for _, f := range first {
		if f.Type == frameTypeMessage {
			ids = append(ids, f.ID)
		}
	}
	switch spec.Queue {
	case "req0", "reqd":
		d := "0"
		if spec.Queue == "reqd" {
			d = "100"
		}
		for _, id := range ids {
			c.send("REQ "+id+" "+d, nil)
		}
		same("after REQ", check("after REQ", c.readUntil(w, 5*time.Second, nMsgs(len(bodies))), 2, true))
	case "timeout":
		same("after timeout", check("after timeout", c.readUntil(w, 5*time.Second, nMsgs(len(bodies))), 2, true))
	case "restart":
		w.Quiesce()
		w.N.Exit()
		w.exited = true
		w2, err := NewWorld(w.Dir, wo)
		if err != nil {
			bad("C05 C07 restart failed", "%v", err)
			return vx.Out{Obs: "restart failed", Viol: viol}
		}
		w = w2
		c2, e := dialTransport(w, "c2", spec.Transport, spec.OutBuf, certs)
		if e != "" {
			bad("C07 C09 feature negotiation failed", "after restart: %s", e)
			return vx.Out{Obs: "negotiation failed", Viol: viol}
		}
		c2.send("SUB t c", nil)
		c2.readUntil(w, 5*time.Second, nFrames(1))
		c2.send(fmt.Sprintf("RDY %d", len(bodies)), nil)
		same("after restart", check("after restart", c2.readUntil(w, 5*time.Second, nMsgs(len(bodies))), 2, true))
		c = c2
	}
	// interleaved traffic: a heartbeat must parse cleanly in the same stream
	if spec.Queue == "mem" || spec.Queue == "disk" {
		hb := false
		isHB := func(fs []Frame) bool {
			for _, f := range fs {
				if f.Type == frameTypeResponse && string(f.Data) == "_heartbeat_" {
					return true
				}
			}
			return false
		}
		for _, f := range c.readUntil(w, 40*time.Second, isHB) {
			if f.Type == frameTypeResponse && string(f.Data) == "_heartbeat_" {
				hb = true
			} else if f.Type != frameTypeMessage {
				bad("C07 unexpected frame in the stream", "while idle: %v", f)
			}
		}
		if !hb {
			bad("C07 C09 no heartbeat after 32 s idle", "")
		}
	}
	// ---- the other channel sees the same ids and timestamps
	if spec.TwoChan {
		d, e := dialTransport(w, "d", "plain", "default", certs)
		if e == "" {
			d.send("SUB t d", nil)
			d.readUntil(w, 5*time.Second, nFrames(1))
			d.send(fmt.Sprintf("RDY %d", len(bodies)), nil)
			same("second channel", check("second channel", d.readUntil(w, 5*time.Second, nMsgs(len(bodies))), 0, true))
		}
	}
	return vx.Out{Obs: fmt.Sprintf("%d bodies ok=%v", len(bodies), len(viol) == 0), Viol: viol}
}

func trunc(s string, n int) string {
	if len(s) > n {
		return s[:n] + "..."
	}
	return s
}

// ---------------------------------------------------------------- segmented length prefixes

// SegmentSpec: a publish whose 4-byte length field reaches nsqd in two pieces (TCP
// segmentation), with nsqd sending a frame to that same connection in between.
type SegmentSpec struct {
	Cmd     string `json:"cmd"`     // pub | dpub | mpub
	Field   int    `json:"field"`   // mpub: 0 body size, 1 message count, 2 first message size, 3 second message size
	Split   int    `json:"split"`   // bytes of the field in the first piece (1..3)
	Between string `json:"between"` // message | heartbeat | none
}

func (s SegmentSpec) String() string {
	return fmt.Sprintf("%s field%d split%d between=%s", s.Cmd, s.Field, s.Split, s.Between)
}

func RunSegmented(spec SegmentSpec) vx.Out {
	var viol []vx.Found
	bad := func(clause, f string, a ...interface{}) {
		viol = append(viol, vx.Found{Sig: clause + " :: segmented " + spec.String(), Detail: fmt.Sprintf(f, a...)})
	}
	w, err := NewWorld(FreshDir(), WOpts{MemQ: 100, MsgTimeout: 60 * time.Second})
	if err != nil {
		return vx.Out{Obs: "world: " + err.Error(), Viol: []vx.Found{{Sig: "INFRA world :: segmented", Detail: err.Error()}}}
	}
	defer w.Release()
	x := w.Dial("x")
	ident := map[string]interface{}{"client_id": "x", "output_buffer_size": -1}
	if spec.Between == "heartbeat" {
		ident["heartbeat_interval"] = 1000
	}
	if f := x.Identify(ident); string(f.Data) != "OK" {
		return vx.Out{Obs: "identify refused", Viol: []vx.Found{{Sig: "INFRA identify :: segmented", Detail: f.String()}}}
	}
	x.Cmd("SUB t c", nil)
	x.Next()
	x.Cmd("RDY 10", nil)
	w.Quiesce()
	p := w.Dial("p")
	b1, b2 := pattern(300), pattern(700)
	// the byte stream of the command, and the offset of the length field that is split
	var stream bytes.Buffer
	want := [][]byte{b1}
	fieldOff := 0
	switch spec.Cmd {
	case "pub":
		stream.WriteString("PUB t\n")
		fieldOff = stream.Len()
		binary.Write(&stream, binary.BigEndian, int32(len(b1)))
		stream.Write(b1)
	case "dpub":
		stream.WriteString("DPUB t 50\n")
		fieldOff = stream.Len()
		binary.Write(&stream, binary.BigEndian, int32(len(b1)))
		stream.Write(b1)
	case "mpub":
		stream.WriteString("MPUB t\n")
		offs := []int{stream.Len()}
		binary.Write(&stream, binary.BigEndian, int32(4+4+len(b1)+4+len(b2)))
		offs = append(offs, stream.Len())
		binary.Write(&stream, binary.BigEndian, int32(2))
		offs = append(offs, stream.Len())
		binary.Write(&stream, binary.BigEndian, int32(len(b1)))
		stream.Write(b1)
		offs = append(offs, stream.Len())
		binary.Write(&stream, binary.BigEndian, int32(len(b2)))
		stream.Write(b2)
		fieldOff = offs[spec.Field]
		want = [][]byte{b1, b2}
	}
	all := stream.Bytes()
	cut := fieldOff + spec.Split
	x.Raw(all[:cut])
	w.Quiesce()
	switch spec.Between {
	case "message":
		p.Cmd("PUB t", []byte("between"))
		p.Next()
		w.Quiesce()
	case "heartbeat":
		w.Sleep(1100 * time.Millisecond)
	}
	x.Raw(all[cut:])
	x.Cmd("NOP", nil) // (any traffic counts as the answer to a heartbeat)
	w.Quiesce()
	// a deferred publish is handed over by the next queue scans
	w.Sleep(1300 * time.Millisecond)
	var got [][]byte
	okSeen, closed := false, false
	for _, f := range x.Take() {
		switch {
		case f.Type == frameTypeMessage:
			if f.Body != "between" {
				got = append(got, []byte(f.Body))
			}
		case f.Type == frameTypeResponse && string(f.Data) == "OK":
			okSeen = true
		case f.Type == frameTypeError:
			bad("C07 C09 valid publish refused", "the publish was answered %q", f.Data)
		}
	}
	x.Poll()
	closed = x.Closed
	if !okSeen {
		bad("C07 C09 valid publish refused", "no OK for a publish whose length field arrived in two pieces (connection closed: %v)", closed)
	}
	if len(got) != len(want) {
		bad("C07 body not delivered byte-for-byte", "published %d bodies (%d, %d bytes), received %d", len(want), len(b1), len(b2), len(got))
	}
	for i := 0; i < len(got) && i < len(want); i++ {
		if !bytes.Equal(got[i], want[i]) {
			bad("C07 body not delivered byte-for-byte", "body %d: published %d bytes, received %d bytes", i, len(want[i]), len(got[i]))
		}
	}
	return vx.Out{Obs: fmt.Sprintf("ok=%v bodies=%d closed=%v", okSeen, len(got), closed), Viol: viol}
}
