//go:build go1.18 && verif

package nsqd

// C06: hard-kill consistency of the persisted metadata (E4). A script of admin operations
// runs on a real daemon under the controlled runtime with every file-system effect logged;
// afterwards every prefix of that log (x loss variants of unsynced data) is materialised
// as a data directory and handed to the real start-up path.

import (
	"bytes"
	"encoding/json"
	"fmt"
	stdos "os"
	"runtime"
	"sort"
	"strings"
	"syscall"
	stdtime "time"

	"github.com/nsqio/nsq/internal/verif/vos"
	"github.com/nsqio/nsq/internal/verif/vrt"
	"github.com/nsqio/nsq/internal/verif/vsync"
	"github.com/nsqio/nsq/internal/verif/vx"
)

type MetaSpec struct {
	Steps []string `json:"steps"`
	// Fault: the Nth (1-based) operation of this kind on nsqd.dat* fails (write: short write
	// of half the data, then the error - a full disk; fsync / rename / open: an I/O error)
	FaultKind string `json:"fault_kind,omitempty"`
	FaultNth  int    `json:"fault_nth,omitempty"`
}

func (s MetaSpec) String() string {
	x := strings.Join(s.Steps, ",")
	if s.FaultKind != "" {
		x += fmt.Sprintf(" [%s #%d on nsqd.dat* fails]", s.FaultKind, s.FaultNth)
	}
	return x
}

type metaEvent struct {
	Kind  string // effect | idle | snap
	Eff   vos.Effect
	Snaps []string // live states at this moment (with and without objects that are exiting)
	Step  int
	// Ack: this event marks the HTTP 200 of a pause/unpause ("a" or "a/x" -> paused?), or of
	// a step that removes / re-creates an object (value nil: forget what was acknowledged)
	AckObj string
	AckVal *bool
	AckOK  bool // Kind snap: the request was answered 200
}

type MetaTrace struct {
	Spec     MetaSpec
	Events   []metaEvent
	Codes    []int
	FaultHit bool
}

// LastMeta is the trace of the most recent RunMetaScript (judged outside the run).
var LastMeta *MetaTrace

func liveStates(n *NSQD) []string {
	render := func(skipExiting bool) string {
		var ts []string
		for name, t := range n.topicMap {
			if t.ephemeral || (skipExiting && t.exitFlag == 1) {
				continue
			}
			var cs []string
			for cn, c := range t.channelMap {
				if c.ephemeral || (skipExiting && c.exitFlag == 1) {
					continue
				}
				p := ""
				if c.paused == 1 {
					p = "[p]"
				}
				cs = append(cs, cn+p)
			}
			sort.Strings(cs)
			p := ""
			if t.paused == 1 {
				p = "[p]"
			}
			ts = append(ts, name+p+":"+strings.Join(cs, ","))
		}
		sort.Strings(ts)
		return strings.Join(ts, ";")
	}
	a, b := render(false), render(true)
	if a == b {
		return []string{a}
	}
	return []string{a, b}
}

// RunMetaScript executes the script (inside a controlled execution) and records the trace.
func RunMetaScript(spec MetaSpec) vx.Out {
	tr := &MetaTrace{Spec: spec}
	LastMeta = tr
	var w *World
	// the live state is sampled at every decision point (a state that exists only between
	// two file effects - e.g. between PersistMetadata reading the flags and opening the temp
	// file - is still "a state the daemon passed through"); the samples since the previous
	// event are attached to the next one
	var since []string
	sample := func() {
		if w == nil {
			return
		}
		for _, s := range liveStates(w.N) {
			dup := false
			for _, o := range since {
				dup = dup || o == s
			}
			if !dup {
				since = append(since, s)
			}
		}
	}
	vrt.OnPoint = sample
	defer func() { vrt.OnPoint = nil }()
	vos.Hook = func(e vos.Effect) {
		if !strings.Contains(e.Path, "nsqd.dat") && !strings.Contains(e.To, "nsqd.dat") {
			return
		}
		ev := metaEvent{Kind: "effect", Eff: e, Step: len(tr.Codes)}
		if w != nil {
			sample()
			ev.Snaps = since
			since = nil
		}
		tr.Events = append(tr.Events, ev)
	}
	defer func() { vos.Hook = nil }()
	if spec.FaultKind != "" {
		seen := 0
		vos.Fault = func(e vos.Effect) error {
			// (armed once the daemon is up: start-up's own first persist is not the subject)
			if w == nil || (!strings.Contains(e.Path, "nsqd.dat") && !strings.Contains(e.To, "nsqd.dat")) {
				return nil
			}
			if strings.HasPrefix(e.Op, spec.FaultKind) {
				seen++
				if seen == spec.FaultNth {
					tr.FaultHit = true
					return syscall.ENOSPC
				}
			}
			return nil
		}
		defer func() { vos.Fault = nil }()
	}
	var err error
	w, err = NewWorld(FreshDir(), WOpts{MemQ: 10, NoLoops: true})
	if err != nil {
		return vx.Out{Obs: "world: " + err.Error(), Viol: []vx.Found{{Sig: "INFRA world :: meta", Detail: err.Error()}}}
	}
	defer w.Release()
	w.N.waitGroup.Wrap(w.N.lookupLoop)
	idle := func() {
		w.Quiesce()
		if len(since) > 0 {
			tr.Events = append(tr.Events, metaEvent{Kind: "snap", Snaps: since, Step: len(tr.Codes)})
			since = nil
		}
		tr.Events = append(tr.Events, metaEvent{Kind: "idle", Snaps: liveStates(w.N), Step: len(tr.Codes)})
	}
	idle()
	vrt.Window(true)
	defer vrt.Window(false)
	doStep := func(st string) {
		p := strings.Split(st, ":")
		if p[0] == "exit" {
			// a graceful shutdown (always the last step, possibly with a request still in
			// flight): a kill may fall inside it like anywhere else, and what it writes is
			// still bound by "a state the daemon passed through"
			w.N.Exit()
			w.exited = true
			tr.Codes = append(tr.Codes, 200)
			sample()
			tr.Events = append(tr.Events, metaEvent{Kind: "snap", Snaps: since, Step: len(tr.Codes)})
			since = nil
			return
		}
		url := ""
		ackObj := ""
		var ackVal *bool
		yes, no := true, false
		switch p[0] {
		case "mk":
			url = "/topic/create?topic=" + p[1]
		case "rm":
			url = "/topic/delete?topic=" + p[1]
			ackObj = p[1] + "*"
		case "mkch":
			url = "/channel/create?topic=" + p[1] + "&channel=" + p[2]
		case "rmch":
			url = "/channel/delete?topic=" + p[1] + "&channel=" + p[2]
			ackObj = p[1] + "/" + p[2]
		case "pause", "unpause":
			url = "/topic/" + p[0] + "?topic=" + p[1]
			ackObj, ackVal = p[1], &no
			if p[0] == "pause" {
				ackVal = &yes
			}
		case "pausech", "unpausech":
			url = "/channel/" + strings.TrimSuffix(p[0], "ch") + "?topic=" + p[1] + "&channel=" + p[2]
			ackObj, ackVal = p[1]+"/"+p[2], &no
			if p[0] == "pausech" {
				ackVal = &yes
			}
		default:
			panic("unknown meta step " + st)
		}
		if ackObj != "" && !strings.Contains(st, "#ephemeral") {
			tr.Events = append(tr.Events, metaEvent{Kind: "start", Step: len(tr.Codes), AckObj: ackObj, AckVal: ackVal})
		}
		// the live state may change at any point of the step: sample it at every decision
		// the step makes that touches the metadata file; the final state is sampled at idle
		code, _ := w.Do("POST", strings.ReplaceAll(url, "#", "%23"), nil)
		tr.Codes = append(tr.Codes, code)
		sample()
		ev := metaEvent{Kind: "snap", Snaps: since, Step: len(tr.Codes)}
		since = nil
		if ackObj != "" && !strings.Contains(st, "#ephemeral") {
			ev.AckObj, ev.AckVal, ev.AckOK = ackObj, ackVal, code == 200
		}
		tr.Events = append(tr.Events, ev)
	}
	for _, st := range spec.Steps {
		if par := strings.Split(st, "||"); len(par) > 1 {
			// two requests in flight at once (two operators, or a client retrying)
			var wg vsync.WaitGroup
			wg.Add(len(par))
			for _, one := range par {
				one := one
				vrt.GoNamed("req-"+one, func() {
					doStep(one)
					wg.Done()
				})
			}
			wg.Wait()
		} else {
			doStep(st)
		}
		if w.exited {
			// after a graceful shutdown there is no idle daemon whose state the file must
			// equal: a request that raced the shutdown may have been acknowledged and not
			// persisted (its asynchronous persist is skipped once exitChan is closed); the
			// file is still bound by "a state the daemon passed through"
			w.Quiesce()
			continue
		}
		idle()
	}
	return vx.Out{Obs: fmt.Sprint(tr.Codes)}
}

// ---- images

type fileModel struct {
	synced  []byte
	pending []byte
	exists  bool
}

var metaLoadCache = map[string][2]string{} // nsqd.dat content -> (loaded state | "", error)

// loadImage hands a data directory holding the given nsqd.dat (nil = absent) to the real
// start-up path (New + LoadMetadata), in passthrough mode, and renders what was loaded.
func loadImage(content []byte, absent bool) (state string, errStr string) {
	key := "ABSENT"
	if !absent {
		key = "C:" + string(content)
	}
	if r, ok := metaLoadCache[key]; ok {
		return r[0], r[1]
	}
	dir := FreshDir()
	if !absent {
		stdos.WriteFile(dir+"/nsqd.dat", content, 0600)
	}
	opts := mkOpts(dir, WOpts{MemQ: 10})
	n, err := New(opts)
	if err != nil {
		metaLoadCache[key] = [2]string{"", "New: " + err.Error()}
		return "", "New: " + err.Error()
	}
	err = n.LoadMetadata()
	if err != nil {
		errStr = "LoadMetadata: " + err.Error()
	} else {
		state = liveStates(n)[0]
		// a second cycle must be a fixed point
		if e := n.PersistMetadata(); e != nil {
			errStr = "PersistMetadata after load: " + e.Error()
		}
	}
	n.Exit()
	if errStr == "" {
		// restart once more on what the first start persisted
		n2, err := New(mkOpts(dir, WOpts{MemQ: 10}))
		if err != nil {
			errStr = "second New: " + err.Error()
		} else {
			if e := n2.LoadMetadata(); e != nil {
				errStr = "second LoadMetadata: " + e.Error()
			} else if s2 := liveStates(n2)[0]; s2 != state {
				errStr = fmt.Sprintf("second restart loaded %q, first %q", s2, state)
			}
			n2.Exit()
		}
	}
	vos.CloseLeaked()
	metaLoadCache[key] = [2]string{state, errStr}
	return state, errStr
}

type MetaJudgement struct {
	Images      int
	CrashPoints int
	Viol        []vx.Found
}

// JudgeMeta enumerates crash points and loss variants of a recorded trace (outside the
// controlled execution).
func JudgeMeta(tr *MetaTrace) MetaJudgement {
	var j MetaJudgement
	bad := func(clause, f string, a ...interface{}) {
		for _, v := range j.Viol {
			if strings.HasPrefix(v.Sig, clause) {
				return
			}
		}
		j.Viol = append(j.Viol, vx.Found{Sig: clause + " :: meta " + tr.Spec.String(), Detail: fmt.Sprintf(f, a...)})
	}
	for _, ev := range tr.Events {
		for _, s := range ev.Snaps {
			if strings.Contains(s, "#ephemeral") {
				bad("INFRA ephemeral leaked into snapshot", "%s", s)
			}
		}
	}
	// index of idle markers
	var idleIdx []int
	for i, ev := range tr.Events {
		if ev.Kind == "idle" {
			idleIdx = append(idleIdx, i)
		}
	}
	files := map[string]*fileModel{}
	get := func(p string) *fileModel {
		if files[p] == nil {
			files[p] = &fileModel{}
		}
		return files[p]
	}
	base := func(p string) string { return p[strings.LastIndex(p, "/")+1:] }
	judge := func(k int) {
		// crash right before event k (k == len: after everything)
		j.CrashPoints++
		// allowed states: every snapshot between the idle marker at or before k and the idle
		// marker at or after k
		lo, hi := 0, len(tr.Events)-1
		for _, ix := range idleIdx {
			if ix < k {
				lo = ix
			}
		}
		for i := len(idleIdx) - 1; i >= 0; i-- {
			if idleIdx[i] >= k {
				hi = idleIdx[i]
			}
		}
		// (with an injected I/O fault a persist may legitimately fail, so the file may lag
		// behind the live state even at an idle point: then any state passed through so
		// far is acceptable - the file must still be complete and loadable)
		atIdle := k > 0 && tr.Events[k-1].Kind == "idle" && tr.Spec.FaultKind == ""
		if tr.Spec.FaultKind != "" {
			lo = 0
		}
		allowed := map[string]bool{}
		if atIdle {
			for _, s := range tr.Events[k-1].Snaps {
				allowed[s] = true
			}
		} else {
			for i := lo; i <= hi && i < len(tr.Events); i++ {
				for _, s := range tr.Events[i].Snaps {
					allowed[s] = true
				}
			}
		}
		// clause (4): pause/unpause acknowledged (HTTP 200) before this crash point
		// Clause (4), as a linearizability condition on the paused flag of each object: the
		// value on disk must be that of a request that can be LAST in some linearization of
		// the pause/unpause requests issued so far - a request still in flight (it may or may
		// not have taken effect), or a completed (200) one that no other completed request
		// started after.
		type preq struct {
			start, ack int // event indices; ack < 0: not answered before the crash
			val, ok    bool
		}
		reqs := map[string][]*preq{}
		forget := func(obj string) {
			if strings.HasSuffix(obj, "*") {
				t := strings.TrimSuffix(obj, "*")
				for o := range reqs {
					if o == t || strings.HasPrefix(o, t+"/") {
						delete(reqs, o)
					}
				}
			} else {
				delete(reqs, obj)
			}
		}
		for i := 0; i < k && i < len(tr.Events); i++ {
			ev := tr.Events[i]
			if ev.AckObj == "" {
				continue
			}
			switch {
			case ev.AckVal == nil:
				// a deletion (started or answered): forget what was acknowledged for the object
				forget(ev.AckObj)
			case ev.Kind == "start":
				reqs[ev.AckObj] = append(reqs[ev.AckObj], &preq{start: i, ack: -1, val: *ev.AckVal})
			default:
				for _, r := range reqs[ev.AckObj] {
					if r.ack < 0 && r.val == *ev.AckVal {
						r.ack, r.ok = i, ev.AckOK
						break
					}
				}
			}
		}
		// object -> set of allowed values (absent: nothing to assert)
		ackAllowed := map[string]map[bool]bool{}
		for obj, rs := range reqs {
			al := map[bool]bool{}
			completed := false
			for _, x := range rs {
				if x.ack < 0 {
					al[x.val] = true
					continue
				}
				if !x.ok {
					continue
				}
				completed = true
				last := true
				for _, y := range rs {
					if y != x && y.ack >= 0 && y.ok && y.start > x.ack {
						last = false
					}
				}
				if last {
					al[x.val] = true
				}
			}
			if completed {
				ackAllowed[obj] = al
			}
		}
		f := files["nsqd.dat"]
		type variant struct {
			content []byte
			absent  bool
			what    string
		}
		var vs []variant
		if f == nil || !f.exists {
			vs = append(vs, variant{nil, true, "absent"})
		} else {
			full := append(append([]byte{}, f.synced...), f.pending...)
			vs = append(vs, variant{full, false, "all written data present"})
			if len(f.pending) > 0 {
				vs = append(vs, variant{append([]byte{}, f.synced...), false, "unsynced data lost"})
				half := append(append([]byte{}, f.synced...), f.pending[:len(f.pending)/2]...)
				vs = append(vs, variant{half, false, "unsynced data torn in the middle"})
			}
		}
		for _, v := range vs {
			j.Images++
			st, e := loadImage(v.content, v.absent)
			at := "end of script"
			if k < len(tr.Events) {
				at = fmt.Sprintf("before %s(%s) in step %d", tr.Events[k].Kind+" "+tr.Events[k].Eff.Op, base(tr.Events[k].Eff.Path), tr.Events[k].Step)
			}
			if e != "" {
				bad("C06 metadata not loadable after a kill", "kill %s (%s): nsqd.dat=%q: %s", at, v.what, v.content, e)
				continue
			}
			if strings.Contains(string(v.content), "#ephemeral") {
				bad("C06 C08 ephemeral object in the persisted metadata", "kill %s: nsqd.dat=%q", at, v.content)
			}
			for obj, al := range ackAllowed {
				// (not judged under an injected I/O fault: doPauseTopic/doPauseChannel ignore
				// the error of their PersistMetadata call and answer 200 regardless - an
				// observation recorded in the evidence notes; the property quantifies over
				// kills, not over a failing disk)
				if tr.Spec.FaultKind != "" {
					break
				}
				if got, exists := pausedIn(st, obj); exists && !al[got] {
					bad("C06 acknowledged pause/unpause not reflected after a kill", "kill %s (%s): every pause/unpause request for %s that can be the last one so far asked for paused=%v (and was answered 200 unless still in flight), restart loads {%s} (steps %v answered %v)", at, v.what, obj, !got, st, tr.Spec.Steps, tr.Codes)
				}
			}
			if !allowed[st] {
				var al []string
				for s := range allowed {
					al = append(al, "{"+s+"}")
				}
				sort.Strings(al)
				clause := "C06 metadata after a kill is not a state the daemon passed through"
				if atIdle {
					clause = "C06 metadata at an idle point does not match the live topics and channels"
				}
				bad(clause, "kill %s (%s): restart loads {%s}; allowed %v (steps %v answered %v)", at, v.what, st, al, tr.Spec.Steps, tr.Codes)
			}
		}
	}
	for k := 0; k <= len(tr.Events); k++ {
		judge(k)
		if k == len(tr.Events) {
			break
		}
		ev := tr.Events[k]
		if ev.Kind != "effect" {
			continue
		}
		e := ev.Eff
		name := base(e.Path)
		switch {
		case strings.HasPrefix(e.Op, "open("):
			f := get(name)
			var flag int
			fmt.Sscanf(e.Op, "open(%v)", &flag)
			if !f.exists {
				f.exists = true
			}
			if flag&stdos.O_TRUNC != 0 {
				f.synced, f.pending = nil, nil
			}
		case e.Op == "write":
			f := get(name)
			f.exists = true
			f.pending = append(f.pending, e.Data...)
		case e.Op == "writefile":
			f := get(name)
			f.exists = true
			f.synced, f.pending = nil, append([]byte{}, e.Data...)
		case e.Op == "fsync":
			f := get(name)
			f.synced = append(f.synced, f.pending...)
			f.pending = nil
		case e.Op == "rename":
			src := get(name)
			files[base(e.To)] = &fileModel{synced: src.synced, pending: src.pending, exists: src.exists}
			delete(files, name)
		case e.Op == "remove":
			delete(files, name)
		case e.Op == "truncate":
			f := get(name)
			all := append(append([]byte{}, f.synced...), f.pending...)
			if int(e.Off) < len(all) {
				all = all[:e.Off]
			}
			f.synced, f.pending = all, nil
		}
	}
	return j
}

// pausedIn reads the paused flag of a topic ("a") or channel ("a/x") out of a rendered
// state ("a[p]:x[p],y;b:").
func pausedIn(state, obj string) (paused, exists bool) {
	tn, cn := obj, ""
	if i := strings.Index(obj, "/"); i >= 0 {
		tn, cn = obj[:i], obj[i+1:]
	}
	for _, t := range strings.Split(state, ";") {
		i := strings.Index(t, ":")
		if i < 0 {
			continue
		}
		name, chans := t[:i], t[i+1:]
		tp := strings.HasSuffix(name, "[p]")
		name = strings.TrimSuffix(name, "[p]")
		if name != tn {
			continue
		}
		if cn == "" {
			return tp, true
		}
		for _, c := range strings.Split(chans, ",") {
			cp := strings.HasSuffix(c, "[p]")
			if strings.TrimSuffix(c, "[p]") == cn {
				return cp, true
			}
		}
	}
	return false, false
}

// CheckDirLock: a second nsqd on a data path in use refuses to start; it starts once the
// first one has gone (C06 clause 6).
func CheckDirLock() []vx.Found {
	var viol []vx.Found
	dir := FreshDir()
	n1, err := New(mkOpts(dir, WOpts{}))
	if err != nil {
		return []vx.Found{{Sig: "INFRA dirlock first New failed", Detail: err.Error()}}
	}
	// ... at once, and again after the first daemon has been running for a while (garbage
	// collections and finalizers have run: the lock must not hang on an object that nothing
	// references any more)
	for attempt := 0; attempt < 3; attempt++ {
		n2, err := New(mkOpts(dir, WOpts{}))
		if err == nil {
			viol = append(viol, vx.Found{Sig: "C06 second nsqd on a data path in use was allowed to start :: dirlock", Detail: fmt.Sprintf("New succeeded twice on %s (attempt %d; before attempts > 0 the garbage collector and finalizers ran)", dir, attempt)})
			n2.Exit()
			break
		} else if !strings.Contains(err.Error(), "lock") {
			viol = append(viol, vx.Found{Sig: "C06 second nsqd refused for another reason than the lock :: dirlock", Detail: err.Error()})
			break
		}
		runtime.GC()
		runtime.GC()
		stdtime.Sleep(20 * stdtime.Millisecond) // finalizers run on their own goroutine
	}
	n1.Exit()
	n3, err := New(mkOpts(dir, WOpts{}))
	if err != nil {
		viol = append(viol, vx.Found{Sig: "C06 data path still refused after the holder exited :: dirlock", Detail: err.Error()})
	} else {
		n3.Exit()
	}
	vos.CloseLeaked()
	return viol
}

var _ = bytes.Equal
var _ = json.Marshal
