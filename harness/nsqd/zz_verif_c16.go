//go:build go1.18 && verif

package nsqd

// C16: nsqd keeps nsqlookupd in sync and tolerates its faults. One world holds a real
// NSQD and one or two real NSQLookupd; nsqd's TCP connections to them go through vnet
// (in-memory, with scripted faults per connection attempt), its HTTP queries through an
// in-memory round tripper into the real lookupd router.

import (
	"bytes"
	"encoding/binary"
	"fmt"
	"io"
	"net"
	"net/http"
	"net/http/httptest"
	stdos "os"
	"sort"
	"strings"
	"time"

	"github.com/nsqio/nsq/internal/clusterinfo"
	"github.com/nsqio/nsq/internal/http_api"
	"github.com/nsqio/nsq/internal/verif/vnet"
	"github.com/nsqio/nsq/internal/verif/vrt"
	"github.com/nsqio/nsq/internal/verif/vx"
	"github.com/nsqio/nsq/nsqlookupd"
)

type SyncSpec struct {
	Lookupds int      `json:"lookupds"`
	Faults   []string `json:"faults"` // fault per connection attempt to lookupd 1 (then "ok"): ok | split1 | split3 | refuse | close | stall | garbage | neglen | minlen | overlimit | hugelen | trunc | einvalid | restart
	Ops      []string `json:"ops"`    // churn: mk:T | mkch:T:C | rmch:T:C | rm:T | pub:T | mkeph | tick | lkdrop | lkrestart | cfg:<digits of the lookupds to configure, "-" for none>
	PreKnown bool     `json:"preknown"` // lookupd already knows channel "pre" of topic "fresh" (from another nsqd)
	// HTTPFault: how the LAST lookupd answers nsqd's HTTP /channels query: "" (healthy) |
	// refuse | 500 | garbage | empty. Its TCP side stays healthy.
	HTTPFault string `json:"httpfault,omitempty"`
	// Explore: the churn operations run inside the exploration window (E2: the schedules of
	// the notification path - Notify goroutines, notifyChan, lookupLoop - are enumerated)
	Explore bool `json:"explore,omitempty"`
	// Segment > 0: every reply of nsqlookupd 1 reaches nsqd at most Segment bytes per read,
	// on every connection (TCP segmentation is not a fault: everything must work as usual)
	Segment int `json:"segment,omitempty"`
}

func (s SyncSpec) String() string {
	x := ""
	if s.HTTPFault != "" {
		x = " httpfault=" + s.HTTPFault
	}
	if s.Explore {
		x += " explore"
	}
	if s.Segment > 0 {
		x += fmt.Sprintf(" segment=%d", s.Segment)
	}
	return fmt.Sprintf("lookupds=%d faults=%v ops=%v preknown=%v%s", s.Lookupds, s.Faults, s.Ops, s.PreKnown, x)
}

type memTransport struct{ routes map[string]http.Handler }

func (t *memTransport) RoundTrip(req *http.Request) (*http.Response, error) {
	h := t.routes[req.URL.Host]
	if h == nil {
		return nil, fmt.Errorf("dial tcp %s: connect: connection refused", req.URL.Host)
	}
	// turn the outgoing request into what a server would see
	sreq := req.Clone(req.Context())
	if sreq.Body == nil {
		sreq.Body = http.NoBody
	}
	sreq.RemoteAddr = "10.0.0.9:1234"
	sreq.RequestURI = req.URL.RequestURI()
	rec := httptest.NewRecorder()
	h.ServeHTTP(rec, sreq)
	return rec.Result(), nil
}

func lkReply(c net.Conn, b []byte) {
	var w bytes.Buffer
	binary.Write(&w, binary.BigEndian, int32(len(b)))
	w.Write(b)
	c.Write(w.Bytes())
}

// readCommand consumes the magic (first time) and one command line (+ IDENTIFY body).
func readCommand(c net.Conn, first bool) bool {
	buf := make([]byte, 1)
	if first {
		m := make([]byte, 4)
		if _, err := io.ReadFull(c, m); err != nil {
			return false
		}
	}
	var line []byte
	for {
		if _, err := c.Read(buf); err != nil {
			return false
		}
		if buf[0] == '\n' {
			break
		}
		line = append(line, buf[0])
	}
	if strings.HasPrefix(string(line), "IDENTIFY") {
		var n int32
		if binary.Read(c, binary.BigEndian, &n) != nil {
			return false
		}
		io.ReadFull(c, make([]byte, n))
	}
	return true
}

// slowConn delays the first reply written to it by 1.5 s (virtual).
type slowConn struct {
	net.Conn
	delayed bool
}

func (c *slowConn) Write(p []byte) (int, error) {
	if !c.delayed {
		c.delayed = true
		vrt.SleepFor(int64(1500 * time.Millisecond))
	}
	return c.Conn.Write(p)
}

func RunSync(spec SyncSpec) vx.Out {
	var viol []vx.Found
	bad := func(clause, f string, a ...interface{}) {
		viol = append(viol, vx.Found{Sig: clause + " :: sync " + spec.String(), Detail: fmt.Sprintf(f, a...)})
	}
	vnet.Reset()
	tr := &memTransport{routes: map[string]http.Handler{}}
	var lks []*nsqlookupd.LWorld
	var addrs []string
	attempt := 0
	mkLookupd := func(i int) *nsqlookupd.LWorld {
		name := fmt.Sprintf("lk%d", i+1)
		lw, err := nsqlookupd.NewNamedLWorld(name)
		if err != nil {
			panic(err)
		}
		tr.routes[fmt.Sprintf("%s:%d", name, lw.HTTPPort())] = lw.Router()
		return lw
	}
	for i := 0; i < spec.Lookupds; i++ {
		i := i
		lks = append(lks, mkLookupd(i))
		addr := fmt.Sprintf("lk%d:4160", i+1)
		addrs = append(addrs, addr)
		mode := func() string {
			if i != 0 {
				return "ok"
			}
			m := "ok"
			if attempt < len(spec.Faults) {
				m = spec.Faults[attempt]
			}
			return m
		}
		cur := ""
		vnet.Register(addr, &vnet.Endpoint{
			Refuse: func() bool {
				cur = mode()
				if i == 0 {
					attempt++
				}
				return cur == "refuse"
			},
			ClientMaxRead: func() int {
				// (consulted right after Refuse, for the same connection attempt)
				switch cur {
				case "split1":
					return 1
				case "split3":
					return 3
				}
				if i == 0 {
					return spec.Segment
				}
				return 0
			},
			Serve: func(c net.Conn) {
				m := cur
				switch m {
				case "ok", "split1", "split3":
					// (split*: a healthy nsqlookupd whose replies reach nsqd 1 or 3 bytes at a time)
					lks[i].HandleConn(c)
				case "restart":
					// the lookupd was restarted with empty state: serve from a fresh instance
					old := lks[i]
					old.CloseAll()
					old.Release()
					lks[i] = mkLookupd(i)
					lks[i].HandleConn(c)
				case "close":
					c.Close()
				case "slow":
					// a healthy nsqlookupd whose first reply on this connection takes 1.5 s -
					// longer than nsqd's read deadline (1 s) - and arrives all the same
					lks[i].HandleConn(&slowConn{Conn: c})
				case "stall":
					readCommand(c, true)
					// never answer; nsqd's read deadline (1 s) must fire
					vrt.SleepFor(int64(5 * time.Second))
					c.Close()
				case "garbage":
					readCommand(c, true)
					c.Write([]byte("\x00\x00\x00\x05hello\xff\xfe\x00garbage"))
					vrt.SleepFor(int64(2 * time.Second))
					c.Close()
				case "neglen", "minlen", "overlimit", "hugelen", "trunc":
					readCommand(c, true)
					var n int32
					switch m {
					case "neglen":
						n = -1
					case "minlen":
						n = -2147483648
					case "overlimit":
						n = 5*1024*1024 + 1
					case "hugelen":
						n = 2147483647
					case "trunc":
						n = 10
					}
					var w bytes.Buffer
					binary.Write(&w, binary.BigEndian, n)
					w.WriteString("abc")
					c.Write(w.Bytes())
					vrt.SleepFor(int64(2 * time.Second))
					c.Close()
				case "einvalid":
					readCommand(c, true)
					lkReply(c, []byte("E_INVALID"))
					vrt.SleepFor(int64(2 * time.Second))
					c.Close()
				}
			},
		})
	}
	defer func() {
		for _, l := range lks {
			l.Release()
		}
	}()
	w, err := NewWorld(FreshDir(), WOpts{MemQ: 100, Verbose: stdos.Getenv("C16_DEBUG") != "", Mod: func(o *Options) {
		o.NSQLookupdTCPAddresses = append([]string{}, addrs...) // a copy: json.Unmarshal in doConfig reuses the backing array
		o.BroadcastAddress = "nsqd-under-test"
	}})
	if err != nil {
		return vx.Out{Obs: "world: " + err.Error(), Viol: []vx.Found{{Sig: "INFRA world :: sync", Detail: err.Error()}}}
	}
	defer w.Release()
	w.N.ci = clusterinfo.New(w.N.logf, http_api.NewClientWithTransport(tr))
	w.Quiesce()
	if spec.HTTPFault != "" {
		last := len(lks) - 1
		key := fmt.Sprintf("lk%d:%d", last+1, lks[last].HTTPPort())
		switch spec.HTTPFault {
		case "refuse":
			delete(tr.routes, key)
		case "500":
			tr.routes[key] = http.HandlerFunc(func(rw http.ResponseWriter, r *http.Request) { http.Error(rw, "boom", 500) })
		case "garbage":
			tr.routes[key] = http.HandlerFunc(func(rw http.ResponseWriter, r *http.Request) { rw.Write([]byte("{\"channels\": [1, {")) })
		case "empty":
			tr.routes[key] = http.HandlerFunc(func(rw http.ResponseWriter, r *http.Request) {})
		}
	}
	if spec.PreKnown {
		for _, l := range lks {
			l.Do("POST", "/channel/create?topic=fresh&channel=pre")
			l.Do("POST", "/channel/create?topic=fresh&channel=eph%23ephemeral")
		}
	}
	// a consumer proves that nsqd keeps delivering whatever the lookupds do
	cons := w.Dial("cons")
	cons.Identify(map[string]interface{}{"client_id": "cons", "output_buffer_size": -1})
	cons.Cmd("SUB live c", nil)
	cons.Next()
	cons.Cmd("RDY 1", nil)
	w.Quiesce()
	seq := 0
	alive := func(when string) {
		seq++
		body := fmt.Sprintf("live%d", seq)
		if code, _ := w.Do("POST", "/pub?topic=live", []byte(body)); code != 200 {
			bad("C16 nsqd stopped accepting publishes", "%s: %d", when, code)
			return
		}
		w.Quiesce()
		ok := false
		for _, f := range cons.Take() {
			if f.Type == frameTypeMessage && f.Body == body {
				ok = true
				cons.Cmd("FIN "+f.ID, nil)
			}
		}
		w.Quiesce()
		if !ok {
			bad("C16 nsqd stopped delivering", "%s: %s not delivered", when, body)
		}
	}
	obs := ""
	freshDone := false
	configured := map[int]bool{}
	for i := range lks {
		configured[i] = true
	}
	if spec.Explore {
		vrt.Window(true)
	}
	for _, op := range spec.Ops {
		p := strings.Split(op, ":")
		switch p[0] {
		case "mk":
			w.Do("POST", "/topic/create?topic="+p[1], nil)
		case "rm":
			w.Do("POST", "/topic/delete?topic="+p[1], nil)
		case "mkch":
			w.Do("POST", "/channel/create?topic="+p[1]+"&channel="+p[2], nil)
		case "rmch":
			w.Do("POST", "/channel/delete?topic="+p[1]+"&channel="+p[2], nil)
		case "mkeph":
			w.Do("POST", "/channel/create?topic=live&channel=e%23ephemeral", nil)
		case "mkephon":
			// an ephemeral channel on the named topic (nsqlookupd does not hand it back to a
			// re-created topic, so nothing re-registers it behind the scenes)
			w.Do("POST", "/channel/create?topic="+p[1]+"&channel=e%23ephemeral", nil)
		case "pub":
			// a topic first created by a publish: it must start with the channels lookupd knows
			code, _ := w.Do("POST", "/pub?topic="+p[1], []byte("first"))
			if code != 200 {
				bad("C16 nsqd stopped accepting publishes", "first publish to %s: %d", p[1], code)
			}
			w.Quiesce()
			if spec.PreKnown && p[1] == "fresh" && attemptAllOK(spec) && !freshDone && (spec.HTTPFault == "" || len(lks) > 1) {
				freshDone = true
				ch := w.Channel("fresh", "pre")
				if ch == nil {
					bad("C16 new topic did not get the channels nsqlookupd knows", "topic fresh has channels %v", chanNamesOf(w, "fresh"))
				} else if d := ch.Depth(); d != 1 {
					bad("C16 pre-known channel missed the topic's first message", "channel pre depth %d", d)
				}
				if w.Channel("fresh", "eph#ephemeral") != nil {
					bad("C16 ephemeral channel pre-created from nsqlookupd", "")
				}
			}
		case "lkdrop":
			// nsqlookupd 1 drops its connections (a network blip): nsqd reconnects with its
			// next command or heartbeat and must register everything again
			lks[0].CloseAll()
		case "lkrestart":
			// nsqlookupd 1 is restarted with empty state at the same address
			old := lks[0]
			old.CloseAll()
			old.Release()
			lks[0] = mkLookupd(0)
		case "tick":
			w.SleepAlive(16*time.Second, cons)
		case "cfg":
			// runtime reconfiguration of the lookupd list (PUT /config/nsqlookupd_tcp_addresses)
			configured = map[int]bool{}
			list := []string{}
			for _, d := range p[1] {
				if i := int(d - '1'); i >= 0 && i < len(addrs) {
					configured[i] = true
					list = append(list, addrs[i])
				}
			}
			body := "[\"" + strings.Join(list, "\",\"") + "\"]"
			if len(list) == 0 {
				body = "[]"
			}
			if code, _ := w.Do("PUT", "/config/nsqlookupd_tcp_addresses", []byte(body)); code != 200 {
				bad("C16 runtime reconfiguration of the lookupd list refused", "%s: %d", body, code)
			}
		}
		if !spec.Explore {
			// (explored: the next operation is issued while the notifications of this one
			// are still on their way)
			w.Quiesce()
			alive("after " + op)
		}
		obs += op + ","
	}
	if spec.Explore {
		vrt.Quiesce()
		vrt.Window(false)
		alive("after the explored operations")
	}
	// faults are over: within 4 heartbeat intervals every lookupd lists exactly what nsqd has
	w.SleepAlive(62*time.Second, cons)
	alive("after convergence time")
	want := []string{}
	w.N.RLock()
	for tn, t := range w.N.topicMap {
		want = append(want, "topic:"+tn)
		t.RLock()
		for cn := range t.channelMap {
			want = append(want, "channel:"+tn+"/"+cn)
		}
		t.RUnlock()
	}
	w.N.RUnlock()
	sort.Strings(want)
	for i, l := range lks {
		if !configured[i] {
			continue // no longer one of this nsqd's lookupds
		}
		got := l.KeysOf("nsqd-under-test")
		if fmt.Sprint(got) != fmt.Sprint(want) {
			bad("C16 nsqlookupd did not converge to nsqd's topics and channels", "lookupd %d lists %v for this nsqd; nsqd has %v", i+1, got, want)
		}
	}
	return vx.Out{Obs: obs, Viol: viol}
}

func attemptAllOK(s SyncSpec) bool {
	for _, f := range s.Faults {
		if f != "ok" && f != "split1" && f != "split3" {
			return false
		}
	}
	return true
}

func chanNamesOf(w *World, topic string) []string {
	t := w.Topic(topic)
	if t == nil {
		return nil
	}
	var out []string
	t.RLock()
	for n := range t.channelMap {
		out = append(out, n)
	}
	t.RUnlock()
	sort.Strings(out)
	return out
}
