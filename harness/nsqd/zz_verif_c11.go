//go:build go1.18 && verif

package nsqd

// C11: TLS-required and AUTH policies, command sequences on one connection against a
// reference policy (E3), in a world; the auth server is a scripted stub that logs queries.

import (
	"crypto/tls"
	"encoding/json"
	"fmt"
	"net/http"
	"net/http/httptest"
	stdos "os"
	"regexp"
	"strings"
	"sync"
	"time"

	"github.com/nsqio/nsq/internal/verif/vrt"
	"github.com/nsqio/nsq/internal/verif/vx"
)

type GrantSpec struct {
	Perms []string `json:"perms"`
	Topic string   `json:"topic"`
	Chans []string `json:"chans"`
	TTL   int      `json:"ttl"`
	Fault string   `json:"fault,omitempty"` // 500 | garbage | empty
}

type PolicySpec struct {
	TLS        string      `json:"tls"`        // none | required | tcp-https
	ClientAuth string      `json:"clientauth"` // "" | require | require-verify
	Auth       bool        `json:"auth"`
	Grants     []GrantSpec `json:"grants"` // successive answers of the auth server (the last one repeats)
	Seq        []string    `json:"seq"`
}

func (s PolicySpec) String() string {
	g := ""
	for _, x := range s.Grants {
		g += fmt.Sprintf("{%v %s %v ttl%d %s}", x.Perms, x.Topic, x.Chans, x.TTL, x.Fault)
	}
	return fmt.Sprintf("tls=%s clientauth=%q auth=%v grants=%s seq=%v", s.TLS, s.ClientAuth, s.Auth, g, s.Seq)
}

type authStub struct {
	mu      sync.Mutex
	grants  []GrantSpec
	queries int
	srv     *httptest.Server
}

func (a *authStub) current() GrantSpec {
	i := a.queries
	if i >= len(a.grants) {
		i = len(a.grants) - 1
	}
	return a.grants[i]
}

func newAuthStub(grants []GrantSpec) *authStub {
	a := &authStub{grants: grants}
	a.srv = httptest.NewServer(http.HandlerFunc(func(w http.ResponseWriter, r *http.Request) {
		a.mu.Lock()
		g := a.current()
		a.queries++
		a.mu.Unlock()
		if r.URL.Query().Get("secret") != "good" {
			w.WriteHeader(403)
			fmt.Fprint(w, `{"message":"NOT_AUTHORIZED"}`)
			return
		}
		switch g.Fault {
		case "500":
			w.WriteHeader(500)
			fmt.Fprint(w, `{"message":"boom"}`)
			return
		case "garbage":
			fmt.Fprint(w, `{"ttl": "x", [`)
			return
		case "empty":
			fmt.Fprintf(w, `{"ttl":%d,"authorizations":[],"identity":"i"}`, g.TTL)
			return
		}
		b, _ := json.Marshal(map[string]interface{}{"ttl": g.TTL, "identity": "i", "authorizations": []map[string]interface{}{{"topic": g.Topic, "channels": g.Chans, "permissions": g.Perms}}})
		w.Write(b)
	}))
	return a
}

func repoDir() string {
	if d := stdos.Getenv("VERIF_REPO"); d != "" {
		return d
	}
	return "/repo"
}

func grantAllows(g GrantSpec, perm, topic, channel string) (allow, deny bool) {
	has := false
	for _, p := range g.Perms {
		if p == perm {
			has = true
		}
	}
	tm, _ := regexp.MatchString(g.Topic, topic)
	if !has || !tm || g.Fault != "" {
		return false, true
	}
	for _, c := range g.Chans {
		if m, _ := regexp.MatchString(c, channel); m {
			return true, false
		}
	}
	if perm == "publish" {
		return false, false // no channel pattern matches the empty channel: either answer accepted
	}
	return false, true
}

// RunPolicy executes the sequence and compares every outcome with the reference policy.
func RunPolicy(spec PolicySpec) vx.Out {
	var viol []vx.Found
	bad := func(clause, f string, a ...interface{}) {
		viol = append(viol, vx.Found{Sig: clause + " :: policy " + spec.String(), Detail: fmt.Sprintf(f, a...)})
	}
	var stub *authStub
	if spec.Auth {
		stub = newAuthStub(spec.Grants)
		defer stub.srv.Close()
	}
	certs := repoDir() + "/nsqd/test/certs/"
	w, err := NewWorld(FreshDir(), WOpts{MemQ: 100, Verbose: stdos.Getenv("C11_DEBUG") != "", Mod: func(o *Options) {
		if spec.TLS != "none" || spec.ClientAuth != "" {
			o.TLSCert, o.TLSKey = certs+"server.pem", certs+"server.key"
			o.TLSRootCAFile = certs + "ca.pem"
		}
		switch spec.TLS {
		case "required":
			o.TLSRequired = TLSRequired
		case "tcp-https":
			o.TLSRequired = TLSRequiredExceptHTTP
		}
		o.TLSClientAuthPolicy = spec.ClientAuth
		if spec.Auth {
			o.AuthHTTPAddresses = []string{strings.TrimPrefix(stub.srv.URL, "http://")}
		}
	}})
	if err != nil {
		return vx.Out{Obs: "world: " + err.Error(), Viol: []vx.Found{{Sig: "INFRA world :: policy", Detail: err.Error()}}}
	}
	defer w.Release()
	tlsRequired := w.Opts.TLSRequired != TLSNotRequired
	// plaintext HTTP
	hs := newHTTPServer(w.N, false, w.Opts.TLSRequired == TLSRequired)
	for _, route := range []string{"/ping", "/stats", "/pub?topic=h", "/topic/create?topic=h"} {
		m := "GET"
		if strings.HasPrefix(route, "/pub") || strings.HasPrefix(route, "/topic") {
			m = "POST"
		}
		req := httptest.NewRequest(m, route, strings.NewReader("x"))
		rec := httptest.NewRecorder()
		hs.ServeHTTP(rec, req)
		if w.Opts.TLSRequired == TLSRequired && rec.Code != 403 {
			bad("C11 plaintext HTTP served although TLS is required", "%s %s answered %d", m, route, rec.Code)
		}
		if w.Opts.TLSRequired != TLSRequired && rec.Code == 403 {
			bad("C11 plaintext HTTP refused although TLS is not required for HTTP", "%s %s answered 403", m, route)
		}
	}
	w.Quiesce()
	if w.Opts.TLSRequired == TLSRequired && w.Topic("h") != nil {
		bad("C11 refused HTTP request left a trace", "topic h exists")
	}

	c := w.Dial("x")
	var tc *tls.Conn
	send := func(line string, body []byte) {
		var b []byte
		b = append(b, line...)
		b = append(b, '\n')
		if body != nil {
			b = append(b, frameBody(body)...)
		}
		if tc != nil {
			tc.Write(b)
		} else {
			c.Raw(b)
		}
	}
	// read frames: over TLS the frames come through tc
	var tbuf []byte
	recv := func() []Frame {
		w.Quiesce()
		if tc == nil {
			return c.Take()
		}
		// decrypt whatever has arrived; tls.Conn.Read blocks, so only read while raw bytes
		// are buffered
		var out []Frame
		for {
			// (tls.Conn may hold records it read during the handshake: always try a read;
			// with nothing pending it ends on the 1 ns deadline)
			tmp := make([]byte, 65536)
			tc.SetReadDeadline(time.Unix(0, vrt.Now()+1))
			n, err := tc.Read(tmp)
			tbuf = append(tbuf, tmp[:n]...)
			if stdos.Getenv("C11_DEBUG") != "" {
				fmt.Fprintf(stdos.Stderr, "tls read n=%d err=%v raw=%d\n", n, err, c.C.Buffered())
			}
			if err != nil {
				break
			}
		}
		wc := &WConn{buf: tbuf}
		wc.parse()
		tbuf = wc.buf
		out = wc.Frames
		return out
	}
	snapshot := func() string {
		st := w.N.GetStats("", "", false)
		var s []string
		for _, t := range st.Topics {
			if t.TopicName == "h" {
				continue
			}
			x := fmt.Sprintf("%s:%d", t.TopicName, t.MessageCount)
			for _, ch := range t.Channels {
				x += "," + ch.ChannelName
			}
			s = append(s, x)
		}
		return strings.Join(s, ";")
	}
	isTLS, authed, dead := false, false, false
	fetchedAt := int64(0)
	ttl := 0
	var grant GrantSpec
	wantQueries := 0
	obs := ""
	for _, cmd := range spec.Seq {
		if dead {
			break
		}
		before := snapshot()
		p := strings.Split(cmd, ":")
		gated := ""
		topic, channel := "", ""
		switch p[0] {
		case "pub", "mpub", "dpub":
			gated, topic = "publish", p[1]
		case "sub":
			gated, topic, channel = "subscribe", p[1], p[2]
		}
		plaintextBlocked := tlsRequired && !isTLS
		// ---- send
		switch p[0] {
		case "identify":
			send("IDENTIFY", []byte(`{"client_id":"x"}`))
		case "identify_tls", "identify_tlscert", "identify_tlsselfsigned":
			if isTLS {
				// already upgraded: a further IDENTIFY is a plain one
				p[0] = "identify"
				send("IDENTIFY", []byte(`{"client_id":"x"}`))
			} else {
				send("IDENTIFY", []byte(`{"client_id":"x","tls_v1":true,"feature_negotiation":true}`))
			}
		case "auth":
			send("AUTH", []byte(p[1]))
		case "pub":
			send("PUB "+p[1], []byte("m"))
		case "mpub":
			send("MPUB "+p[1], mpubBody("m1", "m2"))
		case "dpub":
			send("DPUB "+p[1]+" 100", []byte("m"))
		case "sub":
			send("SUB "+p[1]+" "+p[2], nil)
		case "nop":
			send("NOP", nil)
		case "adv":
			vrt.SleepFor(int64(ttl+1) * int64(time.Second) / 2) // half of ttl+1 s, twice => beyond the TTL
			send("NOP", nil)
			vrt.SleepFor(int64(ttl+1) * int64(time.Second) / 2)
			send("NOP", nil)
		}
		fs := recv()
		got := classify(fs)
		// ---- TLS upgrade
		if strings.HasPrefix(p[0], "identify_tls") && got == "JSON" {
			var resp struct {
				TLSv1 bool `json:"tls_v1"`
			}
			for _, f := range fs {
				if f.Type == frameTypeResponse {
					json.Unmarshal(f.Data, &resp)
				}
			}
			if resp.TLSv1 {
				cfg := &tls.Config{InsecureSkipVerify: true}
				switch p[0] {
				case "identify_tlscert":
					cert, err := tls.LoadX509KeyPair(certs+"client.pem", certs+"client.key")
					if err == nil {
						cfg.Certificates = []tls.Certificate{cert}
					}
				case "identify_tlsselfsigned":
					cert, err := tls.LoadX509KeyPair(certs+"cert.pem", certs+"key.pem")
					if err == nil {
						// offered regardless of the CAs the server announces
						cfg.GetClientCertificate = func(*tls.CertificateRequestInfo) (*tls.Certificate, error) { return &cert, nil }
					}
				}
				c.NoPoll = true
				tc = tls.Client(c.C, cfg)
				herr := tc.Handshake()
				shouldFail := (spec.ClientAuth == "require" && p[0] == "identify_tls") || (spec.ClientAuth == "require-verify" && p[0] != "identify_tlscert")
				okFrame := ""
				if herr == nil {
					okFrame = classify(recv())
				}
				// TLS 1.3: a rejected client certificate surfaces on the first read
				failed := herr != nil || okFrame != "OK"
				if failed != shouldFail {
					bad("C11 client certificate policy not enforced", "%s under policy %q: handshake err=%v, first frame %q", p[0], spec.ClientAuth, herr, okFrame)
				}
				if failed {
					dead = true
					obs += "tlsfail,"
					continue
				}
				isTLS = true
				got = "TLSOK"
			}
		}
		obs += got + ","
		c.Poll()
		closed := c.Closed
		// ---- expectation
		switch {
		case strings.HasPrefix(p[0], "identify"):
			// IDENTIFY is the one command allowed in plaintext
			if got != "OK" && got != "JSON" && got != "TLSOK" {
				bad("C11 C09 IDENTIFY refused", "%s answered %s", cmd, got)
			}
			if p[0] != "identify" && spec.TLS == "none" && spec.ClientAuth == "" && isTLS {
				bad("C11 TLS negotiated without a certificate configured", "")
			}
		case plaintextBlocked:
			if got != "E_INVALID" || !closed {
				bad("C11 command executed on a plaintext connection although TLS is required", "%s answered %s (closed=%v)", cmd, got, closed)
			}
			dead = true
			if after := snapshot(); after != before {
				bad("C11 denied command left a trace", "%s: before %q after %q", cmd, before, after)
			}
		case p[0] == "auth":
			if !spec.Auth {
				if got != "E_AUTH_DISABLED" {
					bad("C11 AUTH without an auth server", "answered %s", got)
				}
				dead = true
				break
			}
			if authed {
				if got != "E_INVALID" {
					bad("C11 second AUTH accepted", "answered %s", got)
				}
				dead = true
				break
			}
			wantQueries++
			g := spec.Grants[min(wantQueries-1, len(spec.Grants)-1)]
			switch {
			case p[1] != "good" || g.Fault == "500" || g.Fault == "garbage":
				if got != "E_AUTH_FAILED" {
					bad("C11 failed AUTH not answered E_AUTH_FAILED", "answered %s", got)
				}
				dead = true
			case g.Fault == "empty":
				if got != "E_UNAUTHORIZED" {
					bad("C11 AUTH with no authorizations not answered E_UNAUTHORIZED", "answered %s", got)
				}
				dead = true
			default:
				if got != "JSON" {
					bad("C11 valid AUTH refused", "answered %s", got)
					dead = true
				} else {
					authed, grant, ttl, fetchedAt = true, g, g.TTL, vrt.Now()
				}
			}
		case gated != "" && spec.Auth:
			if !authed {
				if got != "E_AUTH_FIRST" || !closed {
					bad("C11 command executed before AUTH", "%s answered %s (closed=%v)", cmd, got, closed)
				}
				dead = true
				if after := snapshot(); after != before {
					bad("C11 denied command left a trace", "%s: before %q after %q", cmd, before, after)
				}
				break
			}
			if vrt.Now() > fetchedAt+int64(ttl)*int64(time.Second) {
				wantQueries++
				g := spec.Grants[min(wantQueries-1, len(spec.Grants)-1)]
				if g.Fault == "500" || g.Fault == "garbage" {
					if got != "E_AUTH_FAILED" {
						bad("C11 command executed although the authorization could not be re-fetched", "%s answered %s", cmd, got)
					}
					dead = true
					if after := snapshot(); after != before {
						bad("C11 denied command left a trace", "%s: before %q after %q", cmd, before, after)
					}
					break
				}
				grant, ttl, fetchedAt = g, g.TTL, vrt.Now()
			}
			allow, deny := grantAllows(grant, gated, topic, channel)
			okResp := got == "OK"
			if deny && okResp {
				bad("C11 command executed without the permission", "%s answered OK under grant %+v", cmd, grant)
			}
			if allow && !okResp {
				bad("C11 permitted command refused", "%s answered %s under grant %+v", cmd, got, grant)
			}
			if !okResp {
				if got != "E_UNAUTHORIZED" {
					bad("C11 denial not answered E_UNAUTHORIZED", "%s answered %s", cmd, got)
				}
				dead = true
				if after := snapshot(); after != before {
					bad("C11 denied command left a trace", "%s: before %q after %q", cmd, before, after)
				}
			} else if p[0] == "sub" {
				// a second SUB is a protocol error: end the sequence here
				dead = true
			}
		case gated != "":
			if got != "OK" {
				bad("C11 C09 valid command refused", "%s answered %s", cmd, got)
				dead = true
			}
			if p[0] == "sub" {
				dead = true
			}
		}
	}
	if stub != nil {
		stub.mu.Lock()
		q := stub.queries
		stub.mu.Unlock()
		if q != wantQueries {
			bad("C11 auth server queried a different number of times than TTL expiry dictates", "queries=%d, expected %d (sequence %v)", q, wantQueries, spec.Seq)
		}
	}
	return vx.Out{Obs: obs, Viol: viol}
}

func min(a, b int) int {
	if a < b {
		return a
	}
	return b
}
