//go:build go1.18 && verif

package nsqd

// E1/E2 over the START-UP of a daemon on a data path left by a graceful shutdown (C05,
// "comes back on each of its channels"): the data path holds a topic that is not paused, has
// two channels, and still has messages in its own queue - the state `publish || Exit` leaves
// when the topic's pump sees the exit signal before the message (reached by the E1
// exploration of that scenario: "flushing 1 memory messages to backend"). The restart -
// New, LoadMetadata, PersistMetadata, the loops - is the operation inside the window: the
// re-created topic's pump, the disk queues' ioLoops and the loading thread interleave.

import (
	"encoding/json"
	"fmt"
	stdos "os"
	"time"

	"github.com/nsqio/nsq/internal/verif/vrt"
	"github.com/nsqio/nsq/internal/verif/vsync"
	"github.com/nsqio/nsq/internal/verif/vx"
)

func runRestartScenario(spec MicroSpec) vx.Out {
	var viol []vx.Found
	bad := func(clause, f string, a ...interface{}) {
		viol = append(viol, vx.Found{Sig: clause + " :: micro " + spec.String(), Detail: fmt.Sprintf(f, a...)})
	}
	dir := FreshDir()
	w, err := NewWorld(dir, WOpts{MemQ: spec.MemQ, NoLoops: true, MaxBytesPerFile: 4096})
	if err != nil {
		return vx.Out{Obs: "SETUP-FAILED " + err.Error(), Viol: []vx.Found{{Sig: "INFRA setup failed :: micro " + spec.String(), Detail: err.Error()}}}
	}
	w.N.waitGroup.Wrap(w.N.lookupLoop)
	for _, u := range []string{"/topic/create?topic=t", "/channel/create?topic=t&channel=c", "/channel/create?topic=t&channel=c2", "/topic/pause?topic=t"} {
		if code, _ := w.Do("POST", u, nil); code != 200 {
			w.Release()
			return vx.Out{Obs: "SETUP-FAILED " + u, Viol: []vx.Found{{Sig: "INFRA setup failed :: micro " + spec.String(), Detail: u}}}
		}
		w.Quiesce()
	}
	bodies := []string{"m1", "m2"}
	for _, b := range bodies {
		w.Do("POST", "/pub?topic=t", []byte(b))
		w.Quiesce()
	}
	w.N.Exit()
	w.exited = true
	w.Release()
	// the same data path with the topic not paused (see the file comment for why this state
	// is one a graceful shutdown leaves)
	metaFile := dir + "/nsqd.dat"
	raw, _ := stdos.ReadFile(metaFile)
	var meta map[string]interface{}
	if json.Unmarshal(raw, &meta) != nil {
		return vx.Out{Obs: "SETUP-FAILED metadata", Viol: []vx.Found{{Sig: "INFRA setup failed :: micro " + spec.String(), Detail: "nsqd.dat unreadable: " + string(raw)}}}
	}
	for _, t := range meta["topics"].([]interface{}) {
		t.(map[string]interface{})["paused"] = false
	}
	raw, _ = json.Marshal(meta)
	stdos.WriteFile(metaFile, raw, 0644)

	// ---- the window: the restart
	var w2 *World
	var wg vsync.WaitGroup
	wg.Add(1)
	vrt.Window(true)
	vrt.GoNamed("restart", func() {
		w2, err = NewWorld(dir, WOpts{MemQ: spec.MemQ, MaxBytesPerFile: 4096})
		wg.Done()
	})
	wg.Wait()
	vrt.Quiesce()
	vrt.Window(false)
	if err != nil || w2 == nil {
		bad("C05 C06 restart on the same data path failed", "%v", err)
		return vx.Out{Obs: "restart failed", Viol: viol}
	}
	defer w2.Release()
	got := map[string]map[string]int{}
	for _, ch := range []string{"c", "c2"} {
		got[ch] = map[string]int{}
		if w2.Channel("t", ch) == nil {
			bad("C05 channels differ after restart", "channel %s is missing after the restart", ch)
			continue
		}
		d := w2.Dial("drain-" + ch)
		d.Identify(map[string]interface{}{"client_id": "drain-" + ch, "output_buffer_size": -1})
		d.Cmd("SUB t "+ch, nil)
		w2.Quiesce()
		d.Cmd("RDY 10", nil)
		for round := 0; round < 4; round++ {
			w2.Quiesce()
			for _, f := range d.Take() {
				if f.Type == frameTypeMessage {
					got[ch][f.Body]++
					d.Cmd("FIN "+f.ID, nil)
				}
			}
			w2.Sleep(600 * time.Millisecond)
		}
	}
	for _, b := range bodies {
		for _, ch := range []string{"c", "c2"} {
			if got[ch][b] == 0 {
				bad("C05 C01 message in the topic's queue at shutdown not delivered on each of its channels after the restart", "%s was acknowledged and still in topic t's own queue when nsqd shut down; topic t has channels c and c2; after the restart channel c delivered %v and channel c2 delivered %v", b, got["c"], got["c2"])
				break
			}
		}
	}
	return vx.Out{Obs: fmt.Sprintf("restart | c=%v c2=%v", got["c"], got["c2"]), Viol: viol}
}
