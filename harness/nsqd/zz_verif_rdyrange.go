//go:build go1.18 && verif

package nsqd

// C03, "RDY values outside [0, max-rdy-count] are refused": every spelling of a RDY argument
// from a finite set built around the integer boundaries x max-rdy-count setting x connection
// state, on a real nsqd; the reference is arbitrary-precision arithmetic on the digit string.

import (
	"fmt"
	"math/big"
	"sync/atomic"
	"time"

	"github.com/nsqio/nsq/internal/verif/vx"
)

type RdySpec struct {
	Arg    string `json:"arg"`
	MaxRdy int64  `json:"max_rdy"`
	// "fresh": just subscribed; "rdy1": after an accepted RDY 1 with one message held;
	// "closing": after CLS
	State   string `json:"state"`
	Backlog int    `json:"backlog"`
}

// RdyArgs: the argument spellings enumerated for a given max-rdy-count.
func RdyArgs(max int64) []string {
	args := []string{"0", "1", "2", "00", "01", "007", "-0", "-1", "+1", "1.0", "1e2", "0x1", "x", "1x", "", "٣"}
	add := func(b *big.Int) {
		for _, d := range []int64{-1, 0, 1} {
			v := new(big.Int).Add(b, big.NewInt(d))
			if v.Sign() >= 0 {
				args = append(args, v.String())
			}
		}
	}
	add(big.NewInt(max))
	for _, e := range []uint{8, 15, 16, 31, 32, 53, 62, 63, 64, 65, 127, 128} {
		add(new(big.Int).Lsh(big.NewInt(1), e))
	}
	args = append(args, "100000000000000000000", "99999999999999999999999999999999999999999", "0000000000000000000000000000000000000001")
	seen := map[string]bool{}
	var out []string
	for _, a := range args {
		if !seen[a] {
			seen[a] = true
			out = append(out, a)
		}
	}
	return out
}

func RunRdyRange(s RdySpec) vx.Out {
	desc := fmt.Sprintf("rdyrange max=%d state=%s backlog=%d arg=%q", s.MaxRdy, s.State, s.Backlog, s.Arg)
	var viol []vx.Found
	bad := func(clause, f string, a ...interface{}) {
		viol = append(viol, vx.Found{Sig: clause + " :: rdyrange " + s.State, Detail: desc + ": " + fmt.Sprintf(f, a...)})
	}
	w, err := NewWorld(FreshDir(), WOpts{MemQ: 100, Mod: func(o *Options) { o.MaxRdyCount = s.MaxRdy }})
	if err != nil {
		return vx.Out{Obs: "world: " + err.Error(), Viol: []vx.Found{{Sig: "INFRA world :: rdyrange", Detail: err.Error()}}}
	}
	defer w.Release()
	c := w.Dial("x")
	c.Cmd("SUB t c", nil)
	w.Quiesce()
	c.Take()
	held := 0
	for i := 0; i < s.Backlog; i++ {
		w.Do("POST", "/pub?topic=t", []byte(fmt.Sprintf("m%d", i+1)))
	}
	switch s.State {
	case "rdy1":
		c.Cmd("RDY 1", nil)
		w.Quiesce()
		w.Sleep(300 * time.Millisecond)
		w.Quiesce()
		for _, f := range c.Take() {
			if f.Type == frameTypeMessage {
				held++
			}
		}
	case "closing":
		c.Cmd("CLS", nil)
		w.Quiesce()
		c.Take()
	}
	line := "RDY " + s.Arg
	if s.Arg == "" {
		line = "RDY"
	}
	c.Cmd(line, nil)
	w.Quiesce()
	w.Sleep(300 * time.Millisecond) // the output-buffer timeout: what was sent has arrived
	w.Quiesce()
	// the reference: digits only, value in [0, max]; a bare RDY means 1
	want := int64(-1)
	if s.Arg == "" {
		want = 1
	} else {
		digits := true
		for _, ch := range []byte(s.Arg) {
			if ch < '0' || ch > '9' {
				digits = false
			}
		}
		if digits {
			v, _ := new(big.Int).SetString(s.Arg, 10)
			if v.IsInt64() && v.Int64() <= s.MaxRdy {
				want = v.Int64()
			}
		}
	}
	if want > s.MaxRdy {
		want = -1
	}
	fs := c.Take()
	msgs, errc := 0, ""
	for _, f := range fs {
		switch f.Type {
		case frameTypeMessage:
			msgs++
		case frameTypeError:
			errc = classify([]Frame{f})
		}
	}
	c.Poll()
	obs := fmt.Sprintf("want=%v err=%s msgs=%d closed=%v", want >= 0, errc, msgs, c.Closed)
	var rc int64
	var cl *clientV2
	if ch := w.Channel("t", "c"); ch != nil {
		ch.RLock()
		for _, x := range ch.clients {
			cl = x.(*clientV2)
		}
		ch.RUnlock()
	}
	if cl != nil {
		rc = atomic.LoadInt64(&cl.ReadyCount)
		if rc < 0 || rc > s.MaxRdy {
			bad("C03 ready count outside [0, max-rdy-count]", "the connection's ready count is %d", rc)
		}
	}
	if s.State == "closing" {
		// after CLS a RDY is ignored: nothing more is sent, whatever the value
		if msgs > 0 {
			bad("C03 message sent after CLS", "%d message(s) arrived after RDY following CLS", msgs)
		}
		return vx.Out{Obs: obs, Viol: viol}
	}
	if want < 0 {
		if errc != "E_INVALID" {
			bad("C03 RDY outside [0, max-rdy-count] not refused", "answered %q (the range error is E_INVALID), ready count now %d", errc, rc)
		}
		if !c.Closed {
			bad("C03 RDY outside [0, max-rdy-count] not refused", "the connection stays open (the range error is fatal)")
		}
		if msgs > 0 {
			bad("C03 message sent on a refused RDY", "%d message(s) arrived", msgs)
		}
		return vx.Out{Obs: obs, Viol: viol}
	}
	if errc != "" || c.Closed {
		bad("C03 RDY inside [0, max-rdy-count] refused", "answered %q closed=%v", errc, c.Closed)
		return vx.Out{Obs: obs, Viol: viol}
	}
	// delivered so far: min(want - held, what is queued), never more than the new RDY allows
	room := want - int64(held)
	if room < 0 {
		room = 0
	}
	avail := int64(s.Backlog - held)
	exp := room
	if avail < exp {
		exp = avail
	}
	if int64(msgs) > room {
		bad("C03 more messages in flight than RDY", "RDY %d with %d held: %d more arrived", want, held, msgs)
	} else if int64(msgs) != exp {
		bad("C03 ready consumer not served", "RDY %d with %d held and %d queued: %d arrived, expected %d", want, held, avail, msgs, exp)
	}
	return vx.Out{Obs: obs, Viol: viol}
}
