//go:build go1.18 && verif

package nsqd

// C09: the TCP protocol against a table-driven reference model (E3 over command
// sequences) and robustness against bounded garbage (E5). Runs in a world: a panic in any
// daemon goroutine is a captured failure of the execution.

import (
	"bytes"
	"encoding/binary"
	"encoding/json"
	"fmt"
	"strings"

	"github.com/nsqio/nsq/internal/verif/vx"
)

const (
	pMaxMsg  = 64
	pMaxBody = 256
	pMaxRdy  = 10
)

type pstate struct {
	hbOff  bool   // heartbeats disabled by IDENTIFY
	st     string // init | sub | closing | dead
	counts map[string]int
	chans  map[string]bool
}

type pexp struct {
	resp  []string // acceptable response classes
	fatal bool
	apply func(s *pstate)
}

// PVariant is one command variant of the alphabet.
type PVariant struct {
	Name   string
	bytes  []byte
	half   bool // half-close the connection after sending (truncated input)
	expect func(s *pstate) pexp
}

// Bytes returns what the variant puts on the wire.
func (v PVariant) Bytes() []byte { return v.bytes }

func frameBody(b []byte) []byte {
	var w bytes.Buffer
	binary.Write(&w, binary.BigEndian, int32(len(b)))
	w.Write(b)
	return w.Bytes()
}

func sized(n int32, b []byte) []byte {
	var w bytes.Buffer
	binary.Write(&w, binary.BigEndian, n)
	w.Write(b)
	return w.Bytes()
}

func cat(parts ...[]byte) []byte { return bytes.Join(parts, nil) }

func fatal(codes ...string) pexp { return pexp{resp: codes, fatal: true} }

var fakeID = "0123456789abcdef"

func validName(n string) bool {
	base := strings.TrimSuffix(n, "#ephemeral")
	if len(n) < 1 || len(n) > 64 || base == "" {
		return false
	}
	for _, c := range base {
		if !(c == '.' || c == '_' || c == '-' || (c >= 'a' && c <= 'z') || (c >= 'A' && c <= 'Z') || (c >= '0' && c <= '9')) {
			return false
		}
	}
	return true
}

// PVariants builds the alphabet. The model is the nsq protocol document: command, state,
// argument class -> response class, fatal or not, effect.
func PVariants() []PVariant {
	var vs []PVariant
	add := func(name string, b []byte, ex func(s *pstate) pexp) {
		vs = append(vs, PVariant{Name: name, bytes: b, expect: ex})
	}
	pubOK := func(topic string, n int) func(s *pstate) pexp {
		return func(s *pstate) pexp {
			return pexp{resp: []string{"OK"}, apply: func(s *pstate) { s.counts[topic] += n }}
		}
	}
	body := func(n int) []byte { return bytes.Repeat([]byte("x"), n) }
	names := map[string]string{"bad": "t$", "long": strings.Repeat("a", 65), "empty": "", "ephonly": "#ephemeral", "ephx": "t#ephemeralx", "max64": strings.Repeat("b", 64),
		// the 64-byte limit counts the #ephemeral suffix: 54+10 is the longest legal one
		"eph64": strings.Repeat("c", 54) + "#ephemeral", "eph65": strings.Repeat("c", 55) + "#ephemeral", "eph74": strings.Repeat("c", 64) + "#ephemeral"}

	// ---- IDENTIFY
	ident := func(name string, js string, ok bool) {
		add("IDENTIFY "+name, cat([]byte("IDENTIFY\n"), frameBody([]byte(js))), func(s *pstate) pexp {
			if s.st != "init" {
				return fatal("E_INVALID")
			}
			if !ok {
				return fatal("E_BAD_BODY")
			}
			ap := func(s *pstate) {
				if strings.Contains(js, `"heartbeat_interval":-1`) {
					s.hbOff = true
				} else if strings.Contains(js, `"heartbeat_interval":1000`) || strings.Contains(js, `"heartbeat_interval":60000`) {
					s.hbOff = false
				}
			}
			if strings.Contains(js, `"feature_negotiation":true`) {
				return pexp{resp: []string{"JSON"}, apply: ap}
			}
			return pexp{resp: []string{"OK"}, apply: ap}
		})
	}
	ident("plain", `{"client_id":"x"}`, true)
	ident("negotiate", `{"client_id":"x","feature_negotiation":true}`, true)
	for _, c := range []struct {
		f  string
		v  string
		ok bool
	}{{"heartbeat_interval", "999", false}, {"heartbeat_interval", "1000", true}, {"heartbeat_interval", "60000", true}, {"heartbeat_interval", "60001", false}, {"heartbeat_interval", "-1", true}, {"heartbeat_interval", `"x"`, false},
		// far out of range, chosen so that a conversion to nanoseconds wraps into the range
		{"heartbeat_interval", "18446744074710", false}, {"heartbeat_interval", "9223372036855", false}, {"heartbeat_interval", "4294968296", false},
		{"msg_timeout", "18446744074710", false}, {"msg_timeout", "9223372036855", false}, {"msg_timeout", "4294968296", false},
		{"output_buffer_timeout", "18446744073735", false}, {"output_buffer_size", "4294967360", false},
		{"output_buffer_size", "63", false}, {"output_buffer_size", "64", true}, {"output_buffer_size", "65536", true}, {"output_buffer_size", "65537", false}, {"output_buffer_size", "-1", true},
		{"output_buffer_timeout", "24", false}, {"output_buffer_timeout", "25", true}, {"output_buffer_timeout", "30000", true}, {"output_buffer_timeout", "30001", false}, {"output_buffer_timeout", "-1", true},
		{"msg_timeout", "999", false}, {"msg_timeout", "1000", true}, {"msg_timeout", "900000", true}, {"msg_timeout", "900001", false}, {"msg_timeout", "-1", false},
		{"sample_rate", "-1", false}, {"sample_rate", "0", true}, {"sample_rate", "99", true}, {"sample_rate", "100", false}} {
		ident(c.f+"="+c.v, `{"`+c.f+`":`+c.v+`}`, c.ok)
	}
	ident("null", `null`, true)
	ident("array", `[]`, false)
	ident("garbage", `{"client_id":`, false)
	add("IDENTIFY size0", cat([]byte("IDENTIFY\n"), sized(0, nil)), func(s *pstate) pexp {
		if s.st != "init" {
			return fatal("E_INVALID")
		}
		return fatal("E_BAD_BODY")
	})
	add("IDENTIFY size-1", cat([]byte("IDENTIFY\n"), sized(-1, nil)), func(s *pstate) pexp {
		if s.st != "init" {
			return fatal("E_INVALID")
		}
		return fatal("E_BAD_BODY")
	})
	add("IDENTIFY size>max", cat([]byte("IDENTIFY\n"), sized(pMaxBody+1, nil)), func(s *pstate) pexp {
		if s.st != "init" {
			return fatal("E_INVALID")
		}
		return fatal("E_BAD_BODY")
	})

	// ---- SUB
	sub := func(name, topic, ch string) {
		add("SUB "+name, []byte("SUB "+topic+" "+ch+"\n"), func(s *pstate) pexp {
			if s.st != "init" || s.hbOff {
				return fatal("E_INVALID") // (SUB needs heartbeats)
			}
			if !validName(topic) {
				return fatal("E_BAD_TOPIC")
			}
			if !validName(ch) {
				return fatal("E_BAD_CHANNEL")
			}
			return pexp{resp: []string{"OK"}, apply: func(s *pstate) { s.st = "sub"; s.chans[topic+"/"+ch] = true }}
		})
	}
	sub("t c", "t", "c")
	sub("t c#ephemeral", "t", "c#ephemeral")
	sub("max64 names", names["max64"], names["max64"])
	for k, n := range names {
		if k != "max64" && k != "empty" {
			sub("badtopic:"+k, n, "c")
			sub("badchan:"+k, "t", n)
		}
	}
	add("SUB missing channel", []byte("SUB t\n"), func(s *pstate) pexp { return fatal("E_INVALID") })
	add("SUB no params", []byte("SUB\n"), func(s *pstate) pexp { return fatal("E_INVALID") })

	// ---- PUB
	add("PUB t 1", cat([]byte("PUB t\n"), frameBody(body(1))), pubOK("t", 1))
	add("PUB t max", cat([]byte("PUB t\n"), frameBody(body(pMaxMsg))), pubOK("t", 1))
	add("PUB u#ephemeral", cat([]byte("PUB u#ephemeral\n"), frameBody(body(3))), pubOK("u#ephemeral", 1))
	add("PUB t max+1", cat([]byte("PUB t\n"), sized(pMaxMsg+1, body(pMaxMsg+1))), func(s *pstate) pexp { return fatal("E_BAD_MESSAGE") })
	add("PUB t size0", cat([]byte("PUB t\n"), sized(0, nil)), func(s *pstate) pexp { return fatal("E_BAD_MESSAGE") })
	add("PUB t size-1", cat([]byte("PUB t\n"), sized(-1, nil)), func(s *pstate) pexp { return fatal("E_BAD_MESSAGE") })
	add("PUB t size2^31-1", cat([]byte("PUB t\n"), sized(2147483647, body(8))), func(s *pstate) pexp { return fatal("E_BAD_MESSAGE") })
	add("PUB no topic", []byte("PUB\n"), func(s *pstate) pexp { return fatal("E_INVALID") })
	for k, n := range names {
		if k != "max64" && k != "empty" {
			n := n
			if validName(n) {
				add("PUB edgetopic:"+k, cat([]byte("PUB "+n+"\n"), frameBody(body(1))), pubOK(n, 1))
			} else {
				add("PUB badtopic:"+k, cat([]byte("PUB "+n+"\n"), frameBody(body(1))), func(s *pstate) pexp { return fatal("E_BAD_TOPIC") })
			}
		}
	}
	vs = append(vs, PVariant{Name: "PUB t truncated", bytes: cat([]byte("PUB t\n"), sized(10, body(3))), half: true, expect: func(s *pstate) pexp { return fatal("E_BAD_MESSAGE") }})

	// ---- MPUB
	mp := func(bodies ...[]byte) []byte {
		var w bytes.Buffer
		binary.Write(&w, binary.BigEndian, int32(len(bodies)))
		for _, b := range bodies {
			w.Write(frameBody(b))
		}
		return w.Bytes()
	}
	add("MPUB t 2", cat([]byte("MPUB t\n"), frameBody(mp(body(1), body(2)))), pubOK("t", 2))
	add("MPUB t 1", cat([]byte("MPUB t\n"), frameBody(mp(body(pMaxMsg)))), pubOK("t", 1))
	add("MPUB t maxcount", cat([]byte("MPUB t\n"), func() []byte {
		n := (pMaxBody - 4) / 5
		var bs [][]byte
		for i := 0; i < n; i++ {
			bs = append(bs, body(1))
		}
		return frameBody(mp(bs...))
	}()), pubOK("t", (pMaxBody-4)/5))
	badBody := func(s *pstate) pexp { return fatal("E_BAD_BODY") }
	badMsg := func(s *pstate) pexp { return fatal("E_BAD_MESSAGE") }
	add("MPUB t body0", cat([]byte("MPUB t\n"), sized(0, nil)), badBody)
	add("MPUB t body-1", cat([]byte("MPUB t\n"), sized(-1, nil)), badBody)
	add("MPUB t body>max", cat([]byte("MPUB t\n"), sized(pMaxBody+1, nil)), badBody)
	add("MPUB t count0", cat([]byte("MPUB t\n"), sized(8, sized(0, nil))), badBody)
	add("MPUB t count-1", cat([]byte("MPUB t\n"), sized(8, sized(-1, nil))), badBody)
	add("MPUB t count>max", cat([]byte("MPUB t\n"), sized(8, sized((pMaxBody-4)/5+1, nil))), badBody)
	add("MPUB t 2nd size0", cat([]byte("MPUB t\n"), sized(20, cat(sized(2, nil), frameBody(body(1)), sized(0, nil)))), badMsg)
	add("MPUB t 2nd size-1", cat([]byte("MPUB t\n"), sized(20, cat(sized(2, nil), frameBody(body(1)), sized(-1, nil)))), badMsg)
	add("MPUB t 2nd >max", cat([]byte("MPUB t\n"), sized(20, cat(sized(2, nil), frameBody(body(1)), sized(pMaxMsg+1, nil)))), badMsg)
	add("MPUB t 1st size0", cat([]byte("MPUB t\n"), sized(20, cat(sized(2, nil), sized(0, nil)))), badMsg)
	add("MPUB no topic", []byte("MPUB\n"), func(s *pstate) pexp { return fatal("E_INVALID") })
	add("MPUB badtopic", cat([]byte("MPUB t$\n"), frameBody(mp(body(1)))), func(s *pstate) pexp { return fatal("E_BAD_TOPIC") })
	vs = append(vs, PVariant{Name: "MPUB t truncated 2nd", bytes: cat([]byte("MPUB t\n"), sized(30, cat(sized(2, nil), frameBody(body(1)), sized(5, body(2))))), half: true, expect: badMsg})

	// ---- DPUB
	add("DPUB t 100", cat([]byte("DPUB t 100\n"), frameBody(body(1))), pubOK("t", 1))
	add("DPUB t 0", cat([]byte("DPUB t 0\n"), frameBody(body(1))), pubOK("t", 1))
	add("DPUB t max", cat([]byte("DPUB t 3600000\n"), frameBody(body(1))), pubOK("t", 1))
	inval := func(s *pstate) pexp { return fatal("E_INVALID") }
	add("DPUB t max+1", cat([]byte("DPUB t 3600001\n"), frameBody(body(1))), inval)
	add("DPUB t -1", cat([]byte("DPUB t -1\n"), frameBody(body(1))), inval)
	add("DPUB t abc", cat([]byte("DPUB t abc\n"), frameBody(body(1))), inval)
	add("DPUB t huge", cat([]byte("DPUB t 18446744073710\n"), frameBody(body(1))), inval)
	add("DPUB missing defer", cat([]byte("DPUB t\n"), frameBody(body(1))), inval)
	add("DPUB badtopic", cat([]byte("DPUB t$ 10\n"), frameBody(body(1))), func(s *pstate) pexp { return fatal("E_BAD_TOPIC") })
	add("DPUB t 10 size0", cat([]byte("DPUB t 10\n"), sized(0, nil)), badMsg)
	add("DPUB t 10 max+1", cat([]byte("DPUB t 10\n"), sized(pMaxMsg+1, body(pMaxMsg+1))), badMsg)

	// ---- RDY
	rdy := func(arg string, ok bool) {
		add("RDY "+arg, []byte("RDY "+arg+"\n"), func(s *pstate) pexp {
			switch s.st {
			case "closing":
				return pexp{resp: []string{"NONE"}}
			case "sub":
				if ok {
					return pexp{resp: []string{"NONE"}}
				}
				return fatal("E_INVALID")
			}
			return fatal("E_INVALID")
		})
	}
	rdy("0", true)
	rdy("1", true)
	rdy(fmt.Sprint(pMaxRdy), true)
	rdy(fmt.Sprint(pMaxRdy+1), false)
	rdy("-1", false)
	rdy("x", false)
	rdy("18446744073709551616", false)
	rdy("9223372036854775808", false)
	rdy("18446744073709551615", false)
	add("RDY (no arg)", []byte("RDY\n"), func(s *pstate) pexp {
		if s.st == "sub" || s.st == "closing" {
			return pexp{resp: []string{"NONE"}}
		}
		return fatal("E_INVALID")
	})

	// ---- FIN / REQ / TOUCH with an id this connection does not hold
	ans := func(cmd, line, code string, okParams bool) {
		add(cmd, []byte(line+"\n"), func(s *pstate) pexp {
			if s.st != "sub" && s.st != "closing" {
				return fatal("E_INVALID")
			}
			if !okParams {
				return fatal("E_INVALID")
			}
			return pexp{resp: []string{code}}
		})
	}
	ans("FIN unknown id", "FIN "+fakeID, "E_FIN_FAILED", true)
	ans("FIN id15", "FIN "+fakeID[:15], "", false)
	ans("FIN id17", "FIN "+fakeID+"0", "", false)
	ans("FIN no id", "FIN", "", false)
	ans("REQ unknown id", "REQ "+fakeID+" 0", "E_REQ_FAILED", true)
	ans("REQ no timeout", "REQ "+fakeID, "", false)
	ans("REQ bad timeout", "REQ "+fakeID+" x", "", false)
	ans("REQ huge timeout", "REQ "+fakeID+" 18446744073710", "E_REQ_FAILED", true)
	ans("REQ id15", "REQ "+fakeID[:15]+" 0", "", false)
	ans("TOUCH unknown id", "TOUCH "+fakeID, "E_TOUCH_FAILED", true)
	ans("TOUCH no id", "TOUCH", "", false)
	ans("TOUCH id17", "TOUCH "+fakeID+"0", "", false)

	// ---- CLS / NOP / AUTH / unknown
	add("CLS", []byte("CLS\n"), func(s *pstate) pexp {
		if s.st != "sub" {
			return fatal("E_INVALID")
		}
		return pexp{resp: []string{"CLOSE_WAIT"}, apply: func(s *pstate) { s.st = "closing" }}
	})
	add("NOP", []byte("NOP\n"), func(s *pstate) pexp { return pexp{resp: []string{"NONE"}} })
	add("NOP crlf", []byte("NOP\r\n"), func(s *pstate) pexp { return pexp{resp: []string{"NONE"}} })
	add("AUTH (auth disabled)", cat([]byte("AUTH\n"), frameBody([]byte("secret"))), func(s *pstate) pexp {
		if s.st != "init" {
			return fatal("E_INVALID")
		}
		return fatal("E_AUTH_DISABLED")
	})
	add("AUTH extra param", cat([]byte("AUTH x\n"), frameBody([]byte("secret"))), func(s *pstate) pexp { return fatal("E_INVALID") })
	add("unknown command", []byte("HELLO\n"), inval)
	add("empty line", []byte("\n"), inval)
	add("lowercase pub", cat([]byte("pub t\n"), frameBody(body(1))), inval)
	return vs
}

func classify(fs []Frame) string {
	for _, f := range fs {
		switch f.Type {
		case frameTypeError:
			return strings.SplitN(string(f.Data), " ", 2)[0]
		case frameTypeResponse:
			d := string(f.Data)
			if d == "_heartbeat_" {
				continue
			}
			if strings.HasPrefix(d, "{") {
				var x map[string]interface{}
				if json.Unmarshal(f.Data, &x) != nil {
					return "BADJSON"
				}
				return "JSON"
			}
			return d
		}
	}
	return "NONE"
}

type protoWorld struct {
	w    *World
	by   *WConn // bystander consumer on bt/bc
	viol []vx.Found
	desc string
	seq  int
}

func (p *protoWorld) bad(clause, f string, a ...interface{}) {
	p.viol = append(p.viol, vx.Found{Sig: clause + " :: proto " + p.desc, Detail: fmt.Sprintf(f, a...)})
}

func newProtoWorld(desc string) (*protoWorld, string) {
	w, err := NewWorld(FreshDir(), WOpts{MemQ: 100, Mod: func(o *Options) {
		o.MaxMsgSize, o.MaxBodySize, o.MaxRdyCount = pMaxMsg, pMaxBody, pMaxRdy
	}})
	if err != nil {
		return nil, err.Error()
	}
	p := &protoWorld{w: w, desc: desc}
	p.by = w.Dial("by")
	p.by.Cmd("SUB bt bc", nil)
	p.by.Next()
	p.by.Cmd("RDY 1", nil)
	w.Quiesce()
	return p, ""
}

// bystanderOK: another client is unaffected: it still receives (and can finish) a message.
func (p *protoWorld) bystanderOK(when string) {
	p.seq++
	body := fmt.Sprintf("by%d", p.seq)
	if code, _ := p.w.Do("POST", "/pub?topic=bt", []byte(body)); code != 200 {
		p.bad("C09 daemon stopped serving other clients", "%s: publish for the bystander answered %d", when, code)
		return
	}
	p.w.Quiesce()
	got := false
	for _, f := range p.by.Take() {
		if f.Type == frameTypeMessage && f.Body == body {
			got = true
			p.by.Cmd("FIN "+f.ID, nil)
		} else if f.Type == frameTypeError {
			p.bad("C09 bystander connection got an error", "%s: %s", when, f.Data)
		}
	}
	p.w.Quiesce()
	if !got || p.by.Closed {
		p.bad("C09 another client was affected", "%s: bystander did not receive its message (closed=%v)", when, p.by.Closed)
	}
}

func (p *protoWorld) topicCount(t string) int {
	tp := p.w.Topic(t)
	if tp == nil {
		return 0
	}
	return int(tp.messageCount)
}

// RunProtoSeq sends the variants named by idx one after the other on one connection and
// compares every answer with the model.
func RunProtoSeq(idx []int) vx.Out {
	vs := PVariants()
	var names []string
	for _, i := range idx {
		names = append(names, vs[i].Name)
	}
	p, e := newProtoWorld(strings.Join(names, " ; "))
	if e != "" {
		return vx.Out{Obs: "world: " + e, Viol: []vx.Found{{Sig: "INFRA world :: proto", Detail: e}}}
	}
	defer p.w.Release()
	c := p.w.Dial("x")
	st := &pstate{st: "init", counts: map[string]int{}, chans: map[string]bool{}}
	obs := ""
	for _, i := range idx {
		v := vs[i]
		if st.st == "dead" {
			break
		}
		ex := v.expect(st)
		c.Take()
		c.Raw(v.bytes)
		if v.half {
			c.C.CloseWrite()
		}
		p.w.Quiesce()
		got := classify(c.Take())
		obs += got + ","
		ok := false
		for _, r := range ex.resp {
			if r == got {
				ok = true
			}
		}
		if !ok {
			p.bad("C09 wrong answer", "%q in state %s answered %s, the protocol defines %v", v.Name, st.st, got, ex.resp)
		}
		c.Poll()
		if ex.fatal {
			if !c.Closed {
				p.bad("C09 fatal error did not close the connection", "%q answered %s but the connection stays open", v.Name, got)
			}
			st.st = "dead"
		} else if c.Closed {
			p.bad("C09 connection closed on a non-fatal answer", "%q answered %s and the connection was closed", v.Name, got)
			st.st = "dead"
		}
		if ok && ex.apply != nil {
			ex.apply(st)
		}
	}
	for _, t := range []string{"t", "u#ephemeral"} {
		if got := p.topicCount(t); got != st.counts[t] {
			p.bad("C09 rejected or accepted publish miscounted", "topic %s holds message_count=%d, the accepted publishes add up to %d", t, got, st.counts[t])
		}
	}
	p.bystanderOK("after the sequence")
	return vx.Out{Obs: obs, Viol: p.viol}
}

// RunProtoGarbage sends raw bytes (after the given magic) and half-closes; the daemon must
// survive, close that connection only, and create nothing.
func RunProtoGarbage(magic, data []byte, desc string) vx.Out {
	p, e := newProtoWorld(desc)
	if e != "" {
		return vx.Out{Obs: "world: " + e, Viol: []vx.Found{{Sig: "INFRA world :: proto", Detail: e}}}
	}
	defer p.w.Release()
	wc := p.w.DialRaw("g")
	wc.Raw(magic)
	wc.Raw(data)
	p.w.Quiesce()
	p.bystanderOK("with the garbage connection open")
	wc.C.CloseWrite()
	p.w.Quiesce()
	wc.Poll()
	cls := classify(wc.Frames)
	if !wc.Closed {
		p.bad("C09 connection not closed after end of input", "garbage %q: after the client closed its side the server keeps the connection", data)
	}
	for _, f := range wc.Frames {
		if f.Type == frameTypeError && !strings.HasPrefix(string(f.Data), "E_") {
			p.bad("C09 malformed error frame", "%q", f.Data)
		}
	}
	if len(data) <= 3 {
		for name := range p.w.N.topicMap {
			if name != "bt" {
				p.bad("C09 garbage created a topic", "topic %q", name)
			}
		}
	}
	p.bystanderOK("after the garbage connection")
	return vx.Out{Obs: cls, Viol: p.viol}
}

