//go:build go1.18 && verif

package nsqd

// C10: the HTTP API. (1) route x method x argument-class product against a status/effect
// model; (2) differential: what /pub and /mpub enqueue against what the equivalent TCP
// PUB/DPUB/MPUB enqueues on a twin daemon.

import (
	"bytes"
	"encoding/json"
	"fmt"
	"io"
	"net/http"
	"net/http/httptest"
	"net/url"
	"sort"
	"strings"

	"github.com/nsqio/nsq/internal/verif/vx"
)

type HTTPCase struct {
	Method string `json:"m"`
	Path   string `json:"p"`
	Query  string `json:"q"` // raw query
	Body   string `json:"b"`
	Chunk  bool   `json:"chunk"` // send with unknown length (chunked)
	Paused bool   `json:"paused,omitempty"` // pre-state: topic t and channel c are paused
}

func (c HTTPCase) String() string {
	b := c.Body
	if len(b) > 12 {
		b = fmt.Sprintf("%s...(%d)", b[:12], len(b))
	}
	pre := ""
	if c.Paused {
		pre = " pre=paused"
	}
	return fmt.Sprintf("%s %s?%s body=%q chunked=%v%s", c.Method, c.Path, c.Query, b, c.Chunk, pre)
}

// DoRaw performs a request with full control over the raw query and the declared length.
func (w *World) DoRaw(c HTTPCase) (int, http.Header, string) {
	var rd io.Reader
	if c.Body != "" || c.Chunk {
		rd = strings.NewReader(c.Body)
	}
	req := httptest.NewRequest(c.Method, "http://nsqd"+c.Path, rd)
	req.URL.RawQuery = c.Query
	req.RequestURI = c.Path + "?" + c.Query
	if c.Chunk {
		req.ContentLength = -1
		req.TransferEncoding = []string{"chunked"}
	}
	rec := httptest.NewRecorder()
	w.HTTP.ServeHTTP(rec, req)
	return rec.Code, rec.Header(), rec.Body.String()
}

type apiTopic struct {
	Paused bool
	Depth  int64
	Chans  map[string]*apiChan
}
type apiChan struct {
	Paused bool
	Depth  int64 // queued + in flight + deferred
}
type apiState map[string]*apiTopic

func (w *World) apiSnapshot() apiState {
	st := w.N.GetStats("", "", false)
	out := apiState{}
	for _, t := range st.Topics {
		at := &apiTopic{Paused: t.Paused, Depth: t.Depth, Chans: map[string]*apiChan{}}
		for _, c := range t.Channels {
			at.Chans[c.ChannelName] = &apiChan{Paused: c.Paused, Depth: c.Depth + int64(c.InFlightCount) + int64(c.DeferredCount)}
		}
		out[t.TopicName] = at
	}
	return out
}

func (s apiState) clone() apiState {
	out := apiState{}
	for n, t := range s {
		nt := &apiTopic{Paused: t.Paused, Depth: t.Depth, Chans: map[string]*apiChan{}}
		for cn, c := range t.Chans {
			cc := *c
			nt.Chans[cn] = &cc
		}
		out[n] = nt
	}
	return out
}

func (s apiState) String() string {
	b, _ := json.Marshal(s)
	return string(b)
}

func (s apiState) depthSum() int64 {
	var n int64
	for _, t := range s {
		n += t.Depth
		for _, c := range t.Chans {
			n += c.Depth
		}
	}
	return n
}

func firstArg(q url.Values, k string) (string, bool) {
	v, ok := q[k]
	if !ok || len(v) == 0 {
		return "", false
	}
	return v[0], true
}

// apiModel: acceptable status codes and the expected snapshot after the request, for the
// fixed pre-state built by RunHTTPCase: topic t (channel c with 2 messages, channel k
// empty), topic u (no channel, 1 message), nothing else; max-msg-size 64, max-body 256.
func apiModel(c HTTPCase) (codes []int, effect string) {
	routes := map[string]string{"/ping": "GET", "/info": "GET", "/pub": "POST", "/mpub": "POST", "/stats": "GET",
		"/topic/create": "POST", "/topic/delete": "POST", "/topic/empty": "POST", "/topic/pause": "POST", "/topic/unpause": "POST",
		"/channel/create": "POST", "/channel/delete": "POST", "/channel/empty": "POST", "/channel/pause": "POST", "/channel/unpause": "POST",
		"/config/nsqlookupd_tcp_addresses": "GET|PUT"}
	ms, known := routes[c.Path]
	if !known {
		return []int{404}, "same"
	}
	okMethod := false
	for _, m := range strings.Split(ms, "|") {
		if m == c.Method {
			okMethod = true
		}
	}
	if !okMethod {
		return []int{405}, "same"
	}
	q, qerr := url.ParseQuery(c.Query)
	topic, hasTopic := firstArg(q, "topic")
	ch, hasCh := firstArg(q, "channel")
	existsT := topic == "t" || topic == "u"
	existsC := topic == "t" && (ch == "c" || ch == "k")
	switch c.Path {
	case "/ping", "/info":
		return []int{200}, "same"
	case "/stats":
		if qerr != nil {
			return []int{400}, "same"
		}
		if f, ok := firstArg(q, "format"); ok && f != "json" && f != "text" && f != "" {
			return []int{200, 400}, "same"
		}
		return []int{200}, "same"
	case "/config/nsqlookupd_tcp_addresses":
		if c.Method == "GET" {
			return []int{200}, "same"
		}
		return []int{200, 400, 413}, "same"
	case "/pub", "/mpub":
		var cs []int
		max := 64
		if c.Path == "/mpub" {
			max = 256
		}
		bad := qerr != nil || !hasTopic || !validName(topic)
		if bad {
			cs = append(cs, 400)
		}
		if len(c.Body) > max {
			cs = append(cs, 413)
		}
		if c.Path == "/pub" && len(c.Body) == 0 {
			cs = append(cs, 400)
		}
		if d, ok := firstArg(q, "defer"); ok && c.Path == "/pub" {
			v, isDec := denote(d)
			if !isDec || v.Int64() > 3600000 || len(d) > 10 {
				cs = append(cs, 400)
			}
		}
		if c.Path == "/mpub" {
			if b, ok := firstArg(q, "binary"); ok && b != "false" && b != "0" {
				cs = append(cs, 200, 413) // binary framing is judged by the differential part
			} else {
				for _, l := range strings.Split(c.Body, "\n") {
					if len(l) > 64 {
						cs = append(cs, 413)
					}
				}
			}
		}
		if len(cs) == 0 {
			return []int{200}, "publish"
		}
		return cs, "publish-rejected"
	}
	// admin routes
	isChan := strings.HasPrefix(c.Path, "/channel/")
	op := c.Path[strings.LastIndex(c.Path, "/")+1:]
	if qerr != nil {
		return []int{400}, "same"
	}
	if !hasTopic {
		return []int{400}, "same"
	}
	if !isChan {
		switch op {
		case "create":
			if !validName(topic) {
				return []int{400}, "same"
			}
			return []int{200}, "create-topic"
		default:
			if !existsT {
				if !validName(topic) {
					return []int{400, 404}, "same"
				}
				return []int{404}, "same"
			}
			return []int{200}, op + "-topic"
		}
	}
	if !validName(topic) {
		return []int{400}, "same"
	}
	if !hasCh || !validName(ch) {
		return []int{400}, "same"
	}
	if !existsT {
		return []int{404}, "same"
	}
	if op == "create" {
		return []int{200}, "create-channel"
	}
	if !existsC {
		return []int{404}, "same"
	}
	return []int{200}, op + "-channel"
}

// RunHTTPCase builds the fixed pre-state, performs one request, and judges status,
// response form and effect.
func RunHTTPCase(c HTTPCase) vx.Out {
	var viol []vx.Found
	bad := func(clause, f string, a ...interface{}) {
		viol = append(viol, vx.Found{Sig: clause + " :: http " + c.String(), Detail: fmt.Sprintf(f, a...)})
	}
	w, err := NewWorld(FreshDir(), WOpts{MemQ: 100, NoLoops: true, Mod: func(o *Options) { o.MaxMsgSize, o.MaxBodySize = 64, 256 }})
	if err != nil {
		return vx.Out{Obs: "world: " + err.Error(), Viol: []vx.Found{{Sig: "INFRA world :: http", Detail: err.Error()}}}
	}
	defer w.Release()
	w.N.waitGroup.Wrap(w.N.lookupLoop)
	w.Do("POST", "/topic/create?topic=t", nil)
	w.Do("POST", "/channel/create?topic=t&channel=c", nil)
	w.Do("POST", "/pub?topic=t", []byte("one"))
	w.Do("POST", "/pub?topic=t", []byte("two"))
	w.Quiesce()
	w.Do("POST", "/channel/create?topic=t&channel=k", nil)
	w.Do("POST", "/pub?topic=u", []byte("three"))
	w.Quiesce()
	if c.Paused {
		w.Do("POST", "/topic/pause?topic=t", nil)
		w.Do("POST", "/channel/pause?topic=t&channel=c", nil)
		w.Quiesce()
	}
	before := w.apiSnapshot()
	codes, effect := apiModel(c)
	code, hdr, body := w.DoRaw(c)
	w.Quiesce()
	after := w.apiSnapshot()
	ok := false
	for _, x := range codes {
		if x == code {
			ok = true
		}
	}
	if code == 500 {
		bad("C10 complete request answered 500", "%s: 500 %s", c, body)
	} else if !ok {
		bad("C10 wrong status", "%s answered %d %s, documented: %v", c, code, strings.TrimSpace(body), codes)
	}
	// response form
	if code != 405 && code != 404 || strings.HasPrefix(body, "{") {
		ct := hdr.Get("Content-Type")
		if strings.Contains(ct, "json") {
			var x interface{}
			if json.Unmarshal([]byte(body), &x) != nil {
				bad("C10 malformed JSON response", "%s: %q", c, body)
			}
		}
	}
	if code >= 400 && code != 404 && code != 405 && c.Method != "HEAD" && !strings.Contains(body, "message") && c.Path != "/ping" {
		bad("C10 error response without a message", "%s: %d %q", c, code, body)
	}
	// effect
	q, _ := url.ParseQuery(c.Query)
	topic, _ := firstArg(q, "topic")
	ch, _ := firstArg(q, "channel")
	want := before.clone()
	judge := true
	if code == 200 {
		switch effect {
		case "create-topic":
			if want[topic] == nil {
				want[topic] = &apiTopic{Chans: map[string]*apiChan{}}
			}
		case "delete-topic":
			delete(want, topic)
		case "empty-topic":
			want[topic].Depth = 0
		case "pause-topic":
			want[topic].Paused = true
		case "unpause-topic":
			want[topic].Paused = false
		case "create-channel":
			t := want[topic]
			if t.Chans[ch] == nil {
				t.Chans[ch] = &apiChan{}
				if len(t.Chans) == 1 {
					// the topic's own backlog flows to its first channel
					t.Chans[ch].Depth, t.Depth = t.Depth, 0
				}
			}
		case "delete-channel":
			delete(want[topic].Chans, ch)
		case "empty-channel":
			want[topic].Chans[ch].Depth = 0
		case "pause-channel":
			want[topic].Chans[ch].Paused = true
		case "unpause-channel":
			want[topic].Chans[ch].Paused = false
		case "publish":
			judge = false
		}
	}
	if effect == "publish-rejected" {
		// a rejected publish enqueues nothing (it may have created the topic)
		if after.depthSum() != before.depthSum() {
			bad("C10 C09 rejected publish enqueued something", "%s answered %d; before: %s; after: %s", c, code, before, after)
		}
	} else if judge && after.String() != want.String() {
		bad("C10 endpoint effect differs from its documentation", "%s answered %d; expected state %s; got %s", c, code, want, after)
	}
	return vx.Out{Obs: fmt.Sprintf("%d %s", code, effect), Viol: viol}
}

// ---- differential

type PubInput struct {
	Mode   string   `json:"mode"`   // pub | dpub | mpubtext | mpubbin
	Bodies []string `json:"bodies"` // pub/dpub: one body; mpubbin: message bodies
	Text   string   `json:"text"`   // mpubtext: the raw HTTP body
	Defer  string   `json:"defer"`  // dpub
	Chunk  bool     `json:"chunk"`
}

func collectBodies(w *World, topic string) []string {
	c := w.Dial("col")
	c.Identify(map[string]interface{}{"client_id": "col", "output_buffer_size": -1})
	c.Cmd("SUB "+topic+" c", nil)
	c.Next()
	c.Cmd("RDY 10", nil)
	w.Quiesce()
	var out []string
	for round := 0; round < 3; round++ {
		for _, f := range c.Take() {
			if f.Type == frameTypeMessage {
				out = append(out, f.Body)
				c.Cmd("FIN "+f.ID, nil)
			}
		}
		w.Quiesce()
	}
	if t := w.Topic(topic); t != nil {
		if ch := w.Channel(topic, "c"); ch != nil {
			d := DumpChannel(ch)
			for range d.Deferred {
				out = append(out, "(deferred)")
			}
		}
	}
	sort.Strings(out)
	return out
}

// RunPubDifferential feeds the same publish through HTTP on one fresh daemon and through
// TCP on another and compares what each enqueued.
func RunPubDifferential(in PubInput) vx.Out {
	var viol []vx.Found
	mk := func() (*World, error) {
		return NewWorld(FreshDir(), WOpts{MemQ: 100, NoLoops: true, Mod: func(o *Options) { o.MaxMsgSize, o.MaxBodySize = 64, 256 }})
	}
	// HTTP twin
	w1, err := mk()
	if err != nil {
		return vx.Out{Obs: "world", Viol: []vx.Found{{Sig: "INFRA world :: diff", Detail: err.Error()}}}
	}
	w1.Do("POST", "/topic/create?topic=t", nil)
	w1.Do("POST", "/channel/create?topic=t&channel=c", nil)
	var hc HTTPCase
	switch in.Mode {
	case "pub":
		hc = HTTPCase{Method: "POST", Path: "/pub", Query: "topic=t", Body: in.Bodies[0], Chunk: in.Chunk}
	case "dpub":
		hc = HTTPCase{Method: "POST", Path: "/pub", Query: "topic=t&defer=" + urlEscape(in.Defer), Body: in.Bodies[0], Chunk: in.Chunk}
	case "mpubtext":
		hc = HTTPCase{Method: "POST", Path: "/mpub", Query: "topic=t", Body: in.Text, Chunk: in.Chunk}
	case "mpubbin":
		hc = HTTPCase{Method: "POST", Path: "/mpub", Query: "topic=t&binary=true", Body: string(mpubBody(in.Bodies...)), Chunk: in.Chunk}
	}
	code, _, hbody := w1.DoRaw(hc)
	w1.Quiesce()
	got1 := collectBodies(w1, "t")
	w1.Release()
	// TCP twin
	w2, err := mk()
	if err != nil {
		return vx.Out{Obs: "world", Viol: []vx.Found{{Sig: "INFRA world :: diff", Detail: err.Error()}}}
	}
	w2.Do("POST", "/topic/create?topic=t", nil)
	w2.Do("POST", "/channel/create?topic=t&channel=c", nil)
	p := w2.Dial("p")
	tcp := "skipped"
	send := func(line string, body []byte) {
		p.Cmd(line, body)
		w2.Quiesce()
		tcp = classify(p.Take())
	}
	switch in.Mode {
	case "pub":
		send("PUB t", []byte(in.Bodies[0]))
	case "dpub":
		send("DPUB t "+in.Defer, []byte(in.Bodies[0]))
	case "mpubtext":
		var lines []string
		for _, l := range strings.Split(in.Text, "\n") {
			if l != "" {
				lines = append(lines, l)
			}
		}
		if len(lines) > 0 {
			send("MPUB t", mpubBody(lines...))
		}
	case "mpubbin":
		send("MPUB t", mpubBody(in.Bodies...))
	}
	w2.Quiesce()
	got2 := collectBodies(w2, "t")
	w2.Release()
	if fmt.Sprint(got1) != fmt.Sprint(got2) {
		viol = append(viol, vx.Found{Sig: fmt.Sprintf("C10 HTTP publish enqueues something else than the TCP equivalent :: diff %s", in.Mode), Detail: fmt.Sprintf("input %+v: HTTP answered %d %s and enqueued %q; TCP answered %s and enqueued %q", in, code, strings.TrimSpace(hbody), got1, tcp, got2)})
	}
	if code == 500 {
		viol = append(viol, vx.Found{Sig: "C10 complete request answered 500 :: diff " + in.Mode, Detail: fmt.Sprintf("%+v: %s", in, hbody)})
	}
	if (code == 200) != (tcp == "OK") && tcp != "skipped" {
		viol = append(viol, vx.Found{Sig: fmt.Sprintf("C10 HTTP and TCP disagree on accepting a publish :: diff %s", in.Mode), Detail: fmt.Sprintf("input %+v: HTTP %d, TCP %s", in, code, tcp)})
	}
	return vx.Out{Obs: fmt.Sprintf("http=%d tcp=%s n=%d", code, tcp, len(got1)), Viol: viol}
}

var _ = bytes.Equal
