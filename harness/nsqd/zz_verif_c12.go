//go:build go1.18 && verif

package nsqd

// C12: message ids.

import (
	"fmt"
	"sort"
	"strings"
	"time"

	"github.com/nsqio/nsq/internal/verif/vrt"
	"github.com/nsqio/nsq/internal/verif/vsync"
	"github.com/nsqio/nsq/internal/verif/vx"
)

type GuidStats struct {
	States      int        `json:"states"`
	Transitions int        `json:"transitions"`
	IDs         int        `json:"ids"`
	Viol        []vx.Found `json:"viol"`
	Sample      []string   `json:"sample"`
}

const guidTick = int64(1) << 20

// GuidBFS: breadth-first over sequences of {new id, clock moves, bursts} on the real
// factory; must run inside a controlled execution (the clock is vrt's).
func GuidBFS(nodeID int64, depth int) GuidStats {
	var st GuidStats
	// (+2^8, +2^18, +2^28 ticks: steps that change only high bits of the timestamp field, so
	// that every byte of the rendered id takes part)
	ops := []string{"id", "+0", "+tick", "+tick-1", "-tick", "-3tick", "burst", "+2^8tick", "+2^18tick", "+2^28tick"}
	type res struct {
		key string
		err string
	}
	run := func(hist []string) res {
		vrt.S.Clock = vrt.Epoch0
		f := NewGUIDFactory(nodeID)
		var last guid
		lastHex := ""
		seen := map[guid]bool{}
		seenHex := map[string]bool{}
		get := func() string {
			id, err := f.NewGUID()
			if err != nil {
				if err != ErrTimeBackwards && err != ErrSequenceExpired && err != ErrIDBackwards {
					return "unexpected error " + err.Error()
				}
				return ""
			}
			st.IDs++
			if seen[id] {
				return fmt.Sprintf("id %x handed out twice", int64(id))
			}
			if id <= last {
				return fmt.Sprintf("id %x is not greater than the previous id %x", int64(id), int64(last))
			}
			if want := (int64(id) >> nodeIDShift) & 1023; want != nodeID {
				return fmt.Sprintf("id %x carries node id %d, want %d", int64(id), want, nodeID)
			}
			// ... and the same for the 16 hex characters that actually become the message id
			hx := id.Hex()
			hs := string(hx[:])
			for _, ch := range hs {
				if !((ch >= '0' && ch <= '9') || (ch >= 'a' && ch <= 'f')) {
					return fmt.Sprintf("rendered id %q is not 16 hex characters", hs)
				}
			}
			if seenHex[hs] {
				return fmt.Sprintf("rendered id %s handed out twice (ids %x and an earlier one)", hs, int64(id))
			}
			if hs <= lastHex {
				return fmt.Sprintf("rendered id %s is not greater than the previous one %s", hs, lastHex)
			}
			seenHex[hs], lastHex = true, hs
			seen[id], last = true, id
			return ""
		}
		for _, op := range hist {
			e := ""
			switch op {
			case "id":
				e = get()
			case "+0":
			case "+tick":
				vrt.S.Clock += guidTick
			case "+tick-1":
				vrt.S.Clock += guidTick - 1
			case "-tick":
				vrt.S.Clock -= guidTick
			case "-3tick":
				vrt.S.Clock -= 3 * guidTick
			case "+2^8tick":
				vrt.S.Clock += guidTick << 8
			case "+2^18tick":
				vrt.S.Clock += guidTick << 18
			case "+2^28tick":
				vrt.S.Clock += guidTick << 28
			case "burst":
				for i := 0; i < 4100 && e == ""; i++ {
					e = get()
				}
			}
			if e != "" {
				return res{err: e}
			}
		}
		now := vrt.S.Clock >> 20
		return res{key: fmt.Sprintf("dts%d seq%d ph%d", now-f.lastTimestamp, f.sequence, vrt.S.Clock&(guidTick-1))}
	}
	seenState := map[string]bool{}
	frontier := [][]string{{}}
	for d := 0; d < depth; d++ {
		var next [][]string
		for _, h := range frontier {
			for _, op := range ops {
				nh := append(append([]string{}, h...), op)
				r := run(nh)
				st.Transitions++
				if r.err != "" {
					if len(st.Viol) < 5 {
						st.Viol = append(st.Viol, vx.Found{Sig: "C12 id generator handed out a repeated or non-increasing id :: guid", Detail: fmt.Sprintf("node %d after %v: %s", nodeID, nh, r.err), Replay: map[string]interface{}{"kind": "guid", "node": nodeID, "ops": nh}})
					}
					continue
				}
				if !seenState[r.key] {
					seenState[r.key] = true
					st.States++
					next = append(next, nh)
					if len(st.Sample) < 3 && d == depth-1 {
						st.Sample = append(st.Sample, strings.Join(nh, " ")+" => "+r.key)
					}
				}
			}
		}
		frontier = next
	}
	return st
}

// RunGenerateIDWaits: with the clock frozen the 4097th id of a millisecond must wait
// (virtual sleep) and then be fresh; same after a clock step back.
func RunGenerateIDWaits(nodeID int64, back bool) vx.Out {
	w, err := NewWorld(FreshDir(), WOpts{MemQ: 10, NoLoops: true, Mod: func(o *Options) { o.ID = nodeID }})
	if err != nil {
		return vx.Out{Obs: "world: " + err.Error(), Viol: []vx.Found{{Sig: "INFRA world :: guid", Detail: err.Error()}}}
	}
	defer w.Release()
	t := w.N.GetTopic("t#ephemeral")
	var viol []vx.Found
	seen := map[MessageID]bool{}
	var last MessageID
	t0 := vrt.Now()
	n := 4200
	if back {
		for i := 0; i < 10; i++ {
			id := t.GenerateID()
			seen[id], last = true, id
		}
		vrt.S.Clock -= 5 * guidTick
		t0 = vrt.Now()
		n = 3
	}
	for i := 0; i < n; i++ {
		id := t.GenerateID()
		if seen[id] {
			viol = append(viol, vx.Found{Sig: "C12 id handed out twice :: generate", Detail: fmt.Sprintf("node %d: id %s repeated at call %d (clock stepped back: %v)", nodeID, id, i, back)})
			break
		}
		if string(id[:]) <= string(last[:]) && last != (MessageID{}) {
			viol = append(viol, vx.Found{Sig: "C12 ids do not increase :: generate", Detail: fmt.Sprintf("node %d: id %s after %s", nodeID, id, last)})
			break
		}
		seen[id], last = true, id
	}
	waited := vrt.Now() - t0
	if waited <= 0 {
		viol = append(viol, vx.Found{Sig: "C12 generator did not wait :: generate", Detail: fmt.Sprintf("node %d: %d ids without the clock moving (back=%v)", nodeID, n, back)})
	}
	return vx.Out{Obs: fmt.Sprintf("node%d back=%v waited>0=%v", nodeID, back, waited > 0), Viol: viol}
}

// RunGuidRace: concurrent publishers on one topic through the real publish paths; every
// interleaving (E1). paths: pub (TCP PUB), hpub (HTTP), mpub (TCP MPUB x2), gen (GenerateID x2),
// gen1 (GenerateID once), tick (the clock jumps three id ticks, as one explorable transition).
func RunGuidRace(paths []string) vx.Out {
	w, err := NewWorld(FreshDir(), WOpts{MemQ: 20, NoLoops: true})
	if err != nil {
		return vx.Out{Obs: "world: " + err.Error(), Viol: []vx.Found{{Sig: "INFRA world :: guid", Detail: err.Error()}}}
	}
	defer w.Release()
	w.Do("POST", "/topic/create?topic=t", nil)
	w.Do("POST", "/channel/create?topic=t&channel=c", nil)
	conns := make([]*WConn, len(paths))
	for i, p := range paths {
		if p == "pub" || p == "mpub" {
			conns[i] = w.Dial(fmt.Sprintf("p%d", i))
		}
	}
	w.Quiesce()
	t := w.Topic("t")
	gen := make([][]MessageID, len(paths))
	var pre []string
	nThreads := 0
	for _, p := range paths {
		if p == "exhaust" {
			// the topic has just handed out the 4096 ids of the current millisecond (the
			// clock does not move while nothing blocks): whoever asks next must wait
			for k := 0; k < 4096; k++ {
				id := t.GenerateID()
				pre = append(pre, string(id[:]))
			}
		} else {
			nThreads++
		}
	}
	var wg vsync.WaitGroup
	wg.Add(nThreads)
	vrt.Window(true)
	for i, p := range paths {
		i, p := i, p
		if p == "exhaust" {
			continue
		}
		vrt.GoNamed(p, func() {
			switch p {
			case "pub":
				conns[i].Cmd("PUB t", []byte(fmt.Sprintf("b%d", i)))
				conns[i].Next()
			case "mpub":
				conns[i].Cmd("MPUB t", mpubBody(fmt.Sprintf("b%da", i), fmt.Sprintf("b%db", i)))
				conns[i].Next()
			case "hpub":
				w.Do("POST", "/pub?topic=t", []byte(fmt.Sprintf("b%d", i)))
			case "gen":
				gen[i] = append(gen[i], t.GenerateID(), t.GenerateID())
			case "gen1":
				gen[i] = append(gen[i], t.GenerateID())
			case "tick":
				// three id-clock ticks pass at some point between the publishers' steps
				vrt.Jump(3 << 20)
			}
			wg.Done()
		})
	}
	wg.Wait()
	vrt.Quiesce()
	vrt.Window(false)
	// collect ids: generated directly, and of the queued messages (drain the channel queue
	// through a consumer)
	c := w.Dial("c")
	c.Identify(map[string]interface{}{"client_id": "c", "output_buffer_size": -1})
	c.Cmd("SUB t c", nil)
	c.Next()
	c.Cmd("RDY 20", nil)
	w.Quiesce()
	var ids []string
	for _, f := range c.Take() {
		if f.Type == frameTypeMessage {
			ids = append(ids, f.ID)
		}
	}
	want := 0
	for i, p := range paths {
		switch p {
		case "pub", "hpub":
			want++
		case "mpub":
			want += 2
		case "gen", "gen1":
			for k, id := range gen[i] {
				ids = append(ids, string(id[:]))
				if k > 0 && string(gen[i][k][:]) <= string(gen[i][k-1][:]) {
					return vx.Out{Obs: "nonincreasing", Viol: []vx.Found{{Sig: fmt.Sprintf("C12 ids of one caller do not increase :: race %v", paths), Detail: fmt.Sprint(gen[i])}}}
				}
			}
		}
	}
	var viol []vx.Found
	if len(pre) > 0 {
		// ids handed out after the burst are larger than every id of the burst
		last := pre[len(pre)-1]
		for _, id := range ids {
			if id <= last {
				viol = append(viol, vx.Found{Sig: fmt.Sprintf("C12 id handed out after an exhausted millisecond is not larger than the ids before it :: race %v", paths), Detail: fmt.Sprintf("id %s after the burst ending in %s", id, last)})
				break
			}
		}
		ids = append(ids, pre...)
	}
	sort.Strings(ids)
	for i := 1; i < len(ids); i++ {
		if ids[i] == ids[i-1] {
			viol = append(viol, vx.Found{Sig: fmt.Sprintf("C12 two messages of one topic got the same id :: race %v", paths), Detail: fmt.Sprintf("id %s twice among %v", ids[i], ids)})
			break
		}
	}
	got := 0
	for range ids {
		got++
	}
	_ = want
	_ = time.Second
	return vx.Out{Obs: fmt.Sprintf("%d ids distinct=%v", len(ids), len(viol) == 0), Viol: viol}
}

// CheckNodeIDRange: nsqd.New accepts node ids in [0, 1024) only.
func CheckNodeIDRange() []vx.Found {
	var viol []vx.Found
	for _, id := range []int64{-1, 0, 1, 1023, 1024, 4096} {
		opts := mkOpts(FreshDir(), WOpts{})
		opts.ID = id
		n, err := New(opts)
		ok := err == nil
		if n != nil && ok {
			n.tcpListener.Close()
			n.httpListener.Close()
			n.dl.Unlock()
		}
		if want := id >= 0 && id < 1024; ok != want {
			viol = append(viol, vx.Found{Sig: fmt.Sprintf("C12 node id range not enforced :: node-id %d", id), Detail: fmt.Sprintf("New with node id %d: err=%v", id, err)})
		}
	}
	return viol
}
