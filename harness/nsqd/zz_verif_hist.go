//go:build go1.18 && verif

package nsqd

// E3: operation-sequence exploration. A state is the event history reaching it; RunHist
// replays a history on a fresh world (default schedule, run to quiescence after every
// event), keeps a reference ledger in lock-step, evaluates the per-step oracles of C01,
// C02, C03, C04 and C13, computes a canonical state key, and finally drains the world to
// decide at-least-once delivery (or restarts it first, for C05).

import (
	"encoding/json"
	"fmt"
	stdos "os"
	"regexp"
	"sort"
	"strings"
	"syscall"
	"time"

	"github.com/nsqio/nsq/internal/verif/vos"
	"github.com/nsqio/nsq/internal/verif/vrt"
	"github.com/nsqio/nsq/internal/verif/vx"
)

type HistCfg struct {
	MemQ     int64 `json:"memq"`
	MaxBytes int64 `json:"maxbytes"` // max-bytes-per-file (0 = default)
	MaxMsgs  int   `json:"maxmsgs"`  // publishes allowed in a history
	Chans    int   `json:"chans"`    // 1 or 2 channels
	Cons     int   `json:"cons"`     // 1 or 2 consumers
	Admin    bool  `json:"admin"`    // include empty/delete events (C08 sequential semantics)
	Buffered bool  `json:"buffered"` // consumers keep the default output buffering
	Restart  bool  `json:"restart"`  // after the history: graceful Exit, restart, then drain (C05)
	Trace    bool  `json:"trace,omitempty"`
	// Pre: events applied before the explored history (the search then starts from a
	// non-initial state: consumers subscribed and ready, a second channel, a backlog ...);
	// they do not count towards the depth. MaxMsgs counts publishes of the explored part only.
	Pre []string `json:"pre,omitempty"`
	// TightMax: max-msg-size equals the length of every body published (2 bytes), so each
	// message is a maximum-size message on every path it takes (memory, disk overflow,
	// requeue, flush at shutdown): size limits that disagree between sites show up as losses.
	TightMax bool `json:"tightmax,omitempty"`
	// IOFault: adds the event "hpubfail" - an HTTP publish during which the next write to
	// the topic's disk queue fails (short write + ENOSPC): the publish is refused (or, if no
	// disk write was needed, acknowledged as usual) and leaves no trace in the counters
	IOFault bool `json:"iofault,omitempty"`
	// Topology: the topology-aware-consumption experiment is on (nsqd in region r1, zone z1)
	// and the consumers IDENTIFY as "region" (same region, other zone), "zone" (same zone, other
	// region), "both" or "mixed" (the first region-local, the second zone-local): deliveries
	// then also travel over the channel's zone / region hand-off channels
	Topology string `json:"topology,omitempty"`
}

func (c HistCfg) String() string {
	s := fmt.Sprintf("memq%d/file%d/msgs%d/ch%d/co%d/adm%v/buf%v/rst%v", c.MemQ, c.MaxBytes, c.MaxMsgs, c.Chans, c.Cons, c.Admin, c.Buffered, c.Restart)
	if len(c.Pre) > 0 {
		s += "/pre=" + strings.Join(c.Pre, ",")
	}
	if c.TightMax {
		s += "/tightmax"
	}
	if c.IOFault {
		s += "/iofault"
	}
	if c.Topology != "" {
		s += "/topology=" + c.Topology
	}
	return s
}

func (c HistCfg) mod() func(*Options) {
	if !c.TightMax && c.Topology == "" {
		return nil
	}
	return func(o *Options) {
		if c.TightMax {
			o.MaxMsgSize = 2
		}
		if c.Topology != "" {
			o.Experiments = []string{string(TopologyAwareConsumption)}
			o.TopologyRegion, o.TopologyZone = "r1", "z1"
		}
	}
}

// topologyOf: the topology fields consumer n puts into its IDENTIFY.
func (c HistCfg) topologyOf(n string) (region, zone string) {
	kind := c.Topology
	if kind == "mixed" {
		kind = "region"
		if n != "a" {
			kind = "zone"
		}
	}
	switch kind {
	case "region":
		return "r1", "z9"
	case "zone":
		return "r9", "z1"
	case "both":
		return "r1", "z1"
	}
	return "", ""
}

type HistRes struct {
	Key  string     `json:"key"`
	Obs  string     `json:"obs"`
	Menu []string   `json:"menu"`
	Viol []vx.Found `json:"viol"`
}

const (
	hTopic      = "t"
	hMsgTimeout = int64(time.Second)
	hScanSlack  = int64(time.Second) // refresh interval + scan interval
	hBufSlack   = int64(250 * time.Millisecond)
)

// ---- ledger

type lMsg struct {
	body      string
	owed      bool   // the channel existed when the publish was acknowledged
	state     string // intopic | queued | deferred | held | finished | discarded
	to        string // holder (consumer name)
	attempts  int    // attempts of the last delivery
	at        int64  // time of the last delivery
	deadline  int64
	releaseAt int64 // deferred: earliest redelivery
	delivs    int
	drained   int // deliveries during the drain
}

type lChan struct {
	name      string
	msgs      map[string]*lMsg // by body
	paused    bool
	pausedAt  int64
	finished  uint64
	discarded uint64
	requeues  uint64
	created   bool
}

type lCons struct {
	name      string
	conn      *WConn
	ch        string
	rdy       int64
	rdyPrev   int64
	connected bool
	closing   bool
	sent      uint64
	fins      uint64
	reqs      uint64
	lastIDs   []string // ids ever received on this connection
	gen       int
	newDeliv  int
	fatal     bool
	rdyAfterCls bool
}

type hworld struct {
	cfg      HistCfg
	w        *World
	p        *WConn
	chans    map[string]*lChan
	cons     map[string]*lCons
	bodies   []string          // acked publishes in order
	byID     map[string]string // id -> body
	idOf     map[string]string // body -> id
	tsOf     map[string]int64
	pubAt    map[string][2]int64
	held     []string // bodies still in the topic's own queue (topic paused / no channel)
	tpaused  bool
	ioLost   int // publishes whose write to the channel's disk queue was made to fail
	tpausedAt int64
	pubN     int
	bytes    uint64
	viol     []vx.Found
	hist     []string
	draining bool
	topicSeen bool
	restarts  int
	pumpSends   map[string]int // channel -> sends by consumer pumps after a flush had started
	oldInflight map[string]map[string]bool // channel -> bodies registered in flight AFTER Channel.flush started (previous daemon)
	preN      int // publishes made by the preamble (HistCfg.Pre)
}

func (h *hworld) bad(clause, format string, a ...interface{}) {
	h.viol = append(h.viol, vx.Found{Sig: clause + " :: hist " + h.cfg.String(), Detail: fmt.Sprintf("after %v: ", h.hist) + fmt.Sprintf(format, a...)})
}

func (h *hworld) now() int64 { return vrt.Now() }

// skew: with default output buffering a message frame reaches the consumer up to the
// output-buffer timeout (250 ms) after it was sent, so the ledger's deadlines (computed
// from arrival) may be late by that much.
func (h *hworld) skew() int64 {
	if h.cfg.Buffered {
		return hBufSlack
	}
	return 0
}

func (h *hworld) chanNames() []string {
	var s []string
	for n, c := range h.chans {
		if c.created {
			s = append(s, n)
		}
	}
	sort.Strings(s)
	return s
}

func (h *hworld) consNames() []string {
	var s []string
	for n := range h.cons {
		s = append(s, n)
	}
	sort.Strings(s)
	return s
}

// ---- events

// Menu lists the events enabled in the current state (a small finite alphabet).
func (h *hworld) Menu() []string {
	var m []string
	if h.pubN-h.preN < h.cfg.MaxMsgs {
		m = append(m, "pub", "hpub", "dpub")
		if h.cfg.IOFault {
			m = append(m, "hpubfail")
			if !h.tpaused && len(h.chanNames()) == 1 {
				m = append(m, "hpubchfail")
			}
		}
		if h.pubN-h.preN+2 <= h.cfg.MaxMsgs {
			m = append(m, "mpub", "hmpub")
		}
	}
	names := []string{"a", "b"}[:h.cfg.Cons]
	for _, n := range names {
		c := h.cons[n]
		if c == nil || !c.connected {
			m = append(m, "sub:"+n+":c")
			if h.cfg.Chans > 1 {
				m = append(m, "sub:"+n+":d")
			}
			continue
		}
		for _, r := range []int64{0, 1, 2} {
			if r != c.rdy && !c.closing {
				m = append(m, fmt.Sprintf("rdy:%s:%d", n, r))
			}
		}
		if c.closing && !c.rdyAfterCls {
			// RDY after CLS is ignored: nothing more may be sent
			m = append(m, fmt.Sprintf("rdy:%s:1", n))
		}
		if len(c.lastIDs) > 0 {
			m = append(m, "fin:"+n, "req:"+n+":0", "req:"+n+":300", "touch:"+n)
		}
		m = append(m, "drop:"+n)
		if !c.closing {
			m = append(m, "cls:"+n)
		}
	}
	if h.cfg.Chans > 1 && !h.chans["d"].created && h.topicExists() {
		m = append(m, "mkch:d")
	}
	if h.chans["c"].created {
		if h.chans["c"].paused {
			m = append(m, "unpause_ch")
		} else {
			m = append(m, "pause_ch")
		}
		if h.cfg.Admin {
			m = append(m, "empty_ch", "del_ch")
		}
	}
	if h.topicExists() {
		if h.tpaused {
			m = append(m, "unpause_t")
		} else {
			m = append(m, "pause_t")
		}
		if h.cfg.Admin {
			m = append(m, "empty_t")
		}
	}
	if h.cfg.Restart && h.restarts == 0 && len(h.hist) > 0 {
		m = append(m, "restart")
	}
	m = append(m, "adv:600", "adv:1100")
	return m
}

func (h *hworld) topicExists() bool {
	if h.w.Topic(hTopic) != nil {
		h.topicSeen = true
		return true
	}
	return false
}

func (h *hworld) ackPublish(bodies []string, deferMs int64, t0 int64) {
	now := h.now()
	for _, b := range bodies {
		h.bodies = append(h.bodies, b)
		h.bytes += uint64(len(b))
		h.pubAt[b] = [2]int64{t0, now}
		inTopic := h.tpaused || len(h.chanNames()) == 0
		if inTopic {
			h.held = append(h.held, b)
		}
		for _, cn := range h.chanNames() {
			m := &lMsg{body: b, owed: true, state: "queued"}
			if deferMs > 0 {
				m.state = "deferred"
				m.releaseAt = now + deferMs*1e6
			}
			if inTopic {
				m.state = "intopic"
				m.releaseAt = 0
			}
			h.chans[cn].msgs[b] = m
		}
	}
}

// flushTopic: with the topic unpaused and at least one channel, the topic pump has copied
// its whole queue to every channel that exists now (we are at quiescence).
func (h *hworld) flushTopic() {
	if h.tpaused || len(h.chanNames()) == 0 || len(h.held) == 0 {
		return
	}
	for _, b := range h.held {
		for _, cn := range h.chanNames() {
			c := h.chans[cn]
			m := c.msgs[b]
			if m == nil {
				m = &lMsg{body: b}
				c.msgs[b] = m
			}
			if m.state == "intopic" || m.state == "" {
				m.state = "queued" // (a deferred publish that waited in the topic has lost its delay or keeps it; not judged)
			}
		}
	}
	h.held = nil
}

func (h *hworld) nextBody() string {
	h.pubN++
	return fmt.Sprintf("m%d", h.pubN)
}

func (h *hworld) expectOK(c *WConn, what string) bool {
	f, ok := c.Next()
	if !ok || f.Type != frameTypeResponse || string(f.Data) != "OK" {
		h.bad("C01 C09 valid command not acknowledged", "%s answered %v (ok=%v)", what, f, ok)
		return false
	}
	return true
}

// Apply executes one event and brings the world to quiescence.
func (h *hworld) Apply(ev string) {
	h.hist = append(h.hist, ev)
	parts := strings.Split(ev, ":")
	w := h.w
	for _, c := range h.cons {
		c.rdyPrev = c.rdy
		c.newDeliv = 0
	}
	t0 := h.now()
	switch parts[0] {
	case "pub":
		b := h.nextBody()
		h.p.Cmd("PUB "+hTopic, []byte(b))
		if h.expectOK(h.p, "PUB") {
			h.ackPublish([]string{b}, 0, t0)
		}
	case "dpub":
		b := h.nextBody()
		h.p.Cmd("DPUB "+hTopic+" 200", []byte(b))
		if h.expectOK(h.p, "DPUB") {
			h.ackPublish([]string{b}, 200, t0)
		}
	case "mpub":
		b1, b2 := h.nextBody(), h.nextBody()
		h.p.Cmd("MPUB "+hTopic, mpubBody(b1, b2))
		if h.expectOK(h.p, "MPUB") {
			h.ackPublish([]string{b1, b2}, 0, t0)
		}
	case "hpub":
		b := h.nextBody()
		if code, body := w.Do("POST", "/pub?topic="+hTopic, []byte(b)); code != 200 {
			h.bad("C01 C10 valid publish not acknowledged", "POST /pub answered %d %s", code, body)
		} else {
			h.ackPublish([]string{b}, 0, t0)
		}
	case "hpubfail":
		b := h.nextBody()
		armed := true
		vos.Fault = func(e vos.Effect) error {
			if armed && e.Op == "write" && strings.Contains(e.Path, "/"+hTopic+".diskqueue.") {
				armed = false
				return syscall.ENOSPC
			}
			return nil
		}
		code, _ := w.Do("POST", "/pub?topic="+hTopic, []byte(b))
		vos.Fault = nil
		if code == 200 {
			h.ackPublish([]string{b}, 0, t0)
		} else if armed {
			h.bad("C10 C01 publish refused although nothing failed", "POST /pub answered %d and no disk write was attempted", code)
		}
	case "hpubchfail":
		// the publish is accepted by the topic; the write to the (only) channel's disk queue
		// fails. The publisher was answered OK before that, the failure is nsqd's to log - but
		// what the channel then says it received must still add up (C13): a message it could
		// not store is not one it holds, has finished or has discarded.
		b := h.nextBody()
		fired := false
		vos.Fault = func(e vos.Effect) error {
			if !fired && e.Op == "write" && strings.Contains(e.Path, "/"+hTopic+":") && strings.Contains(e.Path, ".diskqueue.") && !strings.Contains(e.Path, ".meta.") {
				fired = true
				return syscall.ENOSPC
			}
			return nil
		}
		code, body := w.Do("POST", "/pub?topic="+hTopic, []byte(b))
		w.Quiesce()
		vos.Fault = nil
		if code != 200 {
			h.bad("C01 C10 valid publish not acknowledged", "POST /pub answered %d %s", code, body)
		} else {
			h.ackPublish([]string{b}, 0, t0)
			if fired {
				for _, cn := range h.chanNames() {
					delete(h.chans[cn].msgs, b) // never reached the channel: a failing disk, not a C01 matter
				}
				h.ioLost++
			}
		}
	case "hmpub":
		b1, b2 := h.nextBody(), h.nextBody()
		if code, body := w.Do("POST", "/mpub?topic="+hTopic, []byte(b1+"\n"+b2)); code != 200 {
			h.bad("C01 C10 valid publish not acknowledged", "POST /mpub answered %d %s", code, body)
		} else {
			h.ackPublish([]string{b1, b2}, 0, t0)
		}
	case "sub":
		h.subscribe(parts[1], parts[2], !h.cfg.Buffered)
	case "rdy":
		c := h.cons[parts[1]]
		var r int64
		fmt.Sscan(parts[2], &r)
		c.conn.Cmd("RDY "+parts[2], nil)
		if c.closing {
			c.rdyAfterCls = true
		} else {
			c.rdy = r
		}
	case "cls":
		c := h.cons[parts[1]]
		c.conn.Cmd("CLS", nil)
		w.Quiesce()
		ok := false
		for _, f := range c.conn.Take() {
			switch {
			case f.Type == frameTypeMessage:
				// in stream order: what precedes CLOSE_WAIT was sent before CLS took effect
				h.delivery(c, f)
			case f.Type == frameTypeResponse && string(f.Data) == "CLOSE_WAIT":
				ok = true
				c.closing, c.rdy = true, 0
			}
		}
		if !ok {
			h.bad("C03 C09 CLS not answered CLOSE_WAIT", "no CLOSE_WAIT frame")
		}
		c.closing, c.rdy = true, 0
	case "drop":
		c := h.cons[parts[1]]
		c.conn.Close()
		c.connected = false
	case "fin", "req", "touch":
		h.answer(parts)
	case "mkch":
		if code, _ := w.Do("POST", "/channel/create?topic="+hTopic+"&channel="+parts[1], nil); code == 200 {
			h.chans[parts[1]].created = true
		} else {
			h.bad("C10 channel create failed", "code %d", code)
		}
	case "pause_ch", "unpause_ch":
		code, _ := w.Do("POST", "/channel/"+strings.TrimSuffix(parts[0], "_ch")+"?topic="+hTopic+"&channel=c", nil)
		if code != 200 {
			h.bad("C10 pause/unpause channel failed", "code %d", code)
		}
		h.chans["c"].paused = parts[0] == "pause_ch"
		h.chans["c"].pausedAt = h.now()
	case "pause_t", "unpause_t":
		code, _ := w.Do("POST", "/topic/"+strings.TrimSuffix(parts[0], "_t")+"?topic="+hTopic, nil)
		if code != 200 {
			h.bad("C10 pause/unpause topic failed", "code %d", code)
		}
		h.tpaused = parts[0] == "pause_t"
		h.tpausedAt = h.now()
	case "empty_ch":
		st := h.chanStats("c")
		code, _ := w.Do("POST", "/channel/empty?topic="+hTopic+"&channel=c", nil)
		if code != 200 {
			h.bad("C10 channel empty failed", "code %d", code)
		}
		c := h.chans["c"]
		if st != nil {
			c.discarded += uint64(st.Depth) + uint64(st.InFlightCount) + uint64(st.DeferredCount)
		}
		for _, m := range c.msgs {
			if m.state == "queued" || m.state == "held" || m.state == "deferred" {
				m.state = "discarded"
			}
		}
	case "del_ch":
		code, _ := w.Do("POST", "/channel/delete?topic="+hTopic+"&channel=c", nil)
		if code != 200 {
			h.bad("C10 channel delete failed", "code %d", code)
		}
		w.Quiesce()
		for _, c := range h.cons {
			if c.connected && c.ch == "c" {
				c.conn.Poll()
				if !c.conn.Closed {
					h.bad("C08 consumer not disconnected by channel delete", "consumer %s still connected", c.name)
				}
				c.connected = false
			}
		}
		h.chans["c"] = &lChan{name: "c", msgs: map[string]*lMsg{}}
		if ents, err := stdos.ReadDir(w.Dir); err == nil && w.Channel(hTopic, "c") == nil {
			for _, e := range ents {
				if strings.HasPrefix(e.Name(), hTopic+":c.diskqueue.") {
					h.bad("C08 disk file of a deleted channel left behind", "channel c was deleted, yet %s is still in the data directory", e.Name())
				}
			}
		}
	case "empty_t":
		code, _ := w.Do("POST", "/topic/empty?topic="+hTopic, nil)
		if code != 200 {
			h.bad("C10 topic empty failed", "code %d", code)
		}
		for _, b := range h.held {
			for _, c := range h.chans {
				if m := c.msgs[b]; m != nil && m.state == "intopic" {
					m.state = "discarded"
					m.owed = false
				}
			}
		}
		h.held = nil
	case "restart":
		h.hist = h.hist[:len(h.hist)-1]
		h.restart()
	case "adv":
		var ms int64
		fmt.Sscan(parts[1], &ms)
		vrt.SleepFor(ms * 1e6)
	default:
		panic("unknown event " + ev)
	}
	h.settle()
}

func (h *hworld) subscribe(n, chn string, unbuffered bool) *lCons {
	c := h.cons[n]
	if c == nil {
		c = &lCons{name: n}
		h.cons[n] = c
	}
	c.gen++
	c.conn = h.w.Dial(fmt.Sprintf("%s%d", n, c.gen))
	c.ch, c.rdy, c.rdyPrev, c.connected, c.closing, c.sent, c.fins, c.reqs, c.lastIDs, c.fatal = chn, 0, 0, true, false, 0, 0, 0, nil, false
	c.rdyAfterCls = false
	if unbuffered || h.cfg.Topology != "" {
		id := map[string]interface{}{"client_id": n}
		if unbuffered {
			id["output_buffer_size"] = -1
		}
		if h.cfg.Topology != "" {
			id["topology_region"], id["topology_zone"] = h.cfg.topologyOf(n)
		}
		f := c.conn.Identify(id)
		if string(f.Data) != "OK" {
			h.bad("C09 valid IDENTIFY refused", "%v", f)
		}
	}
	c.conn.Cmd("SUB "+hTopic+" "+chn, nil)
	if h.expectOK(c.conn, "SUB") {
		if h.chans[chn] == nil {
			h.chans[chn] = &lChan{name: chn, msgs: map[string]*lMsg{}}
		}
		h.chans[chn].created = true
	}
	return c
}

func (c *lCons) id() string { return fmt.Sprintf("%s#%d", c.name, c.gen) }

// heldBy lists the bodies the ledger attributes to consumer n's current connection on its
// channel, oldest first.
func (h *hworld) heldBy(n string) []*lMsg {
	c := h.cons[n]
	var out []*lMsg
	for _, m := range h.chans[c.ch].msgs {
		if m.state == "held" && m.to == c.id() {
			out = append(out, m)
		}
	}
	sort.Slice(out, func(i, j int) bool {
		if out[i].at != out[j].at {
			return out[i].at < out[j].at
		}
		return out[i].body < out[j].body
	})
	return out
}

// answer: FIN / REQ / TOUCH for the oldest message the consumer holds, or - when it holds
// none - for the last message it ever received (a stale answer that must fail).
func (h *hworld) answer(parts []string) {
	c := h.cons[parts[1]]
	ch := h.chans[c.ch]
	var m *lMsg
	id := ""
	if hs := h.heldBy(c.name); len(hs) > 0 {
		m = hs[0]
		id = h.idOf[m.body]
	} else {
		id = c.lastIDs[len(c.lastIDs)-1]
	}
	now := h.now()
	var cmd, code string
	switch parts[0] {
	case "fin":
		cmd, code = "FIN "+id, "E_FIN_FAILED"
	case "req":
		cmd, code = "REQ "+id+" "+parts[2], "E_REQ_FAILED"
	case "touch":
		cmd, code = "TOUCH "+id, "E_TOUCH_FAILED"
	}
	mark := len(c.conn.Frames)
	c.conn.Cmd(cmd, nil)
	h.w.Quiesce()
	failed := false
	for _, f := range c.conn.Frames[mark:] {
		if f.Type == frameTypeError {
			failed = true
			if !strings.HasPrefix(string(f.Data), code) {
				h.bad("C02 C09 wrong error code for a failed answer", "%s answered %q, want %s", cmd, f.Data, code)
			}
		}
	}
	if c.conn.Closed {
		h.bad("C02 C09 failed answer closed the connection", "%s: connection closed", cmd)
		c.connected = false
	}
	// what the ledger allows
	must, mustNot := false, false // must succeed / must fail
	if m == nil {
		mustNot = true
	} else {
		slackBefore := int64(0)
		if h.cfg.Buffered {
			slackBefore = hBufSlack
		}
		if now < m.deadline-slackBefore {
			must = true
		} else if now >= m.deadline+hScanSlack {
			mustNot = true
		}
	}
	if must && failed {
		h.bad("C02 answer from the current holder refused", "%s by %s failed although it held %s (delivered +%dms, deadline +%dms, now +%dms)", cmd, c.name, m.body, rel(m.at), rel(m.deadline), rel(now))
	}
	if mustNot && !failed {
		what := "a message it does not hold"
		if m != nil {
			what = fmt.Sprintf("%s whose timeout expired at +%dms (now +%dms)", m.body, rel(m.deadline), rel(now))
		}
		h.bad("C02 answer for a message not held was accepted", "%s by %s was accepted for %s", cmd, c.name, what)
	}
	if m == nil {
		return
	}
	if failed {
		// the hold had expired and the scan had already taken the message back
		if m.state == "held" {
			m.state = "queued"
		}
		return
	}
	switch parts[0] {
	case "fin":
		m.state = "finished"
		ch.finished++
		c.fins++
	case "req":
		ch.requeues++
		c.reqs++
		if parts[2] == "0" {
			m.state = "queued"
		} else {
			var ms int64
			fmt.Sscan(parts[2], &ms)
			m.state = "deferred"
			m.releaseAt = now + ms*1e6
		}
	case "touch":
		nd := now + hMsgTimeout
		if max := m.at + int64(h.w.Opts.MaxMsgTimeout); nd > max {
			nd = max
		}
		m.deadline = nd
	}
}

func rel(t int64) int64 { return (t - vrt.Epoch0) / 1e6 }

var reHexID = regexp.MustCompile(`^[0-9a-f]{16}$`)

// delivery processes one message frame received by consumer c.
func (h *hworld) delivery(c *lCons, f Frame) {
	now := f.At
	ch := h.chans[c.ch]
	body := f.Body
	c.sent++
	c.newDeliv++
	c.lastIDs = append(c.lastIDs, f.ID)
	// envelope (C07): id is 16 hex, id and timestamp identical on every delivery and channel
	if !reHexID.MatchString(f.ID) {
		h.bad("C07 message id is not 16 hex characters", "%q", f.ID)
	}
	if old, ok := h.idOf[body]; ok && old != f.ID {
		h.bad("C07 message id changed between deliveries", "%s: %s then %s", body, old, f.ID)
	}
	if old, ok := h.tsOf[body]; ok && old != f.TS {
		h.bad("C07 message timestamp changed between deliveries", "%s: %d then %d", body, old, f.TS)
	}
	if pa, ok := h.pubAt[body]; !ok {
		h.bad("C07 delivered a body that was never published", "%q", body)
	} else if f.TS < pa[0] || f.TS > pa[1] {
		h.bad("C07 message timestamp outside its publish call", "%s: ts +%dms, publish call +%dms..+%dms", body, rel(f.TS), rel(pa[0]), rel(pa[1]))
	}
	h.idOf[body], h.tsOf[body], h.byID[f.ID] = f.ID, f.TS, body
	m := ch.msgs[body]
	if m == nil {
		m = &lMsg{body: body, state: "queued"}
		ch.msgs[body] = m
	}
	early := int64(0)
	if h.cfg.Buffered {
		early = hBufSlack
	}
	switch m.state {
	case "finished":
		h.bad("C02 delivered again after accepted FIN", "%s on channel %s delivered to %s (attempts %d) after its FIN was accepted", body, c.ch, c.name, f.Attempts)
	case "discarded":
		h.bad("C08 discarded message delivered afterwards", "%s on channel %s delivered to %s after the channel was emptied", body, c.ch, c.name)
	case "intopic":
		if h.tpaused && now > h.tpausedAt+h.skew() {
			h.bad("C03 paused topic handed a message to a channel", "%s delivered to %s while the topic is paused", body, c.name)
		}
	case "held":
		if now < m.deadline-early {
			h.bad("C02 C04 redelivered before its timeout", "%s held by %s since +%dms (deadline +%dms) delivered to %s at +%dms", body, m.to, rel(m.at), rel(m.deadline), c.name, rel(now))
		}
	case "deferred":
		if now < m.releaseAt-early {
			h.bad("C04 deferred message delivered early", "%s not due before +%dms, delivered to %s at +%dms", body, rel(m.releaseAt), c.name, rel(now))
		}
	}
	if f.Attempts != m.attempts+1 {
		h.bad("C02 attempts not consecutive", "%s on channel %s: delivery carries attempts %d, previous delivery had %d", body, c.ch, f.Attempts, m.attempts)
	}
	if ch.paused && !h.draining && now > ch.pausedAt+h.skew() {
		h.bad("C03 paused channel delivered a message", "%s delivered to %s while channel %s is paused", body, c.name, c.ch)
	}
	if c.closing {
		h.bad("C03 message sent after CLS", "%s delivered to %s after CLOSE_WAIT", body, c.name)
	}
	m.state, m.to, m.attempts, m.at, m.deadline = "held", c.id(), f.Attempts, now, now+hMsgTimeout
	m.delivs++
	if h.draining {
		m.drained++
	}
}

// settle brings the world to quiescence, folds every frame into the ledger and evaluates
// the per-step oracles.
func (h *hworld) settle() {
	h.w.Quiesce()
	h.flushTopic()
	for _, n := range h.consNames() {
		c := h.cons[n]
		if c.conn == nil {
			continue
		}
		for _, f := range c.conn.Take() {
			switch f.Type {
			case frameTypeMessage:
				h.delivery(c, f)
			case frameTypeError:
				if !strings.HasPrefix(string(f.Data), "E_FIN_FAILED") && !strings.HasPrefix(string(f.Data), "E_REQ_FAILED") && !strings.HasPrefix(string(f.Data), "E_TOUCH_FAILED") {
					h.bad("C09 unexpected error frame", "consumer %s got %q", n, f.Data)
				}
			}
		}
		if c.connected && c.conn.Closed {
			h.bad("C09 connection closed unexpectedly", "consumer %s", n)
			c.connected = false
		}
	}
	now := h.now()
	// holds whose timeout has certainly been processed
	for _, ch := range h.chans {
		for _, m := range ch.msgs {
			if m.state == "held" && now >= m.deadline+hScanSlack {
				m.state = "queued"
			}
			if m.state == "deferred" && now >= m.releaseAt+hScanSlack {
				m.state = "queued"
			}
		}
	}
	if h.draining {
		return
	}
	// C03: RDY. A consumer that was sent something in this step holds, afterwards, no more
	// unexpired messages than the RDY count in effect during the step.
	for _, n := range h.consNames() {
		c := h.cons[n]
		if !c.connected || c.newDeliv == 0 {
			continue
		}
		def := 0
		for _, m := range h.heldBy(n) {
			if now < m.deadline-h.skew() {
				def++
			}
		}
		lim := c.rdy
		if c.rdyPrev > lim {
			lim = c.rdyPrev
		}
		if int64(def) > lim {
			h.bad("C03 more messages in flight than RDY", "consumer %s was sent %d message(s) in this step and now holds %d unexpired with RDY %d (before the step: %d)", n, c.newDeliv, def, c.rdy, c.rdyPrev)
		}
	}
	h.checkStats()
}

// ---- /stats (C13)

type statsDoc struct {
	Topics []struct {
		TopicName    string      `json:"topic_name"`
		Channels     []chanStats `json:"channels"`
		Depth        int64       `json:"depth"`
		MessageCount uint64      `json:"message_count"`
		MessageBytes uint64      `json:"message_bytes"`
		Paused       bool        `json:"paused"`
	} `json:"topics"`
}

type chanStats struct {
	ChannelName   string `json:"channel_name"`
	Depth         int64  `json:"depth"`
	InFlightCount int64  `json:"in_flight_count"`
	DeferredCount int64  `json:"deferred_count"`
	MessageCount  uint64 `json:"message_count"`
	RequeueCount  uint64 `json:"requeue_count"`
	TimeoutCount  uint64 `json:"timeout_count"`
	ClientCount   int    `json:"client_count"`
	Paused        bool   `json:"paused"`
	Clients       []struct {
		ClientID      string `json:"client_id"`
		ReadyCount    int64  `json:"ready_count"`
		InFlightCount int64  `json:"in_flight_count"`
		MessageCount  uint64 `json:"message_count"`
		FinishCount   uint64 `json:"finish_count"`
		RequeueCount  uint64 `json:"requeue_count"`
		State         int32  `json:"state"`
	} `json:"clients"`
}

func (h *hworld) stats(q string) *statsDoc {
	code, body := h.w.Do("GET", "/stats?format=json"+q, nil)
	if code != 200 {
		h.bad("C13 C10 /stats failed", "code %d %s", code, body)
		return nil
	}
	var d statsDoc
	if err := json.Unmarshal([]byte(body), &d); err != nil {
		h.bad("C13 /stats is not valid JSON", "%v: %s", err, body)
		return nil
	}
	return &d
}

func (h *hworld) chanStats(name string) *chanStats {
	d := h.stats("&topic=" + hTopic + "&channel=" + name)
	if d == nil || len(d.Topics) != 1 {
		return nil
	}
	for i := range d.Topics[0].Channels {
		if d.Topics[0].Channels[i].ChannelName == name {
			return &d.Topics[0].Channels[i]
		}
	}
	return nil
}

func (h *hworld) checkStats() {
	d := h.stats("&include_clients=true")
	if d == nil {
		return
	}
	now := h.now()
	if !h.topicExists() {
		return
	}
	if len(d.Topics) != 1 || d.Topics[0].TopicName != hTopic {
		h.bad("C13 /stats topic list wrong", "%+v", d.Topics)
		return
	}
	t := d.Topics[0]
	if t.MessageCount != uint64(len(h.bodies)) {
		h.bad("C13 topic message_count differs from acknowledged publishes", "message_count=%d acknowledged=%d", t.MessageCount, len(h.bodies))
	}
	if t.MessageBytes != h.bytes {
		h.bad("C13 topic message_bytes differs from acknowledged publishes", "message_bytes=%d acknowledged=%d", t.MessageBytes, h.bytes)
	}
	if t.Paused != h.tpaused {
		h.bad("C13 C10 topic paused flag wrong", "stats %v ledger %v", t.Paused, h.tpaused)
	}
	if t.Depth != int64(len(h.held)) {
		h.bad("C13 C03 topic depth differs from the publishes it should still hold", "depth=%d, ledger holds %v (paused=%v channels=%v)", t.Depth, h.held, h.tpaused, h.chanNames())
	}
	if len(t.Channels) != len(h.chanNames()) {
		h.bad("C13 /stats channel list wrong", "stats has %d channels, ledger %v", len(t.Channels), h.chanNames())
		return
	}
	for _, cs := range t.Channels {
		lc := h.chans[cs.ChannelName]
		if lc == nil || !lc.created {
			h.bad("C13 /stats lists an unknown channel", "%s", cs.ChannelName)
			continue
		}
		if cs.Depth < 0 || cs.InFlightCount < 0 || cs.DeferredCount < 0 {
			h.bad("C13 negative count in /stats", "%+v", cs)
		}
		if cs.MessageCount != uint64(cs.Depth)+uint64(cs.InFlightCount)+uint64(cs.DeferredCount)+lc.finished+lc.discarded {
			h.bad("C13 channel conservation broken", "channel %s: message_count=%d but depth %d + in_flight %d + deferred %d + finished %d + discarded %d", cs.ChannelName, cs.MessageCount, cs.Depth, cs.InFlightCount, cs.DeferredCount, lc.finished, lc.discarded)
		}
		if cs.RequeueCount != lc.requeues {
			h.bad("C13 channel requeue_count wrong", "channel %s: requeue_count=%d, accepted REQs=%d", cs.ChannelName, cs.RequeueCount, lc.requeues)
		}
		if cs.Paused != lc.paused {
			h.bad("C13 C10 channel paused flag wrong", "channel %s: stats %v ledger %v", cs.ChannelName, cs.Paused, lc.paused)
		}
		// the ledger's view of where each message is, against the three counts
		q, fl, flMaybe, df, dfMaybe := 0, 0, 0, 0, 0
		for _, m := range lc.msgs {
			switch m.state {
			case "queued":
				q++
			case "held":
				if now < m.deadline-h.skew() {
					fl++
				} else {
					flMaybe++
				}
			case "deferred":
				if now < m.releaseAt {
					df++
				} else {
					dfMaybe++
				}
			}
		}
		total := q + fl + flMaybe + df + dfMaybe
		if int(cs.Depth+cs.InFlightCount+cs.DeferredCount) != total {
			h.bad("C13 C01 channel holds a different number of messages than the ledger", "channel %s: depth %d + in_flight %d + deferred %d, ledger has %d unfinished (%d queued, %d+%d? in flight, %d+%d? deferred)", cs.ChannelName, cs.Depth, cs.InFlightCount, cs.DeferredCount, total, q, fl, flMaybe, df, dfMaybe)
		}
		if int(cs.InFlightCount) < fl || int(cs.InFlightCount) > fl+flMaybe {
			h.bad("C13 channel in_flight_count wrong", "channel %s: in_flight_count=%d, ledger %d..%d", cs.ChannelName, cs.InFlightCount, fl, fl+flMaybe)
		}
		if int(cs.DeferredCount) < df || int(cs.DeferredCount) > df+dfMaybe {
			h.bad("C13 channel deferred_count wrong", "channel %s: deferred_count=%d, ledger %d..%d", cs.ChannelName, cs.DeferredCount, df, df+dfMaybe)
		}
		// clients
		want := 0
		for _, n := range h.consNames() {
			c := h.cons[n]
			if !c.connected || c.ch != cs.ChannelName {
				continue
			}
			want++
			found := false
			for _, k := range cs.Clients {
				if k.ClientID != n && !(h.cfg.Buffered && strings.HasPrefix(k.ClientID, "127.")) {
					continue
				}
				found = true
				if h.cfg.Buffered {
					continue // without IDENTIFY clients cannot be told apart by id
				}
				def, maybe := 0, 0
				for _, m := range h.heldBy(n) {
					if now < m.deadline-h.skew() {
						def++
					} else {
						maybe++
					}
				}
				if k.ReadyCount != c.rdy {
					h.bad("C13 client ready_count wrong", "%s: ready_count=%d, last RDY %d (closing=%v)", n, k.ReadyCount, c.rdy, c.closing)
				}
				if k.InFlightCount < int64(def) || k.InFlightCount > int64(def+maybe) {
					h.bad("C13 client in_flight_count wrong", "%s: in_flight_count=%d, ledger %d..%d", n, k.InFlightCount, def, def+maybe)
				}
				if k.MessageCount != c.sent {
					h.bad("C13 client message_count wrong", "%s: message_count=%d, frames received %d", n, k.MessageCount, c.sent)
				}
				if k.FinishCount != c.fins {
					h.bad("C13 client finish_count wrong", "%s: finish_count=%d, accepted FINs %d", n, k.FinishCount, c.fins)
				}
				if k.RequeueCount != c.reqs {
					h.bad("C13 client requeue_count wrong", "%s: requeue_count=%d, accepted REQs %d", n, k.RequeueCount, c.reqs)
				}
			}
			if !found {
				h.bad("C13 connected consumer missing from /stats", "%s on %s", n, cs.ChannelName)
			}
		}
		if cs.ClientCount != want {
			h.bad("C13 channel client_count wrong", "channel %s: client_count=%d, connected consumers %d", cs.ChannelName, cs.ClientCount, want)
		}
	}
	// the text rendering carries the same numbers
	if code, txt := h.w.Do("GET", "/stats", nil); code != 200 {
		h.bad("C13 text /stats failed", "code %d", code)
	} else {
		tm := reTopicLine.FindStringSubmatch(txt)
		if tm == nil || tm[1] != fmt.Sprint(t.Depth) || tm[3] != fmt.Sprint(t.MessageCount) {
			h.bad("C13 text /stats disagrees with JSON", "topic: JSON depth %d msgs %d, text %v in:\n%s", t.Depth, t.MessageCount, tm, txt)
		}
		for _, cs := range t.Channels {
			re := regexp.MustCompile(`\[` + regexp.QuoteMeta(cs.ChannelName) + `\s*\] depth: (\d+)\s+be-depth: (\d+)\s+inflt: (\d+)\s+def: (\d+)\s+re-q: (\d+)\s+timeout: (\d+)\s+msgs: (\d+)`)
			cm := re.FindStringSubmatch(txt)
			want := []string{fmt.Sprint(cs.Depth), "", fmt.Sprint(cs.InFlightCount), fmt.Sprint(cs.DeferredCount), fmt.Sprint(cs.RequeueCount), fmt.Sprint(cs.TimeoutCount), fmt.Sprint(cs.MessageCount)}
			ok := cm != nil
			for i := 0; ok && i < len(want); i++ {
				if want[i] != "" && cm[i+1] != want[i] {
					ok = false
				}
			}
			if !ok {
				h.bad("C13 text /stats disagrees with JSON", "channel %s: JSON %v, text %v", cs.ChannelName, want, cm)
			}
		}
	}
}

var reTopicLine = regexp.MustCompile(`\[` + hTopic + `\s*\] depth: (\d+)\s+be-depth: (\d+)\s+msgs: (\d+)`)

// Key is the canonical form of the state: everything the future can depend on, with ids
// replaced by publication order and times made relative to now.
func (h *hworld) Key() string {
	now := h.now()
	var sb strings.Builder
	fmt.Fprintf(&sb, "ph%d|tp%v|held%v|n%d|r%d", (now-vrt.Epoch0)/1e6%500, h.tpaused, h.held, h.pubN, h.restarts)
	for _, cn := range []string{"c", "d"} {
		c := h.chans[cn]
		if c == nil || !c.created {
			continue
		}
		fmt.Fprintf(&sb, "|ch %s p%v:", cn, c.paused)
		var bs []string
		for b := range c.msgs {
			bs = append(bs, b)
		}
		sort.Strings(bs)
		for _, b := range bs {
			m := c.msgs[b]
			switch m.state {
			case "held":
				fmt.Fprintf(&sb, " %s=held(%s,a%d,%+d)", b, m.to, m.attempts, (m.deadline-now)/1e6)
			case "deferred":
				fmt.Fprintf(&sb, " %s=def(a%d,%+d)", b, m.attempts, (m.releaseAt-now)/1e6)
			default:
				fmt.Fprintf(&sb, " %s=%s(a%d)", b, m.state, m.attempts)
			}
		}
		if st := h.chanStats(cn); st != nil {
			fmt.Fprintf(&sb, " [%d/%d/%d]", st.Depth, st.InFlightCount, st.DeferredCount)
		}
	}
	for _, n := range h.consNames() {
		c := h.cons[n]
		if !c.connected {
			fmt.Fprintf(&sb, "|%s off", n)
			continue
		}
		last := ""
		if len(c.lastIDs) > 0 {
			last = h.byID[c.lastIDs[len(c.lastIDs)-1]]
		}
		fmt.Fprintf(&sb, "|%s on %s rdy%d cls%v%v last%s", n, c.ch, c.rdy, c.closing, c.rdyAfterCls, last)
	}
	return sb.String()
}

// Drain: everything is unpaused, live consumers stop asking for messages, one fresh
// consumer per channel takes and finishes whatever comes, and time passes until nothing
// has arrived for a while. Afterwards every owed (message, channel) pair that was not
// finished or discarded before must have been delivered (C01).
func (h *hworld) Drain() {
	h.draining = true
	w := h.w
	type pend struct {
		ch string
		m  *lMsg
	}
	var owed []pend
	for _, cn := range h.chanNames() {
		for _, m := range h.chans[cn].msgs {
			if m.owed && m.state != "finished" && m.state != "discarded" {
				owed = append(owed, pend{cn, m})
			}
		}
	}
	if h.topicExists() && h.tpaused {
		w.Do("POST", "/topic/unpause?topic="+hTopic, nil)
		h.tpaused = false
	}
	for _, cn := range h.chanNames() {
		if h.chans[cn].paused {
			w.Do("POST", "/channel/unpause?topic="+hTopic+"&channel="+cn, nil)
			h.chans[cn].paused = false
		}
	}
	for _, n := range h.consNames() {
		if c := h.cons[n]; c.connected && !c.closing {
			c.conn.Cmd("RDY 0", nil)
			c.rdy = 0
		}
	}
	h.settle()
	var drains []*lCons
	for i, cn := range h.chanNames() {
		c := h.subscribe(fmt.Sprintf("z%d", i), cn, true)
		c.conn.Cmd("RDY 100", nil)
		c.rdy = 100
		drains = append(drains, c)
	}
	idle := 0
	for round := 0; round < 60 && (idle < 4 || round < 8); round++ {
		h.settle()
		got := false
		for _, c := range drains {
			for _, m := range h.heldBy(c.name) {
				got = true
				mark := len(c.conn.Frames)
				c.conn.Cmd("FIN "+h.idOf[m.body], nil)
				h.w.Quiesce()
				c.conn.Poll()
				failed := false
				for _, f := range c.conn.Frames[mark:] {
					if f.Type == frameTypeError {
						failed = true
					}
				}
				if !failed {
					m.state = "finished"
					h.chans[c.ch].finished++
					c.fins++
				} else {
					m.state = "queued"
				}
			}
		}
		if got {
			idle = 0
		} else {
			idle++
		}
		vrt.SleepFor(int64(600 * time.Millisecond))
	}
	h.settle()
	for _, p := range owed {
		if p.m.drained == 0 && p.m.state != "finished" {
			clause := "C01 acknowledged message lost"
			if h.restarts > 0 {
				clause = "C05 C01 acknowledged unfinished message lost across a graceful restart"
				if !h.oldInflight[p.ch][p.m.body] && h.pumpSends[p.ch] > 0 {
					// a pump read the message back from the backend the flush had just written
					h.pumpSends[p.ch]--
					h.oldInflight[p.ch][p.m.body] = true
				}
				if h.oldInflight[p.ch][p.m.body] {
					clause = "C05 message in the hands of a delivery pump lost by a graceful shutdown"
				}
			}
			h.bad(clause, "%s owed on channel %s (state before the drain: see history) was never delivered during the drain; ledger state now %s, attempts %d", p.m.body, p.ch, p.m.state, p.m.attempts)
		}
	}
	for _, cn := range h.chanNames() {
		if st := h.chanStats(cn); st != nil && (st.Depth != 0 || st.InFlightCount != 0 || st.DeferredCount != 0) {
			h.bad("C01 drain did not converge", "channel %s after the drain: depth %d in_flight %d deferred %d", cn, st.Depth, st.InFlightCount, st.DeferredCount)
		}
	}
}

func newHWorld(cfg HistCfg, dir string) (*hworld, string) {
	h := &hworld{cfg: cfg, chans: map[string]*lChan{"c": {name: "c", msgs: map[string]*lMsg{}}, "d": {name: "d", msgs: map[string]*lMsg{}}},
		cons: map[string]*lCons{}, byID: map[string]string{}, idOf: map[string]string{}, tsOf: map[string]int64{}, pubAt: map[string][2]int64{}}
	w, err := NewWorld(dir, WOpts{MemQ: cfg.MemQ, MaxBytesPerFile: cfg.MaxBytes, Verbose: cfg.Trace, Mod: cfg.mod()})
	if err != nil {
		return nil, err.Error()
	}
	h.w = w
	h.p = w.Dial("p")
	w.Quiesce()
	return h, ""
}

// RunHist replays a history and reports key, enabled events and violations. With
// drain=true the world is drained (after a restart if cfg.Restart) and judged for loss.
func RunHist(cfg HistCfg, hist []string, drain bool) HistRes {
	h, e := newHWorld(cfg, FreshDir())
	if e != "" {
		return HistRes{Viol: []vx.Found{{Sig: "INFRA world setup failed :: hist", Detail: e}}}
	}
	defer func() { h.w.Release() }()
	for _, ev := range cfg.Pre {
		h.Apply(ev)
	}
	h.preN = h.pubN
	for _, ev := range hist {
		h.Apply(ev)
	}
	res := HistRes{Key: h.Key(), Menu: h.Menu()}
	if drain {
		if cfg.Restart {
			h.restart()
		}
		h.Drain()
	}
	res.Viol = h.viol
	res.Obs = fmt.Sprintf("%d violations", len(h.viol))
	return res
}

// restart: graceful Exit, then a new daemon on the same data path (what apps/nsqd does at
// start-up), with the ledger carried over: consumers are gone, every unfinished message
// is queued again with its attempts count, flags and objects persist (C05).
func (h *hworld) restart() {
	old := h.w
	old.Quiesce()
	h.restarts++
	h.hist = append(h.hist, "EXIT+RESTART")
	fw := WatchFlush(old.N)
	old.N.Exit()
	old.exited = true
	// post-mortem of the old daemon (see the C05 known finding): Channel.flush writes the
	// in-flight table to the backend without clearing it, so a message that turns out LOST
	// and sits in the old in-flight table was registered in flight after the flush - by a
	// consumer's messagePump that took it off the queue (or off the just-flushed backend)
	// while Exit was closing the channel
	vrt.Quiesce() // (consumer pumps are told to stop, not waited for: let them finish)
	fw.Stop()
	if h.oldInflight == nil {
		h.oldInflight = map[string]map[string]bool{}
		h.pumpSends = map[string]int{}
	}
	for _, cn := range h.chanNames() {
		if h.oldInflight[cn] == nil {
			h.oldInflight[cn] = map[string]bool{}
		}
		for body := range fw.RegisteredAfterFlush(hTopic, cn) {
			h.oldInflight[cn][body] = true
		}
		h.pumpSends[cn] += fw.SendsAfterFlush(hTopic, cn)
	}
	// a restart takes time: without this the new process would start in the very same
	// (virtual) millisecond, and its id generator - same node id, sequence back at 0 - would
	// re-issue the ids of messages that are still around
	vrt.SleepFor(int64(50 * time.Millisecond))
	for _, n := range h.consNames() {
		c := h.cons[n]
		if c.conn != nil {
			c.conn.Poll()
			if c.connected && !c.conn.Closed {
				h.bad("C05 consumer connection still open after Exit", "%s", n)
			}
		}
		c.connected = false
	}
	w2, err := NewWorld(old.Dir, WOpts{MemQ: h.cfg.MemQ, MaxBytesPerFile: h.cfg.MaxBytes, Verbose: h.cfg.Trace, Mod: h.cfg.mod()})
	if err != nil {
		h.bad("C05 C06 restart on the same data path failed", "%v", err)
		// keep going on a throw-away world so that the caller can finish
		w2, _ = NewWorld(FreshDir(), WOpts{MemQ: h.cfg.MemQ})
	}
	h.w = w2
	h.p = w2.Dial("p2")
	for _, c := range h.chans {
		for _, m := range c.msgs {
			switch m.state {
			case "held", "deferred":
				m.state = "queued"
			}
		}
	}
	w2.Quiesce()
	h.flushTopic()
	// objects and flags
	d := h.stats("")
	hadTopic := len(h.bodies) > 0 || len(h.chanNames()) > 0 || h.topicSeen
	if d != nil {
		if hadTopic && len(d.Topics) != 1 {
			h.bad("C05 topic missing after restart", "stats lists %d topics", len(d.Topics))
		}
		if len(d.Topics) == 1 {
			t := d.Topics[0]
			if t.Paused != h.tpaused {
				h.bad("C05 topic paused flag not restored", "after restart paused=%v, before %v", t.Paused, h.tpaused)
			}
			var got []string
			for _, cs := range t.Channels {
				got = append(got, cs.ChannelName)
				if lc := h.chans[cs.ChannelName]; lc != nil && lc.created && cs.Paused != lc.paused {
					h.bad("C05 channel paused flag not restored", "channel %s after restart paused=%v, before %v", cs.ChannelName, cs.Paused, lc.paused)
				}
			}
			sort.Strings(got)
			if fmt.Sprint(got) != fmt.Sprint(h.chanNames()) {
				h.bad("C05 channels differ after restart", "after restart %v, before %v", got, h.chanNames())
			}
			// conservation across the restart: what the topic still held for itself (no
			// channel yet, or paused) is in the topic again, and every channel holds exactly
			// its unfinished messages (nothing is in flight or deferred right after a start)
			if int(t.Depth) != len(h.held) {
				h.bad("C05 topic backlog not restored by the restart", "the topic held %d acknowledged message(s) of its own (%v) when shutdown was requested (paused=%v, channels %v); after the restart its depth is %d", len(h.held), h.held, h.tpaused, h.chanNames(), t.Depth)
			}
			// (per channel the drain decides, message by message: a count would not tell a
			// message lost in a delivery pump's hands - the known finding - from any other)
		}
	}
}
