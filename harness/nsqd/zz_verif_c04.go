//go:build go1.18 && verif

package nsqd

// C04: the two priority queues as data structures (explicit-state BFS against a sorted
// list), delay spellings (E5) and timing scenarios in virtual time.

import (
	"container/heap"
	"fmt"
	"math/big"
	"regexp"
	"sort"
	"strings"
	"time"

	"github.com/nsqio/nsq/internal/pqueue"
	"github.com/nsqio/nsq/internal/verif/vrt"
	"github.com/nsqio/nsq/internal/verif/vx"
)

// ---------------------------------------------------------------- heaps

type heapAdapter interface {
	Push(pri int64)
	Pop() (int64, bool)
	Remove(i int) (int64, bool)
	PeekAndShift(max int64) (pri int64, got bool)
	Len() int
	Check() string // structural invariants
	Pris() []int64 // slice contents in storage order
}

type inflightHeap struct{ pq inFlightPqueue }

func (h *inflightHeap) Push(p int64) { h.pq.Push(&Message{pri: p}) }
func (h *inflightHeap) Pop() (int64, bool) {
	if len(h.pq) == 0 {
		return 0, false
	}
	m := h.pq.Pop()
	if m.index != -1 {
		return m.pri, false
	}
	return m.pri, true
}
func (h *inflightHeap) Remove(i int) (int64, bool) {
	m := h.pq.Remove(i)
	return m.pri, m.index == -1
}
func (h *inflightHeap) PeekAndShift(max int64) (int64, bool) {
	m, _ := h.pq.PeekAndShift(max)
	if m == nil {
		return 0, false
	}
	return m.pri, true
}
func (h *inflightHeap) Len() int { return len(h.pq) }
func (h *inflightHeap) Pris() []int64 {
	var s []int64
	for _, m := range h.pq {
		s = append(s, m.pri)
	}
	return s
}
func (h *inflightHeap) Check() string {
	for i, m := range h.pq {
		if m.index != i {
			return fmt.Sprintf("element at %d has index %d", i, m.index)
		}
		if i > 0 && h.pq[(i-1)/2].pri > m.pri {
			return fmt.Sprintf("heap order broken at %d", i)
		}
	}
	return ""
}

type deferredHeap struct{ pq pqueue.PriorityQueue }

func (h *deferredHeap) Push(p int64) { heap.Push(&h.pq, &pqueue.Item{Priority: p}) }
func (h *deferredHeap) Pop() (int64, bool) {
	if len(h.pq) == 0 {
		return 0, false
	}
	it := heap.Pop(&h.pq).(*pqueue.Item)
	return it.Priority, it.Index == -1
}
func (h *deferredHeap) Remove(i int) (int64, bool) {
	it := heap.Remove(&h.pq, i).(*pqueue.Item)
	return it.Priority, it.Index == -1
}
func (h *deferredHeap) PeekAndShift(max int64) (int64, bool) {
	it, _ := h.pq.PeekAndShift(max)
	if it == nil {
		return 0, false
	}
	return it.Priority, true
}
func (h *deferredHeap) Len() int { return len(h.pq) }
func (h *deferredHeap) Pris() []int64 {
	var s []int64
	for _, m := range h.pq {
		s = append(s, m.Priority)
	}
	return s
}
func (h *deferredHeap) Check() string {
	for i, m := range h.pq {
		if m.Index != i {
			return fmt.Sprintf("element at %d has Index %d", i, m.Index)
		}
		if i > 0 && h.pq[(i-1)/2].Priority > m.Priority {
			return fmt.Sprintf("heap order broken at %d", i)
		}
	}
	return ""
}

type HeapStats struct {
	States      int        `json:"states"`
	Transitions int        `json:"transitions"`
	Depth       int        `json:"depth"`
	Viol        []vx.Found `json:"viol"`
	Sample      []string   `json:"sample"`
}

// HeapBFS explores every operation sequence up to depth on the real heap (which: "inflight"
// or "deferred"), from capacity 1, against a sorted multiset; states are deduplicated by
// the slice contents.
func HeapBFS(which string, depth int) HeapStats {
	mk := func() heapAdapter {
		if which == "inflight" {
			return &inflightHeap{pq: newInFlightPqueue(1)}
		}
		return &deferredHeap{pq: pqueue.New(1)}
	}
	st := HeapStats{Depth: depth}
	type state struct{ hist []string }
	apply := func(h heapAdapter, model *[]int64, op string) string {
		var k string
		var a int64
		fmt.Sscanf(op, "%1s%d", &k, &a)
		sort.Slice(*model, func(i, j int) bool { return (*model)[i] < (*model)[j] })
		switch k {
		case "P":
			h.Push(a)
			*model = append(*model, a)
		case "O":
			p, ok := h.Pop()
			if !ok {
				return "Pop: popped element's index is not -1"
			}
			if p != (*model)[0] {
				return fmt.Sprintf("Pop returned %d, minimum is %d", p, (*model)[0])
			}
			*model = (*model)[1:]
		case "R":
			want := h.Pris()[a]
			p, ok := h.Remove(int(a))
			if !ok {
				return "Remove: removed element's index is not -1"
			}
			if p != want {
				return fmt.Sprintf("Remove(%d) returned %d, slot held %d", a, p, want)
			}
			for i, v := range *model {
				if v == p {
					*model = append((*model)[:i], (*model)[i+1:]...)
					break
				}
			}
		case "S":
			p, got := h.PeekAndShift(a)
			should := len(*model) > 0 && (*model)[0] <= a
			if got != should {
				return fmt.Sprintf("PeekAndShift(%d) returned an element=%v, minimum %v (must return one iff minimum <= max)", a, got, *model)
			}
			if got {
				if p != (*model)[0] {
					return fmt.Sprintf("PeekAndShift(%d) returned %d, minimum is %d", a, p, (*model)[0])
				}
				*model = (*model)[1:]
			}
		}
		if e := h.Check(); e != "" {
			return e
		}
		got := append([]int64(nil), h.Pris()...)
		sort.Slice(got, func(i, j int) bool { return got[i] < got[j] })
		want := append([]int64(nil), *model...)
		sort.Slice(want, func(i, j int) bool { return want[i] < want[j] })
		if fmt.Sprint(got) != fmt.Sprint(want) {
			return fmt.Sprintf("contents %v differ from the model %v", got, want)
		}
		return ""
	}
	build := func(hist []string) (heapAdapter, []int64, string) {
		h := mk()
		var model []int64
		for _, op := range hist {
			if e := apply(h, &model, op); e != "" {
				return h, model, e
			}
		}
		return h, model, ""
	}
	seen := map[string]bool{"[]": true}
	frontier := []state{{}}
	st.States = 1
	for d := 0; d < depth; d++ {
		var next []state
		for _, s := range frontier {
			h, _, _ := build(s.hist)
			var menu []string
			for _, p := range []int64{1, 2, 3} {
				menu = append(menu, fmt.Sprintf("P%d", p))
			}
			if h.Len() > 0 {
				menu = append(menu, "O0")
				for i := 0; i < h.Len(); i++ {
					menu = append(menu, fmt.Sprintf("R%d", i))
				}
			}
			for _, m := range []int64{0, 1, 2, 3} {
				menu = append(menu, fmt.Sprintf("S%d", m))
			}
			for _, op := range menu {
				nh := append(append([]string{}, s.hist...), op)
				h2, _, e := build(nh)
				st.Transitions++
				if e != "" {
					if len(st.Viol) < 5 {
						st.Viol = append(st.Viol, vx.Found{Sig: "C04 C02 " + which + " priority queue misbehaves :: heap", Detail: fmt.Sprintf("after %v: %s", nh, e), Replay: map[string]interface{}{"kind": "heap", "which": which, "ops": nh}})
					}
					continue
				}
				k := fmt.Sprint(h2.Pris())
				if !seen[k] {
					seen[k] = true
					st.States++
					next = append(next, state{nh})
					if len(st.Sample) < 3 && d == depth-1 {
						st.Sample = append(st.Sample, strings.Join(nh, " ")+" => "+k)
					}
				}
			}
		}
		frontier = next
	}
	return st
}

// ---------------------------------------------------------------- delay spellings (E5)

type DelaySpec struct {
	Kind   string `json:"kind"`   // req | dpub | http
	Text   string `json:"text"`   // the number as written
	MaxReq int64  `json:"maxreq"` // max-req-timeout in ms
}

var reDecimal = regexp.MustCompile(`^[0-9]+$`)

// denote: the value a spelling denotes, if it is a plain decimal; ok=false for anything else.
func denote(s string) (*big.Int, bool) {
	if !reDecimal.MatchString(s) {
		return nil, false
	}
	v, _ := new(big.Int).SetString(s, 10)
	return v, true
}

func RunDelay(spec DelaySpec) vx.Out {
	var viol []vx.Found
	bad := func(clause, f string, a ...interface{}) {
		viol = append(viol, vx.Found{Sig: fmt.Sprintf("%s :: delay %s %q max-req-timeout=%dms", clause, spec.Kind, spec.Text, spec.MaxReq), Detail: fmt.Sprintf(f, a...)})
	}
	w, err := NewWorld(FreshDir(), WOpts{MemQ: 10, MaxReqTimeout: time.Duration(spec.MaxReq) * time.Millisecond})
	if err != nil {
		return vx.Out{Obs: "world: " + err.Error(), Viol: []vx.Found{{Sig: "INFRA world :: delay", Detail: err.Error()}}}
	}
	defer w.Release()
	a := w.Dial("a")
	a.Identify(map[string]interface{}{"client_id": "a", "output_buffer_size": -1})
	a.Cmd("SUB t c", nil)
	a.Next()
	a.Cmd("RDY 1", nil)
	w.Sleep(600 * time.Millisecond) // the channel is now in the scan loop's list
	a.Take()
	val, isDec := denote(spec.Text)
	max := big.NewInt(spec.MaxReq)
	var stash []Frame
	msgs := func() []Frame {
		out := stash
		stash = nil
		for _, f := range a.Take() {
			if f.Type == frameTypeMessage {
				out = append(out, f)
			}
		}
		return out
	}
	topicCount := func() (uint64, int64) {
		t := w.Topic("t")
		if t == nil {
			return 0, 0
		}
		st := w.N.GetStats("t", "", false)
		if len(st.Topics) == 0 {
			return 0, 0
		}
		var d int64
		for _, c := range st.Topics[0].Channels {
			d += c.Depth + int64(c.InFlightCount) + int64(c.DeferredCount)
		}
		return st.Topics[0].MessageCount, d + st.Topics[0].Depth
	}
	obs := ""
	// wait until eff ms after t0 minus 1 ms: nothing may have arrived; then within 1 s more
	// (scan interval + refresh interval) it must
	verify := func(t0 int64, effMs int64, what string) {
		if effMs == 0 {
			if len(msgs()) == 0 {
				w.Sleep(1001 * time.Millisecond)
				if len(msgs()) == 0 {
					bad("C04 delayed message never delivered", "%s with effective delay 0: nothing delivered within 1 s", what)
				}
			}
			return
		}
		target := t0 + effMs*1e6 - 1e6
		if d := target - vrt.Now(); d > 0 {
			w.SleepAlive(time.Duration(d), a)
		}
		if got := msgs(); len(got) > 0 {
			bad("C04 delivered before the delay elapsed", "%s: effective delay %d ms, delivered after %d ms", what, effMs, (got[0].At-t0)/1e6)
			return
		}
		w.Sleep(1002 * time.Millisecond)
		if len(msgs()) == 0 {
			bad("C04 delayed message never delivered", "%s: effective delay %d ms, nothing delivered by %d ms", what, effMs, (vrt.Now()-t0)/1e6)
		}
	}
	switch spec.Kind {
	case "req":
		p := w.Dial("p")
		p.Cmd("PUB t", []byte("m1"))
		p.Next()
		w.Quiesce()
		fs := msgs()
		if len(fs) != 1 {
			return vx.Out{Obs: "setup: message not delivered", Viol: []vx.Found{{Sig: "INFRA setup :: delay", Detail: "m1 not delivered"}}}
		}
		t0 := vrt.Now()
		a.Cmd("REQ "+fs[0].ID+" "+spec.Text, nil)
		w.Quiesce()
		refused := false
		for _, f := range a.Take() {
			if f.Type == frameTypeError {
				refused = true
				obs = "refused:" + strings.SplitN(string(f.Data), " ", 2)[0]
			} else if f.Type == frameTypeMessage {
				stash = append(stash, f) // immediate redelivery: hand it to msgs()
			}
		}
		if isDec {
			if refused {
				bad("C04 C09 valid REQ delay refused", "REQ with delay %q answered %s", spec.Text, obs)
				break
			}
			eff := new(big.Int).Set(val)
			if eff.Cmp(max) > 0 {
				eff = max
			}
			obs = fmt.Sprintf("accepted eff=%dms", eff.Int64())
			verify(t0, eff.Int64(), "REQ "+spec.Text)
		} else if !refused {
			// not a decimal number: must be refused (an empty string may also mean 0)
			if spec.Text == "" {
				obs = "accepted-empty-as-0"
			} else {
				bad("C04 C09 non-numeric REQ delay accepted", "REQ with delay %q was accepted", spec.Text)
			}
		}
	case "dpub", "http":
		cnt0, _ := topicCount()
		t0 := vrt.Now()
		accepted := false
		if spec.Kind == "dpub" {
			p := w.Dial("p")
			p.Cmd("DPUB t "+spec.Text, []byte("m1"))
			f, ok := p.Next()
			accepted = ok && f.Type == frameTypeResponse && string(f.Data) == "OK"
			if !accepted {
				obs = "refused:" + strings.SplitN(string(f.Data), " ", 2)[0]
				if ok && !strings.HasPrefix(string(f.Data), "E_INVALID") {
					bad("C04 C09 wrong error for an invalid DPUB delay", "DPUB %q answered %q", spec.Text, f.Data)
				}
			}
		} else {
			code, body := w.Do("POST", "/pub?topic=t&defer="+urlEscape(spec.Text), []byte("m1"))
			accepted = code == 200
			if !accepted {
				obs = fmt.Sprintf("refused:%d", code)
				if code != 400 || !strings.Contains(body, "INVALID_DEFER") {
					bad("C04 C10 wrong answer for an invalid defer", "defer=%q answered %d %s", spec.Text, code, body)
				}
			}
		}
		w.Quiesce()
		inRange := isDec && val.Cmp(max) <= 0
		lenient := !isDec && spec.Kind == "http" && (strings.HasPrefix(spec.Text, "+") && reDecimal.MatchString(spec.Text[1:])) // strconv accepts a sign
		switch {
		case inRange && !accepted:
			bad("C04 valid deferred publish refused", "%s with delay %q (max %d ms) answered %s", spec.Kind, spec.Text, spec.MaxReq, obs)
		case !inRange && accepted && !lenient && !(spec.Text == "" && spec.Kind == "dpub"):
			what := "not a decimal number"
			if isDec {
				what = fmt.Sprintf("above max-req-timeout (%d ms)", spec.MaxReq)
			}
			bad("C04 deferred publish with an out-of-range delay accepted", "%s with delay %q (%s) was accepted", spec.Kind, spec.Text, what)
		case accepted && inRange:
			obs = fmt.Sprintf("accepted eff=%dms", val.Int64())
			verify(t0, val.Int64(), spec.Kind+" "+spec.Text)
		}
		if !accepted {
			if cnt1, held := topicCount(); cnt1 != cnt0 || held != 0 || len(msgs()) != 0 {
				bad("C04 C09 refused deferred publish left a trace", "message_count %d -> %d, messages held %d", cnt0, cnt1, held)
			}
		}
	}
	return vx.Out{Obs: spec.Kind + " " + obs, Viol: viol}
}

func urlEscape(s string) string {
	var sb strings.Builder
	for i := 0; i < len(s); i++ {
		c := s[i]
		if (c >= 'a' && c <= 'z') || (c >= 'A' && c <= 'Z') || (c >= '0' && c <= '9') {
			sb.WriteByte(c)
		} else {
			fmt.Fprintf(&sb, "%%%02X", c)
		}
	}
	return sb.String()
}

// ---------------------------------------------------------------- timing scenarios

type TimingSpec struct {
	Fates []string `json:"fates"` // one per message: timeout | touch1 | touch2 | touchcap | touch3 | req0 | req200 | req700 | dpub200 | dpub700
	MsgTO int      `json:"msgto"` // negotiated msg_timeout in ms (0 = default 1000)
}

// RunTiming publishes one message per fate at +600 ms, applies the fates' commands at
// their offsets, lets 6 s pass and then judges, from the exact arrival times, that the
// deciding (re)delivery of each message came no earlier than the legal instant L and no
// later than L + scan interval + refresh interval.
func RunTiming(spec TimingSpec) vx.Out {
	var viol []vx.Found
	bad := func(clause, f string, a ...interface{}) {
		viol = append(viol, vx.Found{Sig: fmt.Sprintf("%s :: timing %v msg_timeout=%d", clause, spec.Fates, spec.MsgTO), Detail: fmt.Sprintf(f, a...)})
	}
	const maxMsgTO = 2500
	w, err := NewWorld(FreshDir(), WOpts{MemQ: 10, MaxMsgTimeout: maxMsgTO * time.Millisecond})
	if err != nil {
		return vx.Out{Obs: "world: " + err.Error(), Viol: []vx.Found{{Sig: "INFRA world :: timing", Detail: err.Error()}}}
	}
	defer w.Release()
	a := w.Dial("a")
	id := map[string]interface{}{"client_id": "a", "output_buffer_size": -1}
	to := int64(1000)
	if spec.MsgTO > 0 {
		id["msg_timeout"] = spec.MsgTO
		to = int64(spec.MsgTO)
	}
	if f := a.Identify(id); string(f.Data) != "OK" {
		return vx.Out{Obs: "identify refused " + f.String()}
	}
	a.Cmd("SUB t c", nil)
	a.Next()
	a.Cmd(fmt.Sprintf("RDY %d", len(spec.Fates)), nil)
	w.Sleep(600 * time.Millisecond)
	p := w.Dial("p")
	t0 := vrt.Now()
	type ev struct {
		at  int64 // ms after t0
		cmd string
		msg int
	}
	var evs []ev
	L := make([]int64, len(spec.Fates))    // legal instant (ms after t0) of the deciding delivery
	which := make([]int, len(spec.Fates)) // index of the deciding delivery (0 = first)
	for i, fate := range spec.Fates {
		body := fmt.Sprintf("m%d", i)
		switch fate {
		case "dpub200", "dpub700":
			d := int64(200)
			if fate == "dpub700" {
				d = 700
			}
			p.Cmd(fmt.Sprintf("DPUB t %d", d), []byte(body))
			p.Next()
			L[i], which[i] = d, 0
		default:
			p.Cmd("PUB t", []byte(body))
			p.Next()
			which[i] = 1
			switch fate {
			case "timeout":
				L[i] = to
			case "touch1":
				evs = append(evs, ev{400, "TOUCH", i})
				L[i] = 400 + to
			case "touch2":
				evs = append(evs, ev{400, "TOUCH", i}, ev{1200, "TOUCH", i})
				L[i] = 1200 + to
				if L[i] > maxMsgTO {
					L[i] = maxMsgTO
				}
			case "touchcap":
				evs = append(evs, ev{900, "TOUCH", i}, ev{1800, "TOUCH", i})
				L[i] = 1800 + to
				if L[i] > maxMsgTO {
					L[i] = maxMsgTO
				}
			case "touch3":
				// three TOUCHes, the last one 100 ms before the cap: the cap is measured from
				// the delivery, not from the previous TOUCH
				evs = append(evs, ev{900, "TOUCH", i}, ev{1800, "TOUCH", i}, ev{2400, "TOUCH", i})
				L[i] = maxMsgTO
			case "req0touch":
				// requeued at +700 and handed out again at once; the holder of that second
				// delivery TOUCHes at +1600: the cap is max-msg-timeout after THAT delivery,
				// not after the first one
				evs = append(evs, ev{700, "REQ 0", i}, ev{1600, "TOUCH", i})
				L[i], which[i] = 1600+to, 2
				if L[i] > 700+maxMsgTO {
					L[i] = 700 + maxMsgTO
				}
			case "req0":
				evs = append(evs, ev{300, "REQ 0", i})
				L[i] = 300
			case "req200":
				evs = append(evs, ev{300, "REQ 200", i})
				L[i] = 500
			case "req700":
				evs = append(evs, ev{300, "REQ 700", i})
				L[i] = 1000
			default:
				panic("unknown fate " + fate)
			}
		}
	}
	w.Quiesce()
	ids := map[string]string{} // body -> id
	deliv := map[string][]int64{}
	note := func() {
		for _, f := range a.Take() {
			if f.Type == frameTypeMessage {
				ids[f.Body] = f.ID
				deliv[f.Body] = append(deliv[f.Body], (f.At-t0)/1e6)
			} else if f.Type == frameTypeError {
				bad("C04 C02 answer from the holder refused", "%s", f.Data)
			}
		}
	}
	note()
	sort.SliceStable(evs, func(i, j int) bool { return evs[i].at < evs[j].at })
	for _, e := range evs {
		if d := t0 + e.at*1e6 - vrt.Now(); d > 0 {
			w.Sleep(time.Duration(d))
		}
		note()
		body := fmt.Sprintf("m%d", e.msg)
		parts := strings.SplitN(e.cmd, " ", 2)
		cmd := parts[0] + " " + ids[body]
		if len(parts) > 1 {
			cmd += " " + parts[1]
		}
		a.Cmd(cmd, nil)
		w.Quiesce()
		note()
	}
	for vrt.Now() < t0+int64(6*time.Second) {
		w.Sleep(100 * time.Millisecond)
		note()
	}
	obs := ""
	for i, fate := range spec.Fates {
		body := fmt.Sprintf("m%d", i)
		ds := deliv[body]
		obs += fmt.Sprintf("%s:%v ", fate, ds)
		if len(ds) <= which[i] {
			bad("C04 message not redelivered in bounded time", "%s (%s): deliveries at %v ms, expected delivery #%d at %d..%d ms", body, fate, ds, which[i]+1, L[i], L[i]+500)
			continue
		}
		at := ds[which[i]]
		if at < L[i] {
			bad("C04 C02 delivered early", "%s (%s): delivery #%d at +%d ms, not legal before +%d ms (all deliveries %v)", body, fate, which[i]+1, at, L[i], ds)
		}
		// the channel is older than the scan refresh interval, so it is scanned at every
		// queue-scan tick (500 ms): the message is due at the first tick at or after L
		if at > L[i]+500 {
			bad("C04 delivered late", "%s (%s): delivery #%d at +%d ms, legal from +%d ms and due at the next queue scan, i.e. by +%d ms (all deliveries %v)", body, fate, which[i]+1, at, L[i], L[i]+500, ds)
		}
	}
	return vx.Out{Obs: obs, Viol: viol}
}

// RunMsgTimeoutNegotiation: IDENTIFY msg_timeout values against the [1000, max] rule.
func RunMsgTimeoutNegotiation(v int) vx.Out {
	w, err := NewWorld(FreshDir(), WOpts{MemQ: 10, MaxMsgTimeout: 2500 * time.Millisecond})
	if err != nil {
		return vx.Out{Obs: "world: " + err.Error()}
	}
	defer w.Release()
	a := w.Dial("a")
	f := a.Identify(map[string]interface{}{"client_id": "a", "msg_timeout": v})
	ok := f.Type == frameTypeResponse && string(f.Data) == "OK"
	want := v == 0 || (v >= 1000 && v <= 2500)
	var viol []vx.Found
	if ok != want {
		viol = append(viol, vx.Found{Sig: fmt.Sprintf("C04 C09 msg_timeout range not enforced :: identify msg_timeout=%d", v), Detail: fmt.Sprintf("IDENTIFY msg_timeout=%d (allowed 0 or 1000..2500) answered %v", v, f)})
	}
	return vx.Out{Obs: fmt.Sprintf("msg_timeout=%d ok=%v", v, ok), Viol: viol}
}

// ---------------------------------------------------------------- channels coming and going under the scan loop

// ChurnSpec: the set of channels changes between two refreshes of the queue-scan loop's
// channel list; work that then falls due on the NEW channel must still be found in time.
type ChurnSpec struct {
	Replace string `json:"replace"` // other | same | ephemeral | add | topic
	Pending string `json:"pending"` // timeout | dpub | req
	Offset  int    `json:"offset"`  // ms after start-up + 1200 at which the change happens
	Others  int    `json:"others"`  // further channels that stay (each on its own topic)
}

func RunScanChurn(spec ChurnSpec) vx.Out {
	var viol []vx.Found
	bad := func(clause, f string, a ...interface{}) {
		viol = append(viol, vx.Found{Sig: fmt.Sprintf("%s :: churn %s/%s/+%d/others%d", clause, spec.Replace, spec.Pending, spec.Offset, spec.Others), Detail: fmt.Sprintf(f, a...)})
	}
	w, err := NewWorld(FreshDir(), WOpts{MemQ: 10})
	if err != nil {
		return vx.Out{Obs: "world: " + err.Error(), Viol: []vx.Found{{Sig: "INFRA world :: churn", Detail: err.Error()}}}
	}
	defer w.Release()
	sub := func(name, topic, ch string) *WConn {
		c := w.Dial(name)
		c.Identify(map[string]interface{}{"client_id": name, "output_buffer_size": -1})
		c.Cmd("SUB "+topic+" "+ch, nil)
		c.Next()
		c.Cmd("RDY 2", nil)
		return c
	}
	oldCh, newCh, topic2 := "c", "d", "t"
	switch spec.Replace {
	case "same":
		newCh = "c"
	case "ephemeral":
		oldCh, newCh = "x#ephemeral", "y#ephemeral"
	case "topic":
		topic2 = "t2" // the old topic goes, a new one (with a channel of the same name) comes
		newCh = "c"
	}
	a := sub("a", "t", oldCh)
	for i := 0; i < spec.Others; i++ {
		sub(fmt.Sprintf("o%d", i), fmt.Sprintf("other%d", i), "k")
	}
	w.Sleep(time.Duration(1200+spec.Offset) * time.Millisecond)
	// ---- the change, all at one instant
	switch spec.Replace {
	case "other", "same":
		if code, _ := w.Do("POST", "/channel/delete?topic=t&channel="+oldCh, nil); code != 200 {
			bad("C08 C10 channel delete failed", "%d", code)
		}
	case "ephemeral":
		a.Close()
		w.Quiesce()
	case "topic":
		if code, _ := w.Do("POST", "/topic/delete?topic=t", nil); code != 200 {
			bad("C08 C10 topic delete failed", "%d", code)
		}
	case "add":
	}
	w.Quiesce()
	b := sub("b", topic2, newCh)
	w.Quiesce()
	p := w.Dial("p")
	t0 := vrt.Now()
	var L int64
	which := 1
	switch spec.Pending {
	case "dpub":
		p.Cmd("DPUB "+topic2+" 300", []byte("m"))
		p.Next()
		L, which = 300, 0
	default:
		p.Cmd("PUB "+topic2, []byte("m"))
		p.Next()
		L = 1000
	}
	w.Quiesce()
	var deliv []int64
	id := ""
	note := func() {
		for _, f := range b.Take() {
			if f.Type == frameTypeMessage && f.Body == "m" {
				id = f.ID
				deliv = append(deliv, (f.At-t0)/1e6)
			}
		}
	}
	note()
	if spec.Pending == "req" {
		if id == "" {
			bad("C01 C03 message not delivered to the ready consumer of the new channel", "nothing arrived on %s/%s", topic2, newCh)
			return vx.Out{Obs: "no first delivery", Viol: viol}
		}
		b.Cmd("REQ "+id+" 300", nil)
		w.Quiesce()
		L = 300
	}
	for vrt.Now() < t0+int64(4*time.Second) {
		w.Sleep(100 * time.Millisecond)
		note()
	}
	obs := fmt.Sprintf("deliveries at %v", deliv)
	if len(deliv) <= which {
		bad("C04 message not redelivered in bounded time", "channel %s/%s came into being at the instant %s went; its message (%s) was delivered at %v ms, delivery #%d was due at %d..%d ms", topic2, newCh, oldCh, spec.Pending, deliv, which+1, L, L+1000)
		return vx.Out{Obs: obs, Viol: viol}
	}
	at := deliv[which]
	if at < L {
		bad("C04 delivered early", "delivery #%d at +%d ms, not legal before +%d ms (%v)", which+1, at, L, deliv)
	}
	// the new channel enters the scan list at the next refresh (<= 500 ms) and is scanned at
	// the first tick after that (<= 500 ms)
	if at > L+1000 {
		bad("C04 delivered late", "delivery #%d at +%d ms, legal from +%d ms and due within a refresh interval plus a scan interval, i.e. by +%d ms (%v)", which+1, at, L, L+1000, deliv)
	}
	return vx.Out{Obs: obs, Viol: viol}
}
