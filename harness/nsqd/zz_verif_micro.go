//go:build go1.18 && verif

package nsqd

// E1 micro scenarios: 2-3 threads calling the daemon's real entry points against one real
// channel, every interleaving explored; used by C02, C03, C08, C13.

import (
	"fmt"
	stdos "os"
	"reflect"
	"sort"
	"strings"
	"time"

	"github.com/nsqio/nsq/internal/verif/vrt"
	"github.com/nsqio/nsq/internal/verif/vsync"
	"github.com/nsqio/nsq/internal/verif/vx"
)

// MicroSpec selects one scenario.
type MicroSpec struct {
	State string   `json:"state"` // queued | inflight | expired | requeued | held2 | deferred | defexp | ready | pausedq | tpausedq | none
	Eph   bool     `json:"eph"`   // ephemeral topic and channel
	EphCh bool     `json:"ephch,omitempty"` // ephemeral channel on a durable topic
	MemQ  int64    `json:"memq"`
	Ops   []string `json:"ops"`
	Unbuf bool     `json:"unbuf,omitempty"` // consumers negotiate output_buffer_size -1
	Solo  bool     `json:"solo,omitempty"`  // only c1 subscribes (c2 stays an idle connection)
	// TwoChan: the topic has a second channel "c2" with no consumer, created before anything
	// is published (so it holds m1 and m2 at rest)
	TwoChan bool   `json:"twochan,omitempty"`
	Sync  bool     `json:"sync,omitempty"`  // the disk queues' metadata is synced before the window (sync-timeout has passed)
	Trace bool     `json:"trace,omitempty"`
}

func (s MicroSpec) String() string {
	e := "dur"
	if s.Eph {
		e = "eph"
	}
	if s.EphCh {
		e = "ephch"
	}
	if s.Unbuf {
		e += "/unbuf"
	}
	if s.Solo {
		e += "/solo"
	}
	if s.Sync {
		e += "/sync"
	}
	if s.TwoChan {
		e += "/twochan"
	}
	return fmt.Sprintf("%s/%s/memq%d/%s", s.State, e, s.MemQ, strings.Join(s.Ops, "|"))
}

type microCtx struct {
	w        *World
	spec     MicroSpec
	topic    string
	ch       string
	prot     *protocolV2
	c1, c2   *WConn
	k1, k2   *clientV2
	c3       *WConn    // the connection of op sub3, once its SUB was answered OK
	k3       *clientV2 // ... and its server side
	m1, m2   string // message ids
	deliv    map[string][]int // id -> attempts of every delivery seen, in order
	delivTo  map[string][]string
	delivBody map[string]string
	delivAt   map[string][]int64 // arrival time (virtual ns) of each delivery
	touchOK   map[string]int64   // id -> virtual time of the last accepted TOUCH
	touchBy   map[string]string  // id -> connection whose TOUCH was accepted
	reqOK     map[string]int     // id -> accepted REQs
	anomalies []string           // internal-structure diagnostics (not violations)
	exited    bool               // the scenario shut the daemon down (C05)
	afterRst  map[string][]int   // body -> attempts of the deliveries after the restart
	sendsPre  uint64         // sum of the consumers' message_count before the window
	sendsWin  uint64         // sends performed while the window was open
	preWin    map[string]int // deliveries per id before the window opened
	postWin   map[string]int // ... when it closed
	finOK    map[string]bool
	discard  bool // an empty/delete of the channel or topic completed
	emptied  bool
	deleted  bool
	tdeleted bool
	viol     []vx.Found
	conns    []*WConn
	held     int64 // messages the stats account for at the idle point after the window (-1: n/a)
	oldCh    *Channel // the channel object of the first daemon lifetime (C05 post-mortem)
	flushWatch *FlushWatch
}

// bad records a violation; clause starts with the ids of the properties it belongs to.
func (x *microCtx) bad(clause, format string, a ...interface{}) {
	x.viol = append(x.viol, vx.Found{Sig: clause + " :: micro " + x.spec.String(), Detail: fmt.Sprintf(format, a...)})
}

func (x *microCtx) client(c *WConn) *clientV2 {
	var out *clientV2
	want := c.C.LocalAddr().String()
	x.w.N.tcpServer.conns.Range(func(k, v interface{}) bool {
		if cl, ok := v.(*clientV2); ok && cl.RemoteAddr().String() == want {
			out = cl
		}
		return true
	})
	return out
}

func (x *microCtx) note() {
	for _, c := range x.conns {
		for _, f := range c.Take() {
			if f.Type == frameTypeMessage {
				x.deliv[f.ID] = append(x.deliv[f.ID], f.Attempts)
				x.delivTo[f.ID] = append(x.delivTo[f.ID], c.Name)
				x.delivBody[f.ID] = f.Body
				x.delivAt[f.ID] = append(x.delivAt[f.ID], f.At)
			}
		}
	}
}

func b(s string) []byte { return []byte(s) }

func errStr(err error) string {
	if err == nil {
		return "ok"
	}
	s := err.Error()
	if i := strings.Index(s, " "); i > 0 {
		return s[:i]
	}
	return s
}

func (x *microCtx) chanObj() *Channel { return x.w.Channel(x.topic, x.ch) }

// the operations threads can perform; each returns a short result string
var microOps = map[string]func(x *microCtx) string{
	"fin1": func(x *microCtx) string {
		_, err := x.prot.FIN(x.k1, [][]byte{b("FIN"), b(x.m1)})
		if err == nil {
			x.finOK[x.m1] = true
		}
		return errStr(err)
	},
	"fin1x2": func(x *microCtx) string {
		_, e1 := x.prot.FIN(x.k1, [][]byte{b("FIN"), b(x.m1)})
		_, e2 := x.prot.FIN(x.k1, [][]byte{b("FIN"), b(x.m1)})
		if e1 == nil || e2 == nil {
			x.finOK[x.m1] = true
		}
		if e1 == nil && e2 == nil {
			x.bad("C02 duplicate FIN accepted twice", "both FINs of %s by the same connection were accepted", x.m1)
		}
		return errStr(e1) + "," + errStr(e2)
	},
	"fin2": func(x *microCtx) string {
		_, err := x.prot.FIN(x.k2, [][]byte{b("FIN"), b(x.m1)})
		if err == nil {
			x.finOK[x.m1] = true
		}
		return errStr(err)
	},
	"req1": func(x *microCtx) string {
		_, err := x.prot.REQ(x.k1, [][]byte{b("REQ"), b(x.m1), b("0")})
		if err == nil {
			x.reqOK[x.m1]++
		}
		return errStr(err)
	},
	"req1d": func(x *microCtx) string {
		_, err := x.prot.REQ(x.k1, [][]byte{b("REQ"), b(x.m1), b("2000")})
		if err == nil {
			x.reqOK[x.m1]++
		}
		return errStr(err)
	},
	"req2": func(x *microCtx) string {
		_, err := x.prot.REQ(x.k2, [][]byte{b("REQ"), b(x.m1), b("0")})
		if err == nil {
			x.reqOK[x.m1]++
		}
		return errStr(err)
	},
	"req2d": func(x *microCtx) string {
		_, err := x.prot.REQ(x.k2, [][]byte{b("REQ"), b(x.m1), b("2000")})
		if err == nil {
			x.reqOK[x.m1]++
		}
		return errStr(err)
	},
	"touch1": func(x *microCtx) string {
		_, err := x.prot.TOUCH(x.k1, [][]byte{b("TOUCH"), b(x.m1)})
		if err == nil {
			x.touchBy[x.m1] = "c1"
			x.touchOK[x.m1] = vrt.Now()
		}
		return errStr(err)
	},
	"touch2": func(x *microCtx) string {
		_, err := x.prot.TOUCH(x.k2, [][]byte{b("TOUCH"), b(x.m1)})
		if err == nil {
			x.touchBy[x.m1] = "c2"
			x.touchOK[x.m1] = vrt.Now()
		}
		return errStr(err)
	},
	"scan": func(x *microCtx) string {
		c := x.chanObj()
		if c == nil {
			return "nochan"
		}
		now := time.Unix(0, vrt.Now()).UnixNano()
		a := c.processInFlightQueue(now)
		d := c.processDeferredQueue(now)
		return fmt.Sprintf("%v,%v", a, d)
	},
	"rdy2": func(x *microCtx) string {
		_, err := x.prot.RDY(x.k2, [][]byte{b("RDY"), b("1")})
		return errStr(err)
	},
	"rdy2_2": func(x *microCtx) string {
		// the second consumer becomes ready for two messages: the one at rest and a requeued one
		_, err := x.prot.RDY(x.k2, [][]byte{b("RDY"), b("2")})
		return errStr(err)
	},
	"rdy1_2": func(x *microCtx) string {
		_, err := x.prot.RDY(x.k1, [][]byte{b("RDY"), b("2")})
		return errStr(err)
	},
	"cls1": func(x *microCtx) string {
		_, err := x.prot.CLS(x.k1, [][]byte{b("CLS")})
		return errStr(err)
	},
	"empty_ch": func(x *microCtx) string {
		code, _ := x.w.Do("POST", "/channel/empty?topic="+x.topic+"&channel="+x.ch, nil)
		if code == 200 {
			x.emptied = true
		}
		return fmt.Sprint(code)
	},
	"del_ch": func(x *microCtx) string {
		code, _ := x.w.Do("POST", "/channel/delete?topic="+x.topic+"&channel="+x.ch, nil)
		if code == 200 {
			x.deleted = true
		}
		return fmt.Sprint(code)
	},
	"del_topic": func(x *microCtx) string {
		code, _ := x.w.Do("POST", "/topic/delete?topic="+x.topic, nil)
		if code == 200 {
			x.tdeleted = true
		}
		return fmt.Sprint(code)
	},
	"empty_topic": func(x *microCtx) string {
		code, _ := x.w.Do("POST", "/topic/empty?topic="+x.topic, nil)
		return fmt.Sprint(code)
	},
	"pause_ch": func(x *microCtx) string {
		code, _ := x.w.Do("POST", "/channel/pause?topic="+x.topic+"&channel="+x.ch, nil)
		return fmt.Sprint(code)
	},
	"unpause_ch": func(x *microCtx) string {
		code, _ := x.w.Do("POST", "/channel/unpause?topic="+x.topic+"&channel="+x.ch, nil)
		return fmt.Sprint(code)
	},
	"pause_t": func(x *microCtx) string {
		code, _ := x.w.Do("POST", "/topic/pause?topic="+x.topic, nil)
		return fmt.Sprint(code)
	},
	"unpause_t": func(x *microCtx) string {
		code, _ := x.w.Do("POST", "/topic/unpause?topic="+x.topic, nil)
		return fmt.Sprint(code)
	},
	"create_ch2": func(x *microCtx) string {
		code, _ := x.w.Do("POST", "/channel/create?topic="+x.topic+"&channel=c2", nil)
		return fmt.Sprint(code)
	},
	"pub": func(x *microCtx) string {
		code, _ := x.w.Do("POST", "/pub?topic="+x.topic, b("m3"))
		return fmt.Sprint(code)
	},
	"rdydisc1": func(x *microCtx) string {
		// the client raises RDY and then drops the connection abruptly
		x.c1.Cmd("RDY 2", nil)
		x.c1.Close()
		return "closed"
	},
	"exit": func(x *microCtx) string {
		x.flushWatch = WatchFlush(x.w.N)
		x.w.N.Exit()
		x.w.exited = true
		x.exited = true
		return "exited"
	},
	"disc1": func(x *microCtx) string {
		x.c1.Close()
		return "closed"
	},
	"disc2": func(x *microCtx) string {
		x.c2.Close()
		return "closed"
	},
	"sub3": func(x *microCtx) string {
		c := x.w.Dial("c3")
		x.conns = append(x.conns, c)
		c.Cmd("SUB "+x.topic+" "+x.ch, nil)
		f, ok := c.Next()
		if !ok {
			return "eof"
		}
		if f.Type == frameTypeError {
			return errStr(fmt.Errorf("%s", f.Data))
		}
		c.Cmd("RDY 1", nil)
		if string(f.Data) == "OK" {
			x.c3, x.k3 = c, x.client(c)
		}
		return string(f.Data)
	},
	"stats": func(x *microCtx) string {
		st := x.w.N.GetStats("", "", true)
		for _, t := range st.Topics {
			for _, c := range t.Channels {
				if c.InFlightCount < 0 || c.DeferredCount < 0 || c.Depth < 0 {
					x.bad("C13 C08 negative count in stats", "%+v", c)
				}
			}
		}
		return "ok"
	},
}

// gotThen: connection c2 answers message m1 the way a real client can - only after the
// frame has reached it. The wait is a scheduling point (a blocking read of the connection).
func gotThen(op string) func(x *microCtx) string {
	return func(x *microCtx) string {
		for {
			f, ok := x.c2.Next()
			if !ok {
				return "eof"
			}
			if f.Type != frameTypeMessage {
				continue
			}
			x.deliv[f.ID] = append(x.deliv[f.ID], f.Attempts)
			x.delivTo[f.ID] = append(x.delivTo[f.ID], x.c2.Name)
			x.delivBody[f.ID] = f.Body
			x.delivAt[f.ID] = append(x.delivAt[f.ID], f.At)
			if f.ID == x.m1 {
				break
			}
		}
		return microOps[op](x)
	}
}

func init() {
	for _, op := range []string{"req2d", "req2", "fin2", "touch2"} {
		microOps["got2_"+op] = gotThen(op)
	}
}

// MicroOpNames lists the available operations.
func MicroOpNames() []string {
	var s []string
	for k := range microOps {
		s = append(s, k)
	}
	sort.Strings(s)
	return s
}

func (x *microCtx) setup() string {
	spec := x.spec
	x.topic, x.ch = "t", "c"
	if spec.Eph {
		x.topic, x.ch = "t#ephemeral", "c#ephemeral"
	}
	if spec.EphCh {
		x.topic, x.ch = "t", "c#ephemeral"
	}
	w, err := NewWorld(FreshDir(), WOpts{MemQ: spec.MemQ, NoLoops: true, MaxBytesPerFile: 4096, Verbose: spec.Trace, Mod: func(o *Options) {
		if spec.Sync {
			o.SyncTimeout = 50 * time.Millisecond
		}
	}})
	if err != nil {
		return "world: " + err.Error()
	}
	x.w = w
	w.N.waitGroup.Wrap(w.N.lookupLoop)
	x.prot = &protocolV2{nsqd: w.N}
	x.c1, x.c2 = w.Dial("c1"), w.Dial("c2")
	x.conns = []*WConn{x.c1, x.c2}
	for _, c := range x.conns {
		if spec.Unbuf {
			c.Identify(map[string]interface{}{"client_id": c.Name, "output_buffer_size": -1})
		}
		if spec.Solo && c == x.c2 {
			continue
		}
		c.Cmd("SUB "+x.topic+" "+x.ch, nil)
		if f, ok := c.Next(); !ok || string(f.Data) != "OK" {
			return "sub failed: " + f.String()
		}
	}
	if spec.TwoChan {
		if code, _ := w.Do("POST", "/channel/create?topic="+x.topic+"&channel=c2", nil); code != 200 {
			return "setup: creating channel c2 failed"
		}
		w.Quiesce()
	}
	x.k1, x.k2 = x.client(x.c1), x.client(x.c2)
	if x.k1 == nil || (x.k2 == nil && !spec.Solo) {
		return "client lookup failed"
	}
	pub := func(body string) {
		if code, _ := w.Do("POST", "/pub?topic="+x.topic, b(body)); code != 200 {
			panic("setup pub failed")
		}
		w.Quiesce()
	}
	scan := func() {
		c := x.chanObj()
		now := time.Unix(0, vrt.Now()).UnixNano()
		c.processInFlightQueue(now)
		c.processDeferredQueue(now)
		w.Quiesce()
	}
	take1 := func(c *WConn) string {
		w.Quiesce()
		for _, f := range c.Take() {
			if f.Type == frameTypeMessage {
				x.deliv[f.ID] = append(x.deliv[f.ID], f.Attempts)
				x.delivTo[f.ID] = append(x.delivTo[f.ID], c.Name)
				x.delivBody[f.ID] = f.Body
				x.delivAt[f.ID] = append(x.delivAt[f.ID], f.At)
				return f.ID
			}
		}
		return ""
	}
	switch spec.State {
	case "none":
	case "ready":
		// both consumers idle with RDY 1, nothing published yet
		x.c1.Cmd("RDY 1", nil)
		x.c2.Cmd("RDY 1", nil)
		w.Quiesce()
	case "pausedq", "tpausedq":
		// a paused channel (topic) with two messages waiting and a consumer that is ready
		x.c1.Cmd("RDY 1", nil)
		w.Quiesce()
		url := "/channel/pause?topic=" + x.topic + "&channel=" + x.ch
		if spec.State == "tpausedq" {
			url = "/topic/pause?topic=" + x.topic
		}
		if code, _ := w.Do("POST", url, nil); code != 200 {
			return "setup: pause failed"
		}
		w.Quiesce()
		pub("m1")
		pub("m2")
		w.Sleep(300 * time.Millisecond)
		if fs := x.c1.Take(); len(fs) > 0 {
			x.bad("C03 paused channel or topic delivered a message", "setup of %s: c1 received %v", spec.State, fs)
		}
	case "queued":
		pub("m1")
		pub("m2")
	case "inflight", "expired", "requeued", "held2", "deferred", "defexp":
		x.c1.Cmd("RDY 1", nil)
		w.Quiesce()
		pub("m1")
		x.m1 = take1(x.c1)
		if x.m1 == "" {
			return "setup: m1 not delivered to c1"
		}
		pub("m2")
		switch spec.State {
		case "expired":
			w.Sleep(1100 * time.Millisecond)
		case "requeued", "held2":
			// c1 must not get it back: RDY 0 first
			x.c1.Cmd("RDY 0", nil)
			w.Sleep(1100 * time.Millisecond)
			scan()
			if spec.State == "held2" {
				x.c2.Cmd("RDY 1", nil)
				got := take1(x.c2)
				if got == "" {
					return "setup: nothing redelivered to c2"
				}
				if got != x.m1 {
					// queue order put m2 first (disk-backed ordering); make m1 the held one
					x.m1, x.m2 = got, x.m1
				}
			}
		case "deferred":
			x.c1.Cmd("REQ "+x.m1+" 2000", nil)
			x.reqOK[x.m1]++
			w.Quiesce()
		case "defexp":
			// m1 was requeued with a delay that has just elapsed: the next deferred scan
			// moves it back to the queue. c1 takes no more messages meanwhile.
			x.c1.Cmd("RDY 0", nil)
			w.Quiesce()
			x.c1.Cmd("REQ "+x.m1+" 400", nil)
			x.reqOK[x.m1]++
			w.Quiesce()
			// c2 is ready for two: it takes m2 now and will be handed m1 as soon as the
			// deferred scan has put it back (inside the window)
			// (its frame leaves c2's output buffer with the 250 ms flush timer)
			x.c2.Cmd("RDY 2", nil)
			w.Sleep(450 * time.Millisecond)
			if got := take1(x.c2); got == "" {
				return "setup: m2 not delivered to c2"
			}
		}
	default:
		return "unknown state " + spec.State
	}
	if spec.Sync {
		w.Sleep(60 * time.Millisecond)
	}
	return ""
}

// RunMicro is the scenario body (thread 0 of a controlled execution).
func RunMicro(spec MicroSpec) vx.Out {
	if spec.State == "tbacklog2" {
		return runRestartScenario(spec)
	}
	x := &microCtx{held: -1, spec: spec, deliv: map[string][]int{}, delivTo: map[string][]string{}, finOK: map[string]bool{}, delivBody: map[string]string{}, delivAt: map[string][]int64{}, touchOK: map[string]int64{}, touchBy: map[string]string{}, reqOK: map[string]int{}}
	if e := x.setup(); e != "" {
		if x.w != nil {
			x.w.Release()
		}
		return vx.Out{Obs: "SETUP-FAILED " + e, Viol: []vx.Found{{Sig: "INFRA setup failed :: micro " + spec.String(), Detail: e}}}
	}
	defer x.w.Release()
	w := x.w
	w.Quiesce()
	x.note()
	x.preWin = map[string]int{}
	for id, as := range x.deliv {
		x.preWin[id] = len(as)
	}
	x.sendsPre = x.totalSends()
	x.oldCh = x.chanObj()

	// ---- the window
	results := make([]string, len(spec.Ops))
	var wg vsync.WaitGroup
	wg.Add(len(spec.Ops))
	vrt.Window(true)
	x.watchRecreation()
	for i, name := range spec.Ops {
		i, op := i, microOps[name]
		if op == nil {
			panic("unknown op " + name)
		}
		vrt.GoNamed(name, func() {
			results[i] = op(x)
			wg.Done()
		})
	}
	wg.Wait()
	vrt.Quiesce()
	vrt.OnPoint = nil
	vrt.Window(false)
	x.sendsWin = x.totalSends() - x.sendsPre
	// frames still sitting in a consumer's output buffer are flushed by its output-buffer
	// timer (250 ms); nothing else is due in that time (the scan loop is not running yet)
	w.Sleep(300 * time.Millisecond)
	x.note()
	x.postWin = map[string]int{}
	for id, as := range x.deliv {
		x.postWin[id] = len(as)
	}

	obs := strings.Join(results, " ")
	if x.exited {
		x.afterRestart()
		obs += " | after restart " + fmt.Sprint(x.afterRst)
		return vx.Out{Obs: obs, Viol: x.viol}
	}
	x.checkRecreatedEmpty()
	x.checkSurvivor()
	// ---- state right after the window
	if c := x.chanObj(); c != nil && !x.deleted && !x.tdeleted {
		d := DumpChannel(c)
		obs += fmt.Sprintf(" | depth=%d infl=%d pq=%d def=%d defpq=%d", d.Depth, len(d.InFlight), d.PQLen, len(d.Deferred), d.DefPQLen)
		// what /stats reports as held at this idle point: channel depth + in flight + deferred,
		// plus what still waits in the topic's own queue
		x.held = d.Depth + int64(len(d.InFlight)) + int64(len(d.Deferred))
		if t := w.Topic(x.topic); t != nil {
			x.held += t.Depth()
		}
		if s := CheckChannelStructure(c); s != "" {
			x.anomalies = append(x.anomalies, "after window: "+structClass(s))
		}
		x.checkClientCounts("after window")
		x.checkStuck("after window")
		x.pauseProbe()
	}
	x.fanoutProbe()
	x.checkDeletedFiles()
	x.drain()
	x.oracle()
	x.checkEphemeralGone()
	for _, hz := range vrt.TakeHazards() {
		x.bad("C07 "+hz, "%s", hz)
	}
	for id, body := range x.delivBody {
		switch body {
		case "m1", "m2", "m3", "mP", "mQ":
		default:
			x.bad("C07 body not delivered byte-for-byte", "message %s was delivered with body %q; published bodies: m1 m2 m3 mP mQ", id, body)
		}
	}
	obs += " | deliv=" + x.delivSummary()
	if len(x.anomalies) > 0 {
		obs += " | ANOMALY " + strings.Join(x.anomalies, ",")
	}
	return vx.Out{Obs: obs, Viol: x.viol}
}

func structClass(s string) string {
	switch {
	case strings.Contains(s, "inFlight map has"):
		return "in-flight map and deadline heap differ"
	case strings.Contains(s, "deferred map has"):
		return "deferred map and heap differ"
	case strings.Contains(s, "index"):
		return "heap index field wrong"
	}
	return "heap order"
}

func (x *microCtx) delivSummary() string {
	var ids []string
	for id := range x.deliv {
		ids = append(ids, id)
	}
	sort.Strings(ids)
	var s []string
	for i, id := range ids {
		s = append(s, fmt.Sprintf("#%d%v", i, x.deliv[id]))
	}
	return strings.Join(s, "")
}

// checkClientCounts: each consumer's in-flight count is never negative and, at a
// quiescent point, equals the number of ids the channel attributes to it (C03/C13).
func (x *microCtx) checkClientCounts(when string) {
	c := x.chanObj()
	if c == nil {
		return
	}
	owned := map[int64]int64{}
	for _, m := range c.inFlightMessages {
		owned[m.clientID]++
	}
	for id, cons := range c.clients {
		k, ok := cons.(*clientV2)
		if !ok {
			continue
		}
		if k.InFlightCount < 0 {
			x.bad("C03 C13 C08 consumer in-flight count negative", "%s: client %d InFlightCount=%d", when, id, k.InFlightCount)
		} else if k.InFlightCount != owned[id] {
			x.bad(fmt.Sprintf("C03 C13 C08 consumer in-flight count %+d off", k.InFlightCount-owned[id]), "%s: client %d InFlightCount=%d but channel attributes %d ids to it", when, id, k.InFlightCount, owned[id])
		}
	}
}

// checkStuck (C03 "delivery resumes", C01): at a quiescent point - no daemon goroutine can
// take a step - a channel that is not paused must not hold queued messages while one of its
// consumers is ready for more, and a topic that is not paused and has a channel must not
// sit on messages of its own. Anything else is a lost wake-up.
func (x *microCtx) checkStuck(when string) {
	t := x.w.Topic(x.topic)
	c := x.chanObj()
	if t == nil || c == nil || t.Exiting() || c.Exiting() {
		return
	}
	if !t.IsPaused() && t.Depth() > 0 {
		x.bad("C03 C01 topic holds messages although it is not paused and has a channel", "%s: topic depth %d, paused=false, %d channel(s), everything idle", when, t.Depth(), len(t.channelMap))
	}
	if c.IsPaused() || c.Depth() == 0 {
		return
	}
	for id, cons := range c.clients {
		k, ok := cons.(*clientV2)
		if !ok || k.State != stateSubscribed {
			continue
		}
		if k.ReadyCount > 0 && k.InFlightCount < k.ReadyCount {
			x.bad("C03 C01 queued message not handed to a ready consumer", "%s: channel depth %d, not paused, client %d has RDY %d and %d in flight, everything idle", when, c.Depth(), id, k.ReadyCount, k.InFlightCount)
			return
		}
	}
}

// pauseProbe (C03): with the channel or the topic paused at the idle point after the
// window, a message published now must not reach any consumer until the unpause.
func (x *microCtx) pauseProbe() {
	t := x.w.Topic(x.topic)
	c := x.chanObj()
	if t == nil || c == nil || t.Exiting() || c.Exiting() || !(t.IsPaused() || c.IsPaused()) {
		return
	}
	if code, _ := x.w.Do("POST", "/pub?topic="+x.topic, b("mP")); code != 200 {
		x.bad("C03 C10 paused topic/channel refused a publish", "POST /pub answered %d while paused", code)
		return
	}
	if x.held >= 0 {
		x.held++
	}
	x.w.Sleep(300 * time.Millisecond)
	x.note()
	for id, body := range x.delivBody {
		if body == "mP" {
			x.bad("C03 paused channel or topic delivered a message published after the pause", "channel paused=%v topic paused=%v at an idle point; a message published afterwards was delivered to %v", c.IsPaused(), t.IsPaused(), x.delivTo[id])
		}
	}
	for id, as := range x.deliv {
		x.postWin[id] = len(as)
	}
}

// fanoutProbe (C01): at the idle point after the window, a message published now is
// handed to EVERY channel the topic has now (created before or inside the window) - the
// topic pump's idea of its channels must not be stale.
func (x *microCtx) fanoutProbe() {
	t := x.w.Topic(x.topic)
	if t == nil || t.Exiting() || t.IsPaused() {
		return
	}
	before := map[string]uint64{}
	for name, c := range t.channelMap {
		if !c.Exiting() {
			before[name] = c.messageCount
		}
	}
	if len(before) == 0 {
		return
	}
	if code, _ := x.w.Do("POST", "/pub?topic="+x.topic, b("mQ")); code != 200 {
		return
	}
	x.w.Quiesce()
	for name, n := range before {
		c := t.channelMap[name]
		if c == nil || c.Exiting() {
			continue
		}
		if c.messageCount != n+1 {
			x.bad("C01 message published after a channel was created did not reach that channel", "channel %s of topic %s exists and is not paused/exiting at an idle point, a publish was acknowledged then, and the channel's message_count went %d -> %d (channels of the topic: %d)", name, x.topic, n, c.messageCount, len(t.channelMap))
		}
	}
	if x.held >= 0 {
		x.held++
	}
	x.w.Sleep(300 * time.Millisecond)
	x.note()
	for id, as := range x.deliv {
		x.postWin[id] = len(as)
	}
}

// checkEphemeralGone (C08): an ephemeral channel (and then its ephemeral topic) disappears
// once its last consumer has left - whatever happened before. Every connection is closed
// now; at the next idle point neither may exist any more.
func (x *microCtx) checkEphemeralGone() {
	if !(x.spec.Eph || x.spec.EphCh) || x.exited {
		return
	}
	for _, c := range x.w.Conns {
		if !c.Closed {
			c.Close()
		}
	}
	x.w.Sleep(100 * time.Millisecond)
	if c := x.chanObj(); c != nil {
		x.bad("C08 ephemeral channel still there after its last consumer left", "channel %s of topic %s exists with %d consumers (exiting=%v, depth %d) although every connection has been closed", x.ch, x.topic, len(c.clients), c.Exiting(), c.Depth())
		return
	}
	if t := x.w.Topic(x.topic); t != nil && len(t.channelMap) == 0 && x.spec.Eph {
		x.bad("C08 ephemeral topic still there after its last channel went", "topic %s exists with %d channels (exiting=%v) although every connection has been closed", x.topic, len(t.channelMap), t.Exiting())
	}
}

// backendDepth reads the depth field of a disk queue without talking to its ioLoop (0 for
// the disk-less backend of ephemeral objects).
func backendDepth(b BackendQueue) int64 {
	v := reflect.ValueOf(b)
	if v.Kind() != reflect.Ptr || v.IsNil() || v.Elem().Kind() != reflect.Struct {
		return 0
	}
	f := v.Elem().FieldByName("depth")
	if !f.IsValid() || f.Kind() != reflect.Int64 {
		return 0
	}
	return f.Int()
}

// watchRecreation (C08, "a later re-creation starts empty"): while the window is open, at
// every decision point, a topic / channel object that has taken the place of the one the
// scenario started with holds no more than what was published inside the window - from the
// moment it exists, not only once everything has settled (a new queue opened on the files
// of the old one repairs itself noisily after the old one has unlinked them).
func (x *microCtx) watchRecreation() {
	del := false
	pubs := int64(0)
	for _, o := range x.spec.Ops {
		del = del || o == "del_topic" || o == "del_ch"
		if o == "pub" {
			pubs++
		}
	}
	if !del || x.spec.Eph || x.spec.EphCh {
		return
	}
	n := x.w.N
	oldT := n.topicMap[x.topic]
	var oldC *Channel
	if oldT != nil {
		oldC = oldT.channelMap[x.ch]
	}
	reported := false
	vrt.OnPoint = func() {
		if reported {
			return
		}
		t := n.topicMap[x.topic]
		if t == nil {
			return
		}
		if t != oldT {
			if d := int64(len(t.memoryMsgChan)) + backendDepth(t.backend); d > pubs {
				reported = true
				x.bad("C08 topic re-created around its deletion does not start empty", "a new topic %s exists in place of the one being deleted and its queue holds %d message(s) with %d publish(es) in the window: it was opened on what the old topic left", x.topic, d, pubs)
			}
		}
		if c := t.channelMap[x.ch]; c != nil && c != oldC {
			if d := int64(len(c.memoryMsgChan)) + backendDepth(c.backend); d > pubs {
				reported = true
				x.bad("C08 channel re-created around its deletion does not start empty", "a new channel %s:%s exists in place of the one being deleted and its queue holds %d message(s) with %d publish(es) in the window: it was opened on what the old channel left", x.topic, x.ch, d, pubs)
			}
		}
	}
}

// checkSurvivor (C08): an explicit delete takes the channel it names - the object that
// existed then - and its consumers. A consumer whose SUB was answered OK on a channel object
// created AFTER that (same name, re-created) has not left and nobody asked to delete its
// channel: at the idle point after the window it is still subscribed and its channel exists.
// (Scenarios in which a consumer leaves an ephemeral channel by itself are exempt: there the
// asynchronous auto-delete goes by name and may take a newcomer with it.)
func (x *microCtx) checkSurvivor() {
	if x.c3 == nil || x.k3 == nil || x.exited || x.spec.Eph {
		// (an ephemeral TOPIC whose last channel was deleted is itself auto-deleted, later and
		// by name: a channel re-created in between goes with it)
		return
	}
	dels := 0
	for _, o := range x.spec.Ops {
		if strings.HasPrefix(o, "disc") || strings.HasPrefix(o, "rdydisc") || o == "del_topic" || o == "exit" {
			return
		}
		if o == "del_ch" {
			dels++
		}
	}
	ch := x.k3.Channel
	if dels != 1 || ch == nil || ch == x.oldCh {
		return
	}
	x.c3.Poll()
	cur := x.chanObj()
	if ch.Exiting() || x.c3.Closed || cur != ch {
		x.bad("C08 channel re-created after a delete was deleted although nobody asked for it and its consumer never left", "consumer c3 subscribed (OK) to a channel %s created after the deleted one; at the idle point after the window that channel is exiting=%v, registered in the topic=%v, c3 closed by nsqd=%v", ch.name, ch.Exiting(), cur == ch, x.c3.Closed)
	}
}

// checkRecreatedEmpty (C08, "a later re-creation starts empty"): the delete was acknowledged
// inside the window; if a topic / channel of that name exists at the idle point after it, it
// holds nothing but what was published while the window was open.
func (x *microCtx) checkRecreatedEmpty() {
	if !(x.deleted || x.tdeleted) {
		return
	}
	pubs := int64(0)
	for _, o := range x.spec.Ops {
		if o == "pub" {
			pubs++
		}
	}
	t := x.w.Topic(x.topic)
	if t == nil || t.Exiting() {
		return
	}
	if x.tdeleted {
		total := t.Depth()
		t.RLock()
		for _, c := range t.channelMap {
			d := DumpChannel(c)
			total += d.Depth + int64(len(d.InFlight)) + int64(len(d.Deferred))
		}
		t.RUnlock()
		if total > pubs {
			x.bad("C08 topic re-created after its deletion does not start empty", "topic %s was deleted (200) inside the window and exists again at the idle point after it holding %d message(s) (topic depth %d); %d publish(es) overlapped the window", x.topic, total, t.Depth(), pubs)
		}
		return
	}
	if c := x.chanObj(); c != nil && !c.Exiting() {
		d := DumpChannel(c)
		if total := d.Depth + int64(len(d.InFlight)) + int64(len(d.Deferred)); total > pubs {
			x.bad("C08 channel re-created after its deletion does not start empty", "channel %s:%s was deleted (200) inside the window and exists again at the idle point after it holding %d message(s); %d publish(es) overlapped the window", x.topic, x.ch, total, pubs)
		}
	}
}

// checkDeletedFiles (C08): once a channel / topic has been deleted and does not exist (again)
// at the idle point after the window, none of its disk-queue files is left behind.
func (x *microCtx) checkDeletedFiles() {
	if !(x.deleted || x.tdeleted) || x.spec.Eph || x.spec.EphCh {
		return
	}
	ents, err := stdos.ReadDir(x.w.Dir)
	if err != nil {
		return
	}
	t := x.w.Topic(x.topic)
	for _, e := range ents {
		n := e.Name()
		if !strings.Contains(n, ".diskqueue.") {
			continue
		}
		if t == nil && (strings.HasPrefix(n, x.topic+".diskqueue.") || strings.HasPrefix(n, x.topic+":")) {
			x.bad("C08 disk file of a deleted topic left behind", "topic %s was deleted and does not exist, yet %s is still in the data directory", x.topic, n)
		}
		if t != nil && x.chanObj() == nil && x.deleted && strings.HasPrefix(n, x.topic+":"+x.ch+".diskqueue.") {
			x.bad("C08 disk file of a deleted channel left behind", "channel %s:%s was deleted and does not exist, yet %s is still in the data directory", x.topic, x.ch, n)
		}
	}
}

// drain: start the real scan loop, unpause, let a fresh consumer take and FIN everything.
func (x *microCtx) drain() {
	w := x.w
	w.N.waitGroup.Wrap(w.N.queueScanLoop)
	if t := w.Topic(x.topic); t != nil && !t.Exiting() {
		if t.IsPaused() {
			w.Do("POST", "/topic/unpause?topic="+x.topic, nil)
		}
		if c := x.chanObj(); c != nil && c.IsPaused() {
			w.Do("POST", "/channel/unpause?topic="+x.topic+"&channel="+x.ch, nil)
		}
	}
	d := w.Dial("drain")
	x.conns = append(x.conns, d)
	d.Cmd("SUB "+x.topic+" "+x.ch, nil)
	w.Quiesce()
	d.Cmd("RDY 10", nil)
	idle := 0
	for round := 0; round < 40 && (idle < 3 || round < 8); round++ {
		w.Quiesce()
		got := false
		for _, c := range x.conns {
			for _, f := range c.Take() {
				if f.Type != frameTypeMessage {
					continue
				}
				got = true
				x.deliv[f.ID] = append(x.deliv[f.ID], f.Attempts)
				x.delivTo[f.ID] = append(x.delivTo[f.ID], c.Name)
				x.delivBody[f.ID] = f.Body
				x.delivAt[f.ID] = append(x.delivAt[f.ID], f.At)
				if !c.Closed {
					c.Cmd("FIN "+f.ID, nil)
				}
			}
		}
		if got {
			idle = 0
		} else {
			idle++
		}
		w.Sleep(600 * time.Millisecond)
	}
	w.Quiesce()
}

func (x *microCtx) oracle() {
	spec := x.spec
	hasOp := func(names ...string) bool {
		for _, o := range spec.Ops {
			for _, n := range names {
				if o == n {
					return true
				}
			}
		}
		return false
	}
	// (c) attempts: successive deliveries of one id count 1,2,3...
	strict := true
	for _, o := range spec.Ops {
		if strings.Contains(o, "disc") {
			strict = false // sends to a connection that was dropped are never seen
		}
	}
	for id, as := range x.deliv {
		for i, a := range as {
			if (strict && a != i+1) || (!strict && (a < i+1 || (i > 0 && a <= as[i-1]))) {
				x.bad("C02 attempts not consecutive", "message %s deliveries carried attempts %v (to %v)", id, as, x.delivTo[id])
				break
			}
		}
	}
	// (b) FIN is final: nothing delivered after an accepted FIN. The drain consumer FINs
	// everything, so an id FIN-accepted in the window must have no delivery in the drain.
	// (deliveries are recorded in order; an accepted FIN in the window precedes the drain)
	c := x.chanObj()
	discardOp := hasOp("empty_ch", "del_ch", "del_topic")
	if x.m1 != "" && x.finOK[x.m1] {
		// the FIN was accepted inside the window (possibly for a redelivery that also
		// happened inside it); anything delivered once the window has closed is too late
		if n := len(x.deliv[x.m1]) - x.postWin[x.m1]; n > 0 {
			x.bad("C02 delivered again after accepted FIN", "message %s: FIN accepted in the window, yet %d later deliveries: %v to %v", x.m1, n, x.deliv[x.m1], x.delivTo[x.m1])
		}
	}
	// (a) no loss: without a discarding operation, every message that was not FIN-accepted
	// in the window ends up delivered (and FINed) in the drain
	if !discardOp && !spec.Eph && !spec.EphCh {
		want := 2
		if spec.State == "none" || spec.State == "ready" {
			want = 0
		}
		if hasOp("pub") && !hasOp("empty_topic") {
			want++ // (a publish overlapping a topic empty may be discarded by it)
		}
		// (the probe publishes made at the idle point - mP, mQ - are not among the expected)
		seen := 0
		for id := range x.deliv {
			if b := x.delivBody[id]; b != "mP" && b != "mQ" {
				seen++
			}
		}
		if seen < want {
			x.bad("C01 C02 C08 message lost", "expected %d distinct messages (of m1, m2, m3) to be delivered over the execution, saw %d: %s", want, seen, x.delivSummary())
		}
		// ... individually: a message that was ever delivered and whose FIN was not accepted
		// in the window must come round again in the drain (whoever holds it never answers, so
		// it times out; the drain FINs everything it is handed)
		for id, as := range x.deliv {
			if x.finOK[id] || hasOp("empty_topic") {
				continue
			}
			if len(as)-x.postWin[id] == 0 {
				x.bad("C01 C02 C08 message lost", "message %s (%s) was delivered %v to %v, its FIN was never accepted, and it was not delivered again during the drain (timeouts and delays all elapsed)", id, x.delivBody[id], as, x.delivTo[id])
			}
		}
		if c != nil {
			d := DumpChannel(c)
			if d.Depth != 0 || len(d.InFlight) != 0 || len(d.Deferred) != 0 {
				x.bad("C01 C02 C08 drain did not converge", "after drain: %+v", d)
			}
		}
	}
	// (t) timeouts are never early: without an accepted REQ, a message is delivered again no
	// sooner than msg_timeout (1 s here) after its previous delivery, and no sooner than
	// msg_timeout after an accepted TOUCH. Arrival times can lag sends by the output-buffer
	// timeout (250 ms), hence the slack.
	const slack = int64(300 * time.Millisecond)
	msgTimeout := int64(time.Second)
	for id, ats := range x.delivAt {
		if x.reqOK[id] > 0 {
			continue
		}
		for i := 1; i < len(ats); i++ {
			if gap := ats[i] - ats[i-1]; gap < msgTimeout-slack {
				x.bad("C02 C04 redelivered before its timeout", "message %s delivered again %d ms after the previous delivery with no REQ (msg_timeout 1000 ms): attempts %v to %v", id, gap/1e6, x.deliv[id], x.delivTo[id])
				break
			}
		}
		if t, ok := x.touchOK[id]; ok {
			// The TOUCH was accepted, so its sender held the message at that moment; a
			// delivery to ANOTHER connection from the window on must therefore come after
			// it, i.e. no sooner than msg_timeout later. (A redelivery to the toucher itself
			// is ambiguous - the TOUCH may have been for that second hold - and is skipped.)
			for i, at := range ats {
				if i >= x.preWin[id] && x.delivTo[id][i] != x.touchBy[id] && at < t+msgTimeout-slack {
					x.bad("C02 C04 accepted TOUCH not honoured", "message %s: TOUCH by %s accepted at +%d ms, yet delivered to %s at +%d ms (msg_timeout 1000 ms): attempts %v to %v", id, x.touchBy[id], (t-vrt.Epoch0)/1e6, x.delivTo[id][i], (at-vrt.Epoch0)/1e6, x.deliv[id], x.delivTo[id])
					break
				}
			}
		}
	}
	// (s) conservation: at the idle point after the window the channel's counts (depth, in
	// flight, deferred) and the topic's depth account for every message still held; the
	// drain publishes nothing, so it cannot be handed more distinct messages than that
	if x.held >= 0 && !hasOp("create_ch2") {
		n := int64(0)
		for id, as := range x.deliv {
			if len(as) > x.postWin[id] {
				n++
			}
		}
		if n > x.held {
			x.bad("C13 C08 C03 message delivered that the counts at an idle point did not account for", "depth + in flight + deferred (+ topic depth) was %d once the window had closed and everything was idle, yet %d distinct messages were delivered afterwards with no publish: %s to %v", x.held, n, x.delivSummary(), x.delivTo)
		}
	}
	// (d) one holder at a time: every delivery beyond the first of an id needs a requeue
	// or a timeout before it
	if c != nil && !x.deleted && !x.tdeleted {
		extra := 0
		for _, as := range x.deliv {
			extra += len(as) - 1
		}
		if uint64(extra) > c.requeueCount+c.timeoutCount {
			x.bad("C02 redelivery without requeue or timeout", "%d redeliveries but requeue_count=%d timeout_count=%d; %s", extra, c.requeueCount, c.timeoutCount, x.delivSummary())
		}
		if s := CheckChannelStructure(c); s != "" {
			x.anomalies = append(x.anomalies, "after drain: "+structClass(s))
		}
		x.checkClientCounts("after drain")
		// C13 conservation (the drain FINs everything it gets; FINs that failed are retried
		// after the timeout, so at the end everything still counted is finished or discarded)
		if !discardOp && !hasOp("empty_topic") {
			fin := uint64(0)
			for _, cons := range c.clients {
				if k, ok := cons.(*clientV2); ok {
					fin += k.FinishCount
				}
			}
			_ = fin
		}
	}
	// (i) discard semantics, permissive form: m2 is never operated on by the scenario. If
	// no delivery step touched it while the window was open (so it was at rest - queued, in
	// flight or deferred - for the whole empty/delete call, which returned inside the
	// window) it must not be delivered once the window has closed.
	if discardOp && (x.emptied || x.deleted || x.tdeleted) {
		if id := x.m2ID(); id != "" {
			inWin := x.postWin[id] - x.preWin[id]
			after := len(x.deliv[id]) - x.postWin[id]
			// sends in the window that never showed up as a frame (the receiving connection
			// was closed) may have been m2: then it was not at rest
			seenWin := 0
			for k, n := range x.postWin {
				seenWin += n - x.preWin[k]
			}
			unseen := int(x.sendsWin) - seenWin
			if inWin == 0 && unseen <= 0 && after > 0 {
				x.bad("C08 discarded message delivered afterwards", "message m2 (%s) was at rest during the whole empty/delete call (deliveries before/in window: %d/%d) and was delivered %d time(s) after it returned: %v to %v", id, x.preWin[id], inWin, after, x.deliv[id], x.delivTo[id])
			}
		}
	}
	// (j) delete removes the files and disconnects the consumers
	if (x.deleted || x.tdeleted) && !spec.Eph && !spec.EphCh {
		if !x.c1.Closed && !hasOp("disc1") {
			// consumer connections of a deleted channel are closed
			x.c1.Poll()
			if !x.c1.Closed {
				x.bad("C08 consumer not disconnected by delete", "c1 still open after the channel/topic was deleted")
			}
		}
	}
	// (k) ephemeral objects never reach the disk or the metadata
	if ents, err := stdos.ReadDir(x.w.Dir); err == nil {
		for _, e := range ents {
			if strings.Contains(e.Name(), "#ephemeral") {
				x.bad("C08 ephemeral object on disk", "file %s", e.Name())
			}
		}
	}
	if bts, err := stdos.ReadFile(x.w.Dir + "/nsqd.dat"); err == nil && strings.Contains(string(bts), "#ephemeral") {
		x.bad("C08 ephemeral object in metadata", "%s", bts)
	}
}

// totalSends sums message_count over every consumer connection the scenario has seen.
func (x *microCtx) totalSends() uint64 {
	seen := map[*clientV2]bool{}
	if x.k1 != nil {
		seen[x.k1] = true
	}
	if x.k2 != nil {
		seen[x.k2] = true
	}
	x.w.N.tcpServer.conns.Range(func(k, v interface{}) bool {
		if cl, ok := v.(*clientV2); ok {
			seen[cl] = true
		}
		return true
	})
	var n uint64
	for k := range seen {
		n += k.MessageCount
	}
	return n
}

func (x *microCtx) m2ID() string {
	if x.m2 != "" {
		return x.m2
	}
	for id, body := range x.delivBody {
		if body == "m2" {
			return id
		}
	}
	return ""
}

// afterRestart: the scenario called Exit inside the window. A new daemon is started on the
// same data path, drained, and judged (C05): every message acknowledged and unfinished
// when the shutdown was requested comes back, with its attempts count continuing.
func (x *microCtx) afterRestart() {
	old := x.w
	before := map[string]int{} // body -> attempts seen before the shutdown
	for id, as := range x.deliv {
		if b := x.delivBody[id]; b != "" && len(as) > 0 {
			before[b] = as[len(as)-1]
		}
	}
	for _, c := range old.Conns {
		c.Poll()
	}
	w2, err := NewWorld(old.Dir, WOpts{MemQ: x.spec.MemQ, MaxBytesPerFile: 4096, Verbose: x.spec.Trace})
	if err != nil {
		x.bad("C05 C06 restart on the same data path failed", "%v", err)
		return
	}
	x.w = w2
	x.afterRst = map[string][]int{}
	// the topic and the channel existed (non-ephemeral) before the shutdown was requested and
	// nothing deleted them: they exist again, before any consumer re-creates them
	if !x.spec.Eph && !x.spec.EphCh && !x.deleted && !x.tdeleted {
		if w2.Topic(x.topic) == nil {
			x.bad("C05 topic missing after restart", "topic %s existed when shutdown was requested; after the restart nsqd has topics %v", x.topic, topicNamesOf(w2))
		} else if w2.Channel(x.topic, x.ch) == nil {
			x.bad("C05 channels differ after restart", "channel %s of topic %s existed when shutdown was requested; after the restart the topic has channels %v", x.ch, x.topic, chanNamesOf(w2, x.topic))
		}
	}
	w2.Do("POST", "/topic/unpause?topic="+x.topic, nil)
	w2.Do("POST", "/channel/unpause?topic="+x.topic+"&channel="+x.ch, nil)
	d := w2.Dial("drain")
	d.Identify(map[string]interface{}{"client_id": "drain", "output_buffer_size": -1})
	d.Cmd("SUB "+x.topic+" "+x.ch, nil)
	w2.Quiesce()
	d.Cmd("RDY 10", nil)
	for round := 0; round < 12; round++ {
		w2.Quiesce()
		for _, f := range d.Take() {
			if f.Type == frameTypeMessage {
				x.afterRst[f.Body] = append(x.afterRst[f.Body], f.Attempts)
				d.Cmd("FIN "+f.ID, nil)
			}
		}
		w2.Sleep(600 * time.Millisecond)
	}
	if x.spec.TwoChan {
		x.afterRestartSecondChannel(w2)
	}
	finished := x.m1 != "" && x.finOK[x.m1]
	// Post-mortem of the first daemon: Channel.flush writes the in-flight table to the
	// backend but does not clear it, so a message that is LOST and nevertheless sits in the
	// old channel's in-flight table was registered in flight AFTER the flush - which only a
	// consumer's messagePump does (StartInFlightTimeout after it took the message off the
	// queue before the flush): the window nsqd's own comments acknowledge.
	pumpHeld := map[string]bool{}
	pumpSends := 0 // sends by consumer pumps after the flush had started: each explains one loss
	vrt.Quiesce() // (consumer pumps are told to stop, not waited for: let them finish)
	if x.flushWatch != nil {
		x.flushWatch.Stop()
		// registered in flight after Channel.flush had started writing: only a consumer's
		// messagePump does that
		pumpHeld = x.flushWatch.RegisteredAfterFlush(x.topic, x.ch)
		pumpSends = x.flushWatch.SendsAfterFlush(x.topic, x.ch)
	}
	for _, body := range []string{"m1", "m2"} {
		if x.spec.State == "none" {
			break
		}
		got := x.afterRst[body]
		if body == "m1" && finished {
			continue // a FIN overlapping the shutdown may go either way
		}
		if len(got) == 0 {
			if pumpHeld[body] && body == "m1" && hasOpIn(x.spec.Ops, "touch1") {
				if _, touched := x.touchOK[x.m1]; touched {
					// TouchMessage takes the message out of the in-flight table and puts it back
					// in a second step; a flush in between does not see it
					x.bad("C05 message being touched lost by a graceful shutdown", "%s (attempts before the shutdown: %d) was being TOUCHed while Exit was flushing the channel (out of the in-flight table when the flush passed, back in afterwards) and was not delivered after the restart; delivered: %v", body, before[body], x.afterRst)
					continue
				}
			}
			if !pumpHeld[body] && pumpSends > 0 {
				// a pump read the message back from the backend the flush had just written
				pumpSends--
				pumpHeld[body] = true
			}
			if pumpHeld[body] {
				x.bad("C05 message in the hands of a delivery pump lost by a graceful shutdown", "%s (attempts before the shutdown: %d) was not delivered after the restart: a consumer's pump had taken it off the queue before Exit flushed the channel and registered it in flight afterwards; delivered: %v", body, before[body], x.afterRst)
				continue
			}
			if body == "m1" && (hasOpIn(x.spec.Ops, "req1") || hasOpIn(x.spec.Ops, "req1d")) {
				// REQ pops the message from the in-flight table and re-queues / defers it in a
				// second step; a flush in between sees it nowhere
				x.bad("C05 message being requeued lost by a graceful shutdown", "%s (attempts before the shutdown: %d) was being requeued (REQ) while Exit was flushing the channel and was not delivered after the restart; delivered: %v", body, before[body], x.afterRst)
				continue
			}
		x.bad("C05 unfinished message lost by a graceful shutdown", "%s (attempts before the shutdown: %d) was not delivered after the restart; delivered: %v", body, before[body], x.afterRst)
			continue
		}
		if got[0] < before[body]+1 {
			x.bad("C05 attempts count did not continue across the restart", "%s: attempts %d before the shutdown, %d on the first delivery after the restart", body, before[body], got[0])
		}
	}
}

// afterRestartSecondChannel (C05 "delivered again on each of its channels"): channel c2 had
// no consumer, so m1 and m2 lay at rest in it the whole time - they come back whatever the
// shutdown overlapped; and a message published inside the window that comes back on one
// channel comes back on the other.
func (x *microCtx) afterRestartSecondChannel(w2 *World) {
	if w2.Channel(x.topic, "c2") == nil {
		x.bad("C05 channels differ after restart", "channel c2 of topic %s existed when shutdown was requested; after the restart the topic has channels %v", x.topic, chanNamesOf(w2, x.topic))
		return
	}
	w2.Do("POST", "/channel/unpause?topic="+x.topic+"&channel=c2", nil)
	d := w2.Dial("drain2")
	d.Identify(map[string]interface{}{"client_id": "drain2", "output_buffer_size": -1})
	d.Cmd("SUB "+x.topic+" c2", nil)
	w2.Quiesce()
	d.Cmd("RDY 10", nil)
	got := map[string]int{}
	for round := 0; round < 6; round++ {
		w2.Quiesce()
		for _, f := range d.Take() {
			if f.Type == frameTypeMessage {
				got[f.Body]++
				d.Cmd("FIN "+f.ID, nil)
			}
		}
		w2.Sleep(600 * time.Millisecond)
	}
	for _, body := range []string{"m1", "m2"} {
		if x.spec.State != "none" && x.spec.State != "ready" && got[body] == 0 {
			x.bad("C05 message at rest on a channel without consumers lost by a graceful shutdown", "%s was queued on channel c2 (no consumer, untouched by the scenario) when shutdown was requested and was not delivered on c2 after the restart; c2 delivered %v, channel %s delivered %v", body, got, x.ch, x.afterRst)
		}
	}
	for _, body := range []string{"m3"} {
		onC, onC2 := len(x.afterRst[body]) > 0, got[body] > 0
		if onC != onC2 {
			x.bad("C05 C01 message restored on one channel of its topic but not on the other", "%s (published while the shutdown was requested): after the restart channel %s delivered %v, channel c2 delivered %v - both channels existed before it was published", body, x.ch, x.afterRst, got)
		}
	}
}

func topicNamesOf(w *World) []string {
	var out []string
	w.N.RLock()
	for n := range w.N.topicMap {
		out = append(out, n)
	}
	w.N.RUnlock()
	sort.Strings(out)
	return out
}

func hasOpIn(ops []string, op string) bool {
	for _, o := range ops {
		if o == op {
			return true
		}
	}
	return false
}
