//go:build verif

package http_api

import "net/http"

// NewClientWithTransport builds a Client around a caller-supplied transport (harness use:
// an in-memory nsqlookupd instead of sockets).
func NewClientWithTransport(rt http.RoundTripper) *Client {
	return &Client{c: &http.Client{Transport: rt}}
}
