//go:build go1.18 && verif

package nsqlookupd

// C15: nsqlookupd survives arbitrary input (E5).

import (
	"bytes"
	"encoding/binary"
	"encoding/json"
	"fmt"
	"regexp"
	"strings"

	"github.com/nsqio/nsq/internal/verif/vrt"
	"github.com/nsqio/nsq/internal/verif/vx"
)

type RobustSpec struct {
	Kind   string `json:"kind"` // tcp | http
	Data   []byte `json:"data"` // tcp: everything sent, magic included
	Method string `json:"method"`
	Path   string `json:"path"`
	Query  string `json:"query"`
	Desc   string `json:"desc"`
}

var lkNameRe = regexp.MustCompile(`^[.a-zA-Z0-9_-]+(#ephemeral)?$`)

var documentedLookupErrors = []string{"E_INVALID", "E_BAD_TOPIC", "E_BAD_CHANNEL", "E_BAD_BODY", "E_BAD_PROTOCOL"}

func RunRobust(spec RobustSpec) vx.Out {
	var viol []vx.Found
	bad := func(clause, f string, a ...interface{}) {
		viol = append(viol, vx.Found{Sig: clause + " :: lookupd " + spec.Desc, Detail: fmt.Sprintf(f, a...)})
	}
	w, err := NewLWorld()
	if err != nil {
		return vx.Out{Obs: "world", Viol: []vx.Found{{Sig: "INFRA lookupd world", Detail: err.Error()}}}
	}
	defer w.Release()
	// the well-behaved bystander with three registrations
	by := w.Dial(30001)
	body, _ := json.Marshal(map[string]interface{}{"broadcast_address": "by", "hostname": "by", "tcp_port": 1, "http_port": 2, "version": "1.0"})
	by.Cmd("IDENTIFY", body)
	by.Cmd("REGISTER ta ca", nil)
	by.Cmd("REGISTER tb", nil)
	by.Cmd("REGISTER tc cc#ephemeral", nil)
	vrt.Quiesce()
	by.Responses()
	skip, skipCh := "", ""
	bystander := func(when string) {
		for _, t := range []string{"ta", "tb", "tc"} {
			if t == skip {
				continue
			}
			code, b := w.Do("GET", "/lookup?topic="+t)
			if code != 200 || !strings.Contains(b, `"broadcast_address":"by"`) {
				bad("C15 another connection's registrations changed", "%s: /lookup?topic=%s answered %d %s", when, t, code, b)
				return
			}
			// ... and its channels are still registered
			if ch := map[string]string{"ta": "ca", "tc": "cc#ephemeral"}[t]; ch != "" && t != skipCh && !strings.Contains(b, `"`+ch+`"`) {
				bad("C15 another connection's registrations changed", "%s: /lookup?topic=%s no longer lists channel %s: %s", when, t, ch, b)
				return
			}
		}
		if code, b := w.Do("GET", "/nodes"); code != 200 || !strings.Contains(b, `"broadcast_address":"by"`) {
			bad("C15 another connection's registrations changed", "%s: /nodes no longer lists the other nsqd: %d %s", when, code, b)
			return
		}
		by.Cmd("PING", nil)
		vrt.Quiesce()
		if rs := by.Responses(); len(rs) != 1 || rs[0] != "OK" || by.Closed {
			bad("C15 daemon stopped answering another connection", "%s: PING answered %q closed=%v", when, rs, by.Closed)
		}
	}
	obs := ""
	switch spec.Kind {
	case "tcp":
		c := w.DialRaw(30002)
		c.C.Write(spec.Data)
		vrt.Quiesce()
		bystander("with the connection open")
		c.C.CloseWrite()
		vrt.Quiesce()
		rs := c.Responses()
		for _, r := range rs {
			code := strings.SplitN(r, " ", 2)[0]
			obs += code + ","
			if strings.HasPrefix(code, "E_") {
				ok := false
				for _, d := range documentedLookupErrors {
					if d == code {
						ok = true
					}
				}
				if !ok {
					bad("C15 undocumented error code", "answered %q", r)
				}
			} else if r != "OK" && !strings.HasPrefix(r, "{") {
				bad("C15 malformed response", "answered %q", r)
			}
		}
		if !c.Closed {
			bad("C15 connection not closed after end of input", "responses %q", rs)
		}
		bystander("after the connection")
		// whatever it sent and however it ended: a connection that is gone owns nothing
		for k, pm := range w.L.DB.registrationMap {
			for id := range pm {
				if id == "127.0.0.1:30002" {
					bad("C14 C15 registration of a closed connection left in the registry", "%s/%s/%s still lists the producer of the closed connection %s", k.Category, k.Key, k.SubKey, id)
				}
			}
		}
		// invalid names are refused: nothing that breaks the naming rules is registered
		for k := range w.L.DB.registrationMap {
			for _, n := range []string{k.Key, k.SubKey} {
				if n != "" && (len(n) > 64 || !lkNameRe.MatchString(n)) {
					bad("C15 invalid name accepted into the registry", "registration %s/%s/%s", k.Category, k.Key, k.SubKey)
				}
			}
		}
	case "http":
		code, b := w.DoRaw(spec.Method, spec.Path, spec.Query, strings.NewReader("x"))
		obs = fmt.Sprint(code)
		if code == 500 {
			bad("C15 HTTP request answered 500", "%s %s?%s: %s", spec.Method, spec.Path, spec.Query, b)
		}
		if code != 404 && code != 405 && strings.HasPrefix(strings.TrimSpace(b), "{") {
			var x interface{}
			if json.Unmarshal([]byte(b), &x) != nil {
				bad("C15 malformed JSON response", "%q", b)
			}
		}
		// an HTTP request may legitimately change the registry only through the admin
		// endpoints, and then only the object it names
		if spec.Method == "POST" && (spec.Path == "/topic/delete" || spec.Path == "/topic/tombstone") && strings.HasPrefix(spec.Query, "topic=ta") {
			skip = "ta"
		}
		if spec.Method == "POST" && spec.Path == "/channel/delete" && strings.HasPrefix(spec.Query, "topic=ta") && strings.Contains(spec.Query, "channel=ca") {
			skipCh = "ta"
		}
		bystander("after the request")
	}
	return vx.Out{Obs: obs, Viol: viol}
}

// LkIdentify builds an IDENTIFY with an explicit length prefix.
func LkIdentify(prefix int32, body []byte) []byte {
	var b bytes.Buffer
	b.WriteString("  V1IDENTIFY\n")
	binary.Write(&b, binary.BigEndian, prefix)
	b.Write(body)
	return b.Bytes()
}
