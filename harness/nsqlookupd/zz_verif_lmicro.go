//go:build go1.18 && verif

package nsqlookupd

// C14, E1: 2-3 operations of different connections / the admin API run concurrently against
// one real nsqlookupd, every interleaving explored. The oracle is differential: the outcome
// of a concurrent execution (each operation's answer + the final registry + what /lookup
// says afterwards) must equal the outcome of SOME sequential order of the same operations
// on the same code (linearizability against the implementation's own sequential behaviour;
// the sequential behaviour itself is what the E3 search compares with the registry model).

import (
	"encoding/json"
	"fmt"
	"sort"
	"strings"

	"github.com/nsqio/nsq/internal/verif/vrt"
	"github.com/nsqio/nsq/internal/verif/vsync"
	"github.com/nsqio/nsq/internal/verif/vx"
)

type LMicroSpec struct {
	Pre   []string `json:"pre"`             // events applied one after another first (same syntax as Ops)
	Ops   []string `json:"ops"`             // the concurrent operations
	Order []int    `json:"order,omitempty"` // reference run: apply Ops sequentially in this order
}

func (s LMicroSpec) String() string {
	return strings.Join(s.Pre, ",") + " || " + strings.Join(s.Ops, " | ")
}

type lmicro struct {
	w     *LWorld
	conns map[string]*LConn
}

// await blocks (as a scheduling point) until one more response has arrived.
func (c *LConn) await() string {
	for {
		if rs := c.Responses(); len(rs) > 0 {
			return strings.SplitN(rs[0], " ", 2)[0]
		}
		if c.Closed {
			return "eof"
		}
		var tmp [4096]byte
		n, err := c.C.Read(tmp[:])
		c.buf = append(c.buf, tmp[:n]...)
		if err != nil {
			c.Closed = true
		}
	}
}

func (x *lmicro) apply(op string) string {
	p := strings.Split(op, ":")
	switch p[0] {
	case "conn":
		n := p[1]
		idx := int(n[1] - '0')
		c := x.w.Dial(30000 + idx)
		x.conns[n] = c
		body, _ := json.Marshal(map[string]interface{}{"broadcast_address": "host-" + n, "hostname": "host-" + n, "tcp_port": 4160 + idx, "http_port": 4150 + idx, "version": "1.0"})
		c.Cmd("IDENTIFY", body)
		r := c.await()
		if strings.HasPrefix(r, "{") {
			return "ok"
		}
		return r
	case "reg", "unreg":
		c := x.conns[p[1]]
		line := map[string]string{"reg": "REGISTER ", "unreg": "UNREGISTER "}[p[0]] + p[2]
		if len(p) > 3 && p[3] != "" {
			line += " " + p[3]
		}
		c.Cmd(line, nil)
		return c.await()
	case "ping":
		c := x.conns[p[1]]
		c.Cmd("PING", nil)
		return c.await()
	case "drop":
		x.conns[p[1]].C.Close()
		return "closed"
	case "mktopic":
		code, _ := x.w.Do("POST", "/topic/create?topic="+esc(p[1]))
		return fmt.Sprint(code)
	case "rmtopic":
		code, _ := x.w.Do("POST", "/topic/delete?topic="+esc(p[1]))
		return fmt.Sprint(code)
	case "mkchan":
		code, _ := x.w.Do("POST", "/channel/create?topic="+esc(p[1])+"&channel="+esc(p[2]))
		return fmt.Sprint(code)
	case "rmchan":
		code, _ := x.w.Do("POST", "/channel/delete?topic="+esc(p[1])+"&channel="+esc(p[2]))
		return fmt.Sprint(code)
	case "tomb":
		code, _ := x.w.Do("POST", "/topic/tombstone?topic="+esc(p[1])+"&node=host-"+p[2]+":415"+p[2][1:])
		return fmt.Sprint(code)
	case "debug", "nodes", "topics", "channels":
		// read-only endpoints that walk the registry: like lookup, only success is judged
		url := "/" + p[0]
		if p[0] == "channels" {
			url += "?topic=" + esc(p[1])
		}
		code, _ := x.w.Do("GET", url)
		if code != 200 {
			return fmt.Sprintf("%s=%d", p[0], code)
		}
		return p[0]
	case "lookup":
		// a reader in the middle: its answer is not part of the outcome (any subset of the
		// concurrent writers may be visible to it), it only has to succeed or say 404
		code, _ := x.w.Do("GET", "/lookup?topic="+esc(p[1]))
		if code != 200 && code != 404 {
			return fmt.Sprintf("lookup=%d", code)
		}
		return "lookup"
	}
	panic("unknown lookupd micro op " + op)
}

func esc(s string) string { return strings.ReplaceAll(s, "#", "%23") }

// dump renders the registry (read-only) and what the API says about it.
func (x *lmicro) dump() string {
	db := x.w.L.DB
	var keys []string
	for k, pm := range db.registrationMap {
		var ps []string
		for _, p := range pm {
			t := ""
			if p.tombstoned {
				t = "(tomb)"
			}
			ps = append(ps, fmt.Sprintf("%s:%d%s", p.peerInfo.BroadcastAddress, p.peerInfo.HTTPPort, t))
		}
		sort.Strings(ps)
		keys = append(keys, fmt.Sprintf("%s/%s/%s=%v", k.Category, k.Key, k.SubKey, ps))
	}
	sort.Strings(keys)
	out := strings.Join(keys, "; ")
	for _, t := range []string{"T", "E#ephemeral"} {
		code, body := x.w.Do("GET", "/lookup?topic="+esc(t))
		var d struct {
			Channels  []string `json:"channels"`
			Producers []struct {
				BroadcastAddress string `json:"broadcast_address"`
			} `json:"producers"`
		}
		json.Unmarshal([]byte(body), &d)
		var ps []string
		for _, p := range d.Producers {
			ps = append(ps, p.BroadcastAddress)
		}
		sort.Strings(ps)
		sort.Strings(d.Channels)
		out += fmt.Sprintf(" | lookup %s: %d %v %v", t, code, ps, d.Channels)
	}
	return out
}

// RunLMicro is the body of one controlled execution.
func RunLMicro(spec LMicroSpec) vx.Out {
	w, err := NewLWorld()
	if err != nil {
		return vx.Out{Obs: "world", Viol: []vx.Found{{Sig: "INFRA lookupd world", Detail: err.Error()}}}
	}
	defer w.Release()
	x := &lmicro{w: w, conns: map[string]*LConn{}}
	for _, ev := range spec.Pre {
		x.apply(ev)
		vrt.Quiesce()
	}
	results := make([]string, len(spec.Ops))
	if spec.Order != nil {
		for _, i := range spec.Order {
			results[i] = x.apply(spec.Ops[i])
			vrt.Quiesce()
		}
	} else {
		var wg vsync.WaitGroup
		wg.Add(len(spec.Ops))
		vrt.Window(true)
		for i, op := range spec.Ops {
			i, op := i, op
			vrt.GoNamed(op, func() {
				results[i] = x.apply(op)
				wg.Done()
			})
		}
		wg.Wait()
		vrt.Quiesce()
		vrt.Window(false)
	}
	vrt.Quiesce()
	return vx.Out{Obs: strings.Join(results, ",") + " => " + x.dump()}
}
