//go:build go1.18 && verif

package nsqlookupd

// C14/C15 harness: a real NSQLookupd whose connection goroutines are vrt threads; producers
// speak the real protocol over in-memory connections; HTTP goes through the real router.
// A plain registry model runs in lock-step (C14); robustness inputs are judged for
// survival, answers and isolation (C15).

import (
	"net/url"
	"bytes"
	"encoding/binary"
	"encoding/json"
	"fmt"
	"io"
	"net"
	"net/http"
	"net/http/httptest"
	"sort"
	"strings"
	"time"

	"github.com/nsqio/nsq/internal/lg"
	"github.com/nsqio/nsq/internal/verif/vrt"
	"github.com/nsqio/nsq/internal/verif/vx"
)

type nopLogger struct{}

func (nopLogger) Output(int, string) error { return nil }

const (
	lkTomb     = 10 * time.Second
	lkInactive = 30 * time.Second
)

type LWorld struct {
	L    *NSQLookupd
	HTTP *httpServer
}

type LConn struct {
	C      *vrt.Conn
	buf    []byte
	Closed bool
}

func NewLWorld() (*LWorld, error) {
	opts := NewOptions()
	opts.Logger = nopLogger{}
	opts.LogLevel = lg.FATAL
	opts.TCPAddress = "127.0.0.1:0"
	opts.HTTPAddress = "127.0.0.1:0"
	opts.BroadcastAddress = "127.0.0.1"
	opts.TombstoneLifetime = lkTomb
	opts.InactiveProducerTimeout = lkInactive
	l, err := New(opts)
	if err != nil {
		return nil, err
	}
	return &LWorld{L: l, HTTP: newHTTPServer(l)}, nil
}

func (w *LWorld) Release() {
	w.L.tcpListener.Close()
	w.L.httpListener.Close()
}

var lconnSeq int

func (w *LWorld) DialRaw(port int) *LConn {
	s, c := vrt.Pipe(fmt.Sprint(port), "lk")
	l := w.L
	vrt.GoNamed("lkconn", func() { l.tcpServer.Handle(s) })
	return &LConn{C: c}
}

func (w *LWorld) Dial(port int) *LConn {
	c := w.DialRaw(port)
	c.C.Write([]byte("  V1"))
	return c
}

func (c *LConn) Cmd(line string, body []byte) {
	var b bytes.Buffer
	b.WriteString(line + "\n")
	if body != nil {
		binary.Write(&b, binary.BigEndian, int32(len(body)))
		b.Write(body)
	}
	c.C.Write(b.Bytes())
}

// Responses returns the length-prefixed responses that have arrived (non-blocking).
func (c *LConn) Responses() []string {
	var tmp [4096]byte
	for c.C.Buffered() > 0 {
		n, _ := c.C.ReadNoSched(tmp[:])
		c.buf = append(c.buf, tmp[:n]...)
	}
	if c.C.PeerClosed() {
		c.Closed = true
	}
	var out []string
	for len(c.buf) >= 4 {
		n := int(binary.BigEndian.Uint32(c.buf[:4]))
		if len(c.buf) < 4+n {
			break
		}
		out = append(out, string(c.buf[4:4+n]))
		c.buf = c.buf[4+n:]
	}
	return out
}

func (w *LWorld) Do(method, url string) (int, string) {
	req := httptest.NewRequest(method, url, nil)
	rec := httptest.NewRecorder()
	w.HTTP.ServeHTTP(rec, req)
	return rec.Code, rec.Body.String()
}

func (w *LWorld) DoRaw(method, path, rawQuery string, body io.Reader) (int, string) {
	req := httptest.NewRequest(method, "http://lk"+path, body)
	req.URL.RawQuery = rawQuery
	rec := httptest.NewRecorder()
	w.HTTP.ServeHTTP(rec, req)
	return rec.Code, rec.Body.String()
}

// ---------------------------------------------------------------- registry model (C14)

type mReg struct{ cat, key, sub string }

type mEntry struct {
	tombAt int64 // 0 = not tombstoned
}

type mProd struct {
	name      string
	host      string
	port      int // remote port (identity of the connection)
	http      int
	tcp       int
	conn      *LConn
	connected bool
	lastPing  int64
	gen       int
}

type lmodel struct {
	keys  map[mReg]map[string]*mEntry // key -> producer name -> entry
	prods map[string]*mProd
}

type LHistCfg struct {
	Prods int  `json:"prods"`
	Trace bool `json:"trace,omitempty"`
	// SameAddr: the second connection identifies as the SAME nsqd as the first (same
	// broadcast address and ports) - an nsqd that reconnected while its old connection is
	// still open. Registrations belong to connections, so both are listed until each goes.
	SameAddr bool `json:"sameaddr,omitempty"`
}

type lhist struct {
	cfg  LHistCfg
	w    *LWorld
	m    *lmodel
	hist []string
	viol []vx.Found
}

func (h *lhist) bad(clause, f string, a ...interface{}) {
	h.viol = append(h.viol, vx.Found{Sig: clause + " :: lookupd hist", Detail: fmt.Sprintf("after %v: ", h.hist) + fmt.Sprintf(f, a...)})
}

var lkTopics = []string{"T", "E#ephemeral"}
var lkChans = []string{"", "C", "X#ephemeral"}

func (h *lhist) Menu() []string {
	var m []string
	for _, n := range []string{"p1", "p2"}[:h.cfg.Prods] {
		p := h.m.prods[n]
		if p == nil || !p.connected {
			m = append(m, "conn:"+n)
			continue
		}
		for _, t := range lkTopics {
			for _, c := range lkChans {
				m = append(m, "reg:"+n+":"+t+":"+c, "unreg:"+n+":"+t+":"+c)
			}
		}
		m = append(m, "ping:"+n, "drop:"+n, "err:"+n)
	}
	m = append(m, "mktopic:T", "rmtopic:T", "mkchan:T:C", "rmchan:T:C", "tomb:T:p1")
	// (the admin deletions also for the ephemeral topic, whose own registration may be gone
	// while registrations of its channels remain)
	m = append(m, "rmtopic:E#ephemeral", "rmchan:E#ephemeral:C")
	if h.cfg.Prods > 1 {
		m = append(m, "tomb:T:p2")
	}
	m = append(m, "adv:9", "adv:2", "adv:31")
	return m
}

func (h *lhist) expectOK(c *LConn, what string) {
	h.wq()
	rs := c.Responses()
	if len(rs) != 1 || rs[0] != "OK" {
		h.bad("C14 C15 valid command not answered OK", "%s answered %q", what, rs)
	}
}

func (h *lhist) wq() { vrt.Quiesce() }

func (h *lhist) Apply(ev string) {
	h.hist = append(h.hist, ev)
	p := strings.Split(ev, ":")
	now := vrt.Now()
	m := h.m
	ensure := func(k mReg) map[string]*mEntry {
		if m.keys[k] == nil {
			m.keys[k] = map[string]*mEntry{}
		}
		return m.keys[k]
	}
	switch p[0] {
	case "conn":
		n := p[1]
		pr := m.prods[n]
		if pr == nil {
			idx := int(n[1] - '0')
			host := "host-" + n
			if h.cfg.SameAddr {
				idx, host = 1, "host-p1"
			}
			pr = &mProd{name: n, host: host, http: 4150 + idx, tcp: 4160 + idx}
			m.prods[n] = pr
		}
		pr.gen++
		pr.port = 20000 + int(n[1]-'0')*100 + pr.gen
		pr.conn = h.w.Dial(pr.port)
		body, _ := json.Marshal(map[string]interface{}{"broadcast_address": pr.host, "hostname": pr.host, "tcp_port": pr.tcp, "http_port": pr.http, "version": "1.0"})
		pr.conn.Cmd("IDENTIFY", body)
		h.wq()
		rs := pr.conn.Responses()
		if len(rs) != 1 || !strings.HasPrefix(rs[0], "{") {
			h.bad("C14 C15 valid IDENTIFY refused", "answered %q", rs)
		}
		pr.connected, pr.lastPing = true, now
		ensure(mReg{"client", "", ""})[n] = &mEntry{}
	case "reg":
		pr := m.prods[p[1]]
		line := "REGISTER " + p[2]
		if p[3] != "" {
			line += " " + p[3]
		}
		pr.conn.Cmd(line, nil)
		h.expectOK(pr.conn, line)
		if p[3] != "" {
			e := ensure(mReg{"channel", p[2], p[3]})
			if e[pr.name] == nil {
				e[pr.name] = &mEntry{}
			}
		}
		e := ensure(mReg{"topic", p[2], ""})
		if e[pr.name] == nil {
			e[pr.name] = &mEntry{}
		}
	case "unreg":
		pr := m.prods[p[1]]
		line := "UNREGISTER " + p[2]
		if p[3] != "" {
			line += " " + p[3]
		}
		pr.conn.Cmd(line, nil)
		h.expectOK(pr.conn, line)
		if p[3] != "" {
			k := mReg{"channel", p[2], p[3]}
			if e, ok := m.keys[k]; ok {
				delete(e, pr.name)
				if len(e) == 0 && strings.HasSuffix(p[3], "#ephemeral") {
					delete(m.keys, k)
				}
			}
		} else {
			for k, e := range m.keys {
				if k.cat == "channel" && k.key == p[2] {
					delete(e, pr.name)
				}
			}
			k := mReg{"topic", p[2], ""}
			if e, ok := m.keys[k]; ok {
				delete(e, pr.name)
				if len(e) == 0 && strings.HasSuffix(p[2], "#ephemeral") {
					delete(m.keys, k)
				}
			}
		}
	case "ping":
		pr := m.prods[p[1]]
		pr.conn.Cmd("PING", nil)
		h.expectOK(pr.conn, "PING")
		pr.lastPing = now
	case "drop":
		pr := m.prods[p[1]]
		pr.conn.C.Close()
		pr.connected = false
		for _, e := range m.keys {
			delete(e, pr.name)
		}
	case "err":
		// the connection ends because nsqlookupd itself drops it: a command with an invalid
		// topic name is answered with a fatal error. For the registry that is a disconnect.
		pr := m.prods[p[1]]
		pr.conn.Cmd("REGISTER bad$topic", nil)
		h.wq()
		rs := pr.conn.Responses()
		if len(rs) != 1 || !strings.HasPrefix(rs[0], "E_BAD_TOPIC") {
			h.bad("C14 C15 invalid topic name not refused", "REGISTER bad$topic answered %q", rs)
		}
		if !pr.conn.Closed {
			pr.conn.C.Close()
		}
		pr.connected = false
		for _, e := range m.keys {
			delete(e, pr.name)
		}
	case "mktopic":
		if code, _ := h.w.Do("POST", "/topic/create?topic="+p[1]); code != 200 {
			h.bad("C14 admin call failed", "%s: %d", ev, code)
		}
		ensure(mReg{"topic", p[1], ""})
	case "rmtopic":
		if code, _ := h.w.Do("POST", "/topic/delete?topic="+url.QueryEscape(p[1])); code != 200 {
			h.bad("C14 admin call failed", "%s: %d", ev, code)
		}
		for k := range m.keys {
			if (k.cat == "channel" || k.cat == "topic") && k.key == p[1] {
				delete(m.keys, k)
			}
		}
	case "mkchan":
		if code, _ := h.w.Do("POST", "/channel/create?topic="+p[1]+"&channel="+p[2]); code != 200 {
			h.bad("C14 admin call failed", "%s: %d", ev, code)
		}
		ensure(mReg{"channel", p[1], p[2]})
		ensure(mReg{"topic", p[1], ""})
	case "rmchan":
		code, _ := h.w.Do("POST", "/channel/delete?topic="+url.QueryEscape(p[1])+"&channel="+url.QueryEscape(p[2]))
		k := mReg{"channel", p[1], p[2]}
		_, exists := m.keys[k]
		if exists != (code == 200) || (!exists && code != 404) {
			h.bad("C14 channel delete status wrong", "%s: %d, channel registered in the model: %v", ev, code, exists)
		}
		delete(m.keys, k)
	case "tomb":
		node := "host-" + p[2] + ":415" + p[2][1:]
		if h.cfg.SameAddr {
			node = "host-p1:4151"
		}
		if code, _ := h.w.Do("POST", "/topic/tombstone?topic="+p[1]+"&node="+node); code != 200 {
			h.bad("C14 admin call failed", "%s: %d", ev, code)
		}
		// the tombstone names a node (address:http-port): every connection that identified
		// as that node and registered the topic is hidden
		for _, pr := range m.prods {
			if fmt.Sprintf("%s:%d", pr.host, pr.http) != node {
				continue
			}
			if e := m.keys[mReg{"topic", p[1], ""}]; e != nil && e[pr.name] != nil {
				e[pr.name].tombAt = now
			}
		}
	case "adv":
		var s int64
		fmt.Sscan(p[1], &s)
		vrt.SleepFor(s * int64(time.Second))
	}
	h.wq()
	h.compare()
}

func sortedKeys(m map[string]bool) []string {
	var s []string
	for k := range m {
		s = append(s, k)
	}
	sort.Strings(s)
	return s
}

func (h *lhist) active(p *mProd, now int64) bool {
	return p.connected && now-p.lastPing <= int64(lkInactive)
}

func (h *lhist) compare() {
	now := vrt.Now()
	m := h.m
	// /topics
	want := map[string]bool{}
	for k := range m.keys {
		if k.cat == "topic" {
			want[k.key] = true
		}
	}
	var doc struct {
		Topics    []string `json:"topics"`
		Channels  []string `json:"channels"`
		Producers []struct {
			BroadcastAddress string   `json:"broadcast_address"`
			HTTPPort         int      `json:"http_port"`
			Topics           []string `json:"topics"`
			Tombstones       []bool   `json:"tombstones"`
		} `json:"producers"`
	}
	get := func(url string) int {
		doc.Topics, doc.Channels, doc.Producers = nil, nil, nil
		code, body := h.w.Do("GET", url)
		if code == 200 {
			if err := json.Unmarshal([]byte(body), &doc); err != nil {
				h.bad("C14 C15 malformed JSON", "%s: %q", url, body)
			}
		}
		return code
	}
	asSet := func(xs []string) map[string]bool {
		s := map[string]bool{}
		for _, x := range xs {
			s[x] = true
		}
		return s
	}
	get("/topics")
	if got := asSet(doc.Topics); fmt.Sprint(sortedKeys(got)) != fmt.Sprint(sortedKeys(want)) || len(doc.Topics) != len(got) {
		h.bad("C14 /topics differs from the registry model", "got %v, model %v", doc.Topics, sortedKeys(want))
	}
	for _, t := range lkTopics {
		// /channels
		wc := map[string]bool{}
		for k := range m.keys {
			if k.cat == "channel" && k.key == t {
				wc[k.sub] = true
			}
		}
		get("/channels?topic=" + strings.ReplaceAll(t, "#", "%23"))
		if got := asSet(doc.Channels); fmt.Sprint(sortedKeys(got)) != fmt.Sprint(sortedKeys(wc)) || len(doc.Channels) != len(got) {
			h.bad("C14 /channels differs from the registry model", "topic %s: got %v, model %v", t, doc.Channels, sortedKeys(wc))
		}
		// /lookup
		code := get("/lookup?topic=" + strings.ReplaceAll(t, "#", "%23"))
		e, exists := m.keys[mReg{"topic", t, ""}]
		if !exists {
			if code != 404 {
				h.bad("C14 /lookup of an unknown topic", "topic %s: status %d", t, code)
			}
			continue
		}
		if code != 200 {
			h.bad("C14 /lookup of a known topic failed", "topic %s: status %d", t, code)
			continue
		}
		// (multisets: one entry per registered connection)
		var wp, gp []string
		for n, ent := range e {
			p := m.prods[n]
			if !h.active(p, now) {
				continue
			}
			if ent.tombAt != 0 && now-ent.tombAt < int64(lkTomb) {
				continue
			}
			wp = append(wp, fmt.Sprintf("%s:%d", p.host, p.http))
		}
		for _, p := range doc.Producers {
			gp = append(gp, fmt.Sprintf("%s:%d", p.BroadcastAddress, p.HTTPPort))
		}
		sort.Strings(wp)
		sort.Strings(gp)
		if fmt.Sprint(gp) != fmt.Sprint(wp) {
			h.bad("C14 /lookup producers differ from the registry model", "topic %s: got %v, model %v", t, gp, wp)
		}
		if got := asSet(doc.Channels); fmt.Sprint(sortedKeys(got)) != fmt.Sprint(sortedKeys(wc)) {
			h.bad("C14 /lookup channels differ from the registry model", "topic %s: got %v, model %v", t, doc.Channels, sortedKeys(wc))
		}
	}
	// /nodes: connected, recently pinged producers with their topics and tombstone flags
	get("/nodes")
	var wn, gn []string
	for n, p := range m.prods {
		if !h.active(p, now) || m.keys[mReg{"client", "", ""}][n] == nil {
			continue
		}
		var ts []string
		for k, e := range m.keys {
			if k.cat == "topic" && e[n] != nil {
				tomb := e[n].tombAt != 0 && now-e[n].tombAt < int64(lkTomb)
				ts = append(ts, fmt.Sprintf("%s/%v", k.key, tomb))
			}
		}
		sort.Strings(ts)
		wn = append(wn, fmt.Sprintf("%s:%d %v", p.host, p.http, ts))
	}
	for _, p := range doc.Producers {
		var ts []string
		for i, t := range p.Topics {
			tomb := false
			if i < len(p.Tombstones) {
				tomb = p.Tombstones[i]
			}
			ts = append(ts, fmt.Sprintf("%s/%v", t, tomb))
		}
		sort.Strings(ts)
		gn = append(gn, fmt.Sprintf("%s:%d %v", p.BroadcastAddress, p.HTTPPort, ts))
	}
	sort.Strings(wn)
	sort.Strings(gn)
	if fmt.Sprint(gn) != fmt.Sprint(wn) {
		h.bad("C14 /nodes differs from the registry model", "got %v, model %v", gn, wn)
	}
}

func (h *lhist) Key() string {
	now := vrt.Now()
	var parts []string
	for k, e := range h.m.keys {
		var ps []string
		for n, ent := range e {
			t := "-"
			if ent.tombAt != 0 {
				if now-ent.tombAt < int64(lkTomb) {
					t = fmt.Sprintf("tomb%d", (now-ent.tombAt)/1e9)
				} else {
					t = "lapsed"
				}
			}
			ps = append(ps, n+t)
		}
		sort.Strings(ps)
		parts = append(parts, fmt.Sprintf("%s/%s/%s=%v", k.cat, k.key, k.sub, ps))
	}
	sort.Strings(parts)
	var pp []string
	for n, p := range h.m.prods {
		age := (now - p.lastPing) / 1e9
		if age > 31 {
			age = 31
		}
		pp = append(pp, fmt.Sprintf("%s:%v:%d", n, p.connected, age))
	}
	sort.Strings(pp)
	return strings.Join(parts, ";") + "|" + strings.Join(pp, ",")
}

type LHistRes struct {
	Key  string     `json:"key"`
	Menu []string   `json:"menu"`
	Viol []vx.Found `json:"viol"`
}

func RunLHist(cfg LHistCfg, hist []string) LHistRes {
	w, err := NewLWorld()
	if err != nil {
		return LHistRes{Viol: []vx.Found{{Sig: "INFRA lookupd world", Detail: err.Error()}}}
	}
	defer w.Release()
	h := &lhist{cfg: cfg, w: w, m: &lmodel{keys: map[mReg]map[string]*mEntry{}, prods: map[string]*mProd{}}}
	for _, ev := range hist {
		h.Apply(ev)
	}
	return LHistRes{Key: h.Key(), Menu: h.Menu(), Viol: h.viol}
}

// ---- exported helpers for harnesses of other packages (C16)

// NewNamedLWorld creates a lookupd whose broadcast address is name.
func NewNamedLWorld(name string) (*LWorld, error) {
	w, err := NewLWorld()
	if err == nil {
		w.L.opts.BroadcastAddress = name
	}
	return w, err
}

// HandleConn serves one TCP connection with the real tcpServer.Handle.
func (w *LWorld) HandleConn(c net.Conn) { w.L.tcpServer.Handle(c) }

// Router is the real HTTP handler.
func (w *LWorld) Router() http.Handler { return w.HTTP }

// Producers lists "topic" and "topic/channel" keys for which a producer with the given
// broadcast address is registered (and every key, with its producers, when addr is "").
func (w *LWorld) KeysOf(addr string) []string {
	var out []string
	w.L.DB.RLock()
	defer w.L.DB.RUnlock()
	for k, ps := range w.L.DB.registrationMap {
		if k.Category == "client" {
			continue
		}
		for _, p := range ps {
			if p.peerInfo.BroadcastAddress == addr {
				name := k.Key
				if k.SubKey != "" {
					name += "/" + k.SubKey
				}
				out = append(out, k.Category+":"+name)
			}
		}
	}
	sort.Strings(out)
	return out
}

// CloseAll closes every producer connection (a lookupd going away).
func (w *LWorld) CloseAll() { w.L.tcpServer.Close() }

func (w *LWorld) HTTPPort() int { return w.L.RealHTTPAddr().Port }
