//go:build go1.18

package vos

import (
	"fmt"
	orig "os"
)

// Effect is one logged file-system effect.
type Effect struct {
	Op   string
	Path string
	To   string
	Off  int64
	Data []byte
}

var Log []Effect
var Hook func(e Effect) // called before the effect is applied (crash point)

// Fault, if set, is asked before every mutating file operation and may make it fail: a
// write then stores only the first half of its data (a short write on a full disk) and
// returns the error; any other operation fails without having happened.
var Fault func(e Effect) error

// Logging switches the effect log on (off by default: executions are many).
var Logging bool

func rec(e Effect) {
	if Hook != nil {
		Hook(e)
	}
	if Logging {
		Log = append(Log, e)
	}
}

type File struct {
	*orig.File
	path string
	flag int
}

var (
	Stdin  = &File{File: orig.Stdin, path: "/dev/stdin"}
	Stdout = &File{File: orig.Stdout, path: "/dev/stdout"}
	Stderr = &File{File: orig.Stderr, path: "/dev/stderr"}
)

// open files, so that an abandoned execution's descriptors can be reclaimed
var openFiles = map[*File]bool{}

// CloseLeaked closes every file opened through this package that is still open.
func CloseLeaked() {
	for f := range openFiles {
		f.File.Close()
	}
	openFiles = map[*File]bool{}
}

func wrap(f *orig.File, err error, op, name string, flag int) (*File, error) {
	if err != nil {
		return nil, err
	}
	vf := &File{File: f, path: name, flag: flag}
	// (read-only opens - e.g. the directory the data-path lock is taken on - are not
	// tracked: holding a reference here would keep alive a file the code under test has
	// dropped, and hide what the garbage collector's finalizer then does to it)
	if flag&(orig.O_WRONLY|orig.O_RDWR|orig.O_CREATE|orig.O_APPEND|orig.O_TRUNC) != 0 {
		openFiles[vf] = true
	}
	return vf, nil
}

func OpenFile(name string, flag int, perm orig.FileMode) (*File, error) {
	if flag&(orig.O_CREATE|orig.O_TRUNC|orig.O_WRONLY|orig.O_RDWR|orig.O_APPEND) != 0 {
		e := Effect{Op: fmt.Sprintf("open(%#x)", flag), Path: name}
		if Fault != nil {
			if err := Fault(e); err != nil {
				return nil, &orig.PathError{Op: "open", Path: name, Err: err}
			}
		}
		rec(e)
	}
	f, err := orig.OpenFile(name, flag, perm)
	return wrap(f, err, "open", name, flag)
}
func Open(name string) (*File, error) { return OpenFile(name, orig.O_RDONLY, 0) }
func Create(name string) (*File, error) {
	return OpenFile(name, orig.O_RDWR|orig.O_CREATE|orig.O_TRUNC, 0666)
}
func NewFile(fd uintptr, name string) *File { return &File{File: orig.NewFile(fd, name), path: name} }
func CreateTemp(dir, pattern string) (*File, error) {
	f, err := orig.CreateTemp(dir, pattern)
	if err != nil {
		return nil, err
	}
	rec(Effect{Op: "create", Path: f.Name()})
	return wrap(f, nil, "create", f.Name(), 0)
}
func Pipe() (*File, *File, error) {
	r, w, err := orig.Pipe()
	if err != nil {
		return nil, nil, err
	}
	return &File{File: r}, &File{File: w}, nil
}

func (f *File) Write(p []byte) (int, error) {
	if Fault != nil {
		if err := Fault(Effect{Op: "write", Path: f.path, Data: p}); err != nil {
			half := p[:len(p)/2]
			rec(Effect{Op: "write", Path: f.path, Off: f.writeOff(), Data: append([]byte(nil), half...)})
			n, _ := f.File.Write(half)
			return n, &orig.PathError{Op: "write", Path: f.path, Err: err}
		}
	}
	rec(Effect{Op: "write", Path: f.path, Off: f.writeOff(), Data: append([]byte(nil), p...)})
	return f.File.Write(p)
}

// writeOff: where the next Write lands: -1 = at the end (O_APPEND), else the file position
func (f *File) writeOff() int64 {
	if f.flag&orig.O_APPEND != 0 {
		return -1
	}
	if off, err := f.File.Seek(0, 1); err == nil {
		return off
	}
	return -1
}
func (f *File) WriteString(s string) (int, error) { return f.Write([]byte(s)) }
func (f *File) WriteAt(p []byte, off int64) (int, error) {
	rec(Effect{Op: "writeat", Path: f.path, Off: off, Data: append([]byte(nil), p...)})
	return f.File.WriteAt(p, off)
}
func (f *File) Sync() error {
	if Fault != nil {
		if err := Fault(Effect{Op: "fsync", Path: f.path}); err != nil {
			return &orig.PathError{Op: "sync", Path: f.path, Err: err}
		}
	}
	rec(Effect{Op: "fsync", Path: f.path})
	return f.File.Sync()
}
func (f *File) Close() error {
	rec(Effect{Op: "close", Path: f.path})
	delete(openFiles, f)
	return f.File.Close()
}
func (f *File) Truncate(n int64) error {
	rec(Effect{Op: "truncate", Path: f.path, Off: n})
	return f.File.Truncate(n)
}

func Rename(a, b string) error {
	if Fault != nil {
		if err := Fault(Effect{Op: "rename", Path: a, To: b}); err != nil {
			return &orig.LinkError{Op: "rename", Old: a, New: b, Err: err}
		}
	}
	rec(Effect{Op: "rename", Path: a, To: b})
	return orig.Rename(a, b)
}
func Remove(a string) error     { rec(Effect{Op: "remove", Path: a}); return orig.Remove(a) }
func RemoveAll(a string) error  { rec(Effect{Op: "removeall", Path: a}); return orig.RemoveAll(a) }
func Link(a, b string) error    { rec(Effect{Op: "link", Path: a, To: b}); return orig.Link(a, b) }
func Symlink(a, b string) error { rec(Effect{Op: "symlink", Path: a, To: b}); return orig.Symlink(a, b) }
func Mkdir(a string, p orig.FileMode) error {
	rec(Effect{Op: "mkdir", Path: a})
	return orig.Mkdir(a, p)
}
func MkdirAll(a string, p orig.FileMode) error {
	rec(Effect{Op: "mkdirall", Path: a})
	return orig.MkdirAll(a, p)
}
func WriteFile(name string, data []byte, perm orig.FileMode) error {
	rec(Effect{Op: "writefile", Path: name, Data: append([]byte(nil), data...)})
	return orig.WriteFile(name, data, perm)
}
func Truncate(name string, n int64) error {
	rec(Effect{Op: "truncate", Path: name, Off: n})
	return orig.Truncate(name, n)
}

type ExitPanic struct{ Code int }

var ExitHook func(code int)

func Exit(code int) {
	if ExitHook != nil {
		ExitHook(code)
	}
	orig.Exit(code)
}
