//go:build go1.18

package vsync

import (
	"bytes"
	"fmt"
	"sort"
	orig "sync"
	"unsafe"

	"github.com/nsqio/nsq/internal/verif/vrt"
)

type Mutex struct {
	mu orig.Mutex
	st vrt.MutexState
}

func (m *Mutex) Lock() {
	if !vrt.Active() {
		m.mu.Lock()
		return
	}
	vrt.Point(&vrt.Op{Kind: vrt.OpLock, Name: "Lock", Obj: uintptr(unsafe.Pointer(m)), Write: true, Mu: &m.st})
}
func (m *Mutex) Unlock() {
	if !vrt.Active() {
		m.mu.Unlock()
		return
	}
	vrt.Point(&vrt.Op{Kind: vrt.OpAtomic, Name: "Unlock", Obj: uintptr(unsafe.Pointer(m)), Write: true, Release: true})
	m.st.Held = false
	vrt.UnheldMu(&m.st)
}
func (m *Mutex) TryLock() bool {
	if !vrt.Active() {
		return m.mu.TryLock()
	}
	if m.st.Held {
		return false
	}
	m.st.Held = true
	return true
}

type RWMutex struct {
	mu orig.RWMutex
	st vrt.RWState
}

func (m *RWMutex) Lock() {
	if !vrt.Active() {
		m.mu.Lock()
		return
	}
	// two transitions, as in sync.RWMutex: the writer first gets in line (from then on new
	// readers block), then waits for the readers that are already in to leave
	vrt.Point(&vrt.Op{Kind: vrt.OpRLock, Name: "WLock.announce", Obj: uintptr(unsafe.Pointer(m)), Write: true, Announce: true, RW: &m.st})
	vrt.Point(&vrt.Op{Kind: vrt.OpRLock, Name: "WLock", Obj: uintptr(unsafe.Pointer(m)), Write: true, RW: &m.st})
}
func (m *RWMutex) Unlock() {
	if !vrt.Active() {
		m.mu.Unlock()
		return
	}
	vrt.Point(&vrt.Op{Kind: vrt.OpAtomic, Name: "WUnlock", Obj: uintptr(unsafe.Pointer(m)), Write: true, Release: true})
	m.st.Writer = false
	m.st.Announced = false
	vrt.UnheldRW(&m.st, true)
}
func (m *RWMutex) RLock() {
	if !vrt.Active() {
		m.mu.RLock()
		return
	}
	vrt.Point(&vrt.Op{Kind: vrt.OpRLock, Name: "RLock", Obj: uintptr(unsafe.Pointer(m)), RW: &m.st})
}
func (m *RWMutex) RUnlock() {
	if !vrt.Active() {
		m.mu.RUnlock()
		return
	}
	vrt.Point(&vrt.Op{Kind: vrt.OpAtomic, Name: "RUnlock", Obj: uintptr(unsafe.Pointer(m)), Release: true})
	m.st.Readers--
	vrt.UnheldRW(&m.st, false)
}
// TryRLock succeeds iff RLock would not block: no writer holds the lock or is in line for it.
func (m *RWMutex) TryRLock() bool {
	if !vrt.Active() {
		return m.mu.TryRLock()
	}
	vrt.Point(&vrt.Op{Kind: vrt.OpAtomic, Name: "TryRLock", Obj: uintptr(unsafe.Pointer(m)), Write: true})
	if m.st.Writer || m.st.Announced {
		return false
	}
	m.st.Readers++
	vrt.HoldRW(&m.st, false)
	return true
}

// TryLock succeeds iff Lock would not block.
func (m *RWMutex) TryLock() bool {
	if !vrt.Active() {
		return m.mu.TryLock()
	}
	vrt.Point(&vrt.Op{Kind: vrt.OpAtomic, Name: "TryWLock", Obj: uintptr(unsafe.Pointer(m)), Write: true})
	if m.st.Writer || m.st.Announced || m.st.Readers > 0 {
		return false
	}
	m.st.Writer, m.st.Announced = true, true
	vrt.HoldRW(&m.st, true)
	return true
}

func (m *RWMutex) RLocker() orig.Locker { return (*rlocker)(m) }

type rlocker RWMutex

func (r *rlocker) Lock()   { (*RWMutex)(r).RLock() }
func (r *rlocker) Unlock() { (*RWMutex)(r).RUnlock() }

type WaitGroup struct {
	wg orig.WaitGroup
	st vrt.WGState
}

func (w *WaitGroup) Add(n int) {
	if !vrt.Active() {
		w.wg.Add(n)
		return
	}
	// Add/Done commute with each other and only ever enable Wait (which is the writer class)
	vrt.Point(&vrt.Op{Kind: vrt.OpAtomic, Name: "WG.Add", Obj: uintptr(unsafe.Pointer(w)), Release: n < 0})
	w.st.N += n
}
func (w *WaitGroup) Done() { w.Add(-1) }
func (w *WaitGroup) Wait() {
	if !vrt.Active() {
		w.wg.Wait()
		return
	}
	vrt.Point(&vrt.Op{Kind: vrt.OpWait, Name: "Wait", Obj: uintptr(unsafe.Pointer(w)), Write: true, WG: &w.st})
}

type Once struct {
	o    orig.Once
	m    Mutex
	done bool
}

func (o *Once) Do(f func()) {
	if !vrt.Active() {
		o.o.Do(f)
		return
	}
	o.m.Lock()
	defer o.m.Unlock()
	if !o.done {
		defer func() { o.done = true }()
		f()
	}
}

type Pool struct {
	New   func() interface{}
	p     orig.Pool
	items []interface{}
	epoch int
}

func (p *Pool) Get() interface{} {
	if !vrt.Active() {
		p.p.New = p.New
		return p.p.Get()
	}
	if p.epoch != vrt.S.Epoch {
		p.items, p.epoch = nil, vrt.S.Epoch
	}
	if n := len(p.items); n > 0 {
		x := p.items[n-1]
		p.items = p.items[:n-1]
		return x
	}
	if p.New != nil {
		return p.New()
	}
	return nil
}
func (p *Pool) Put(x interface{}) {
	if !vrt.Active() {
		p.p.Put(x)
		return
	}
	if p.epoch != vrt.S.Epoch {
		p.items, p.epoch = nil, vrt.S.Epoch
	}
	for _, it := range p.items {
		if it == x {
			// comparable (pointer) items only: the same object is in the pool twice, so two
			// later Gets hand it to two users at once
			vrt.Hazard("object handed back to a sync.Pool twice (two later users will share it)")
			break
		}
	}
	// Whoever still uses the object - or memory it handed out - after the Put shares it with
	// the next user. For byte buffers that is made visible at once: the returned buffer's
	// whole backing array is overwritten, so a slice of it that is still referenced (a
	// message body, a record about to be written) no longer carries what was put there.
	if b, ok := x.(*bytes.Buffer); ok {
		s := b.Bytes()
		s = s[:cap(s)]
		for i := range s {
			s[i] = 0xDD
		}
	}
	p.items = append(p.items, x)
}

type Map struct{ m orig.Map }

func (m *Map) pt(w bool, n string) {
	if vrt.Active() {
		vrt.Point(&vrt.Op{Kind: vrt.OpAtomic, Name: n, Obj: uintptr(unsafe.Pointer(m)), Write: w})
	}
}
func (m *Map) Load(k interface{}) (interface{}, bool) { m.pt(false, "Map.Load"); return m.m.Load(k) }
func (m *Map) Store(k, v interface{})                 { m.pt(true, "Map.Store"); m.m.Store(k, v) }
func (m *Map) Delete(k interface{})                   { m.pt(true, "Map.Delete"); m.m.Delete(k) }
func (m *Map) Range(f func(k, v interface{}) bool) {
	m.pt(false, "Map.Range")
	type kv struct{ k, v interface{} }
	var all []kv
	m.m.Range(func(k, v interface{}) bool { all = append(all, kv{k, v}); return true })
	if vrt.Active() && len(all) > 1 {
		// sync.Map iterates in random order: make it canonical
		sort.Slice(all, func(i, j int) bool { return fmt.Sprint(all[i].k) < fmt.Sprint(all[j].k) })
	}
	for _, e := range all {
		if !f(e.k, e.v) {
			return
		}
	}
}
func (m *Map) LoadOrStore(k, v interface{}) (interface{}, bool) {
	m.pt(true, "Map.LoadOrStore")
	return m.m.LoadOrStore(k, v)
}
func (m *Map) LoadAndDelete(k interface{}) (interface{}, bool) {
	m.pt(true, "Map.LoadAndDelete")
	return m.m.LoadAndDelete(k)
}
