//go:build go1.18

package vtime

import (
	"reflect"
	orig "time"

	"github.com/nsqio/nsq/internal/verif/vrt"
)

var Offset orig.Duration // passthrough-mode clock offset

func Now() orig.Time {
	if !vrt.Active() {
		return orig.Now().Add(Offset)
	}
	if vrt.S.TickNow {
		// a real clock never returns the same instant twice: successive reads differ
		vrt.S.Clock++
	}
	return orig.Unix(0, vrt.S.Clock)
}
func Since(t orig.Time) orig.Duration { return Now().Sub(t) }
func Until(t orig.Time) orig.Duration { return t.Sub(Now()) }
func Sleep(d orig.Duration) {
	if !vrt.Active() {
		orig.Sleep(d)
		return
	}
	vrt.Point(&vrt.Op{Kind: vrt.OpSleep, Name: "Sleep", T: vrt.S.Clock + int64(d)})
}

func mk(ns int64) reflect.Value { return reflect.ValueOf(orig.Unix(0, ns)) }

type Ticker struct {
	C  <-chan orig.Time
	t  *orig.Ticker
	tm *vrt.Timer
}

func NewTicker(d orig.Duration) *Ticker {
	if d <= 0 {
		panic("non-positive interval for NewTicker")
	}
	if !vrt.Active() {
		t := orig.NewTicker(d)
		return &Ticker{C: t.C, t: t}
	}
	c := make(chan orig.Time, 1)
	tm := &vrt.Timer{At: vrt.S.Clock + int64(d), Period: int64(d), Ch: reflect.ValueOf(c)}
	vrt.AddTimer(tm, mk)
	return &Ticker{C: c, tm: tm}
}
func (t *Ticker) Stop() {
	if t.t != nil {
		t.t.Stop()
		return
	}
	t.tm.Dead = true
}
func (t *Ticker) Reset(d orig.Duration) {
	if t.t != nil {
		t.t.Reset(d)
		return
	}
	t.tm.Dead, t.tm.Period, t.tm.At = false, int64(d), vrt.S.Clock+int64(d)
}
func Tick(d orig.Duration) <-chan orig.Time { return NewTicker(d).C }

type Timer struct {
	C  <-chan orig.Time
	t  *orig.Timer
	tm *vrt.Timer
}

func NewTimer(d orig.Duration) *Timer {
	if !vrt.Active() {
		t := orig.NewTimer(d)
		return &Timer{C: t.C, t: t}
	}
	c := make(chan orig.Time, 1)
	tm := &vrt.Timer{At: vrt.S.Clock + int64(d), Ch: reflect.ValueOf(c)}
	vrt.AddTimer(tm, mk)
	return &Timer{C: c, tm: tm}
}
func (t *Timer) Stop() bool {
	if t.t != nil {
		return t.t.Stop()
	}
	was := !t.tm.Dead
	t.tm.Dead = true
	return was
}
func (t *Timer) Reset(d orig.Duration) bool {
	if t.t != nil {
		return t.t.Reset(d)
	}
	was := !t.tm.Dead
	t.tm.Dead = false
	t.tm.At = vrt.S.Clock + int64(d)
	if was {
		return true
	}
	vrt.AddTimer(t.tm, mk)
	return false
}
func After(d orig.Duration) <-chan orig.Time { return NewTimer(d).C }
func AfterFunc(d orig.Duration, f func()) *Timer {
	if !vrt.Active() {
		return &Timer{t: orig.AfterFunc(d, f)}
	}
	tm := &vrt.Timer{At: vrt.S.Clock + int64(d), Fn: f}
	vrt.AddTimer(tm, mk)
	return &Timer{tm: tm}
}
