//go:build go1.18

// Package vrand replaces math/rand: inside a controlled run the top-level functions draw
// from a fixed-seed generator that is reset at the start of every execution.
package vrand

import (
	orig "math/rand"

	"github.com/nsqio/nsq/internal/verif/vrt"
)

var (
	gen   *orig.Rand
	epoch int
	// Seed0 is the per-execution seed.
	Seed0 int64 = 1
)

func g() *orig.Rand {
	if gen == nil || epoch != vrt.S.Epoch {
		gen = orig.New(orig.NewSource(Seed0))
		epoch = vrt.S.Epoch
	}
	return gen
}

func Seed(s int64) {
	if !vrt.Active() {
		orig.Seed(s)
	}
}
func Int() int {
	if !vrt.Active() {
		return orig.Int()
	}
	return g().Int()
}
func Intn(n int) int {
	if !vrt.Active() {
		return orig.Intn(n)
	}
	return g().Intn(n)
}
func Int31() int32 {
	if !vrt.Active() {
		return orig.Int31()
	}
	return g().Int31()
}
func Int31n(n int32) int32 {
	if !vrt.Active() {
		return orig.Int31n(n)
	}
	return g().Int31n(n)
}
func Int63() int64 {
	if !vrt.Active() {
		return orig.Int63()
	}
	return g().Int63()
}
func Int63n(n int64) int64 {
	if !vrt.Active() {
		return orig.Int63n(n)
	}
	return g().Int63n(n)
}
func Uint32() uint32 {
	if !vrt.Active() {
		return orig.Uint32()
	}
	return g().Uint32()
}
func Uint64() uint64 {
	if !vrt.Active() {
		return orig.Uint64()
	}
	return g().Uint64()
}
func Float64() float64 {
	if !vrt.Active() {
		return orig.Float64()
	}
	return g().Float64()
}
func Float32() float32 {
	if !vrt.Active() {
		return orig.Float32()
	}
	return g().Float32()
}
func Perm(n int) []int {
	if !vrt.Active() {
		return orig.Perm(n)
	}
	return g().Perm(n)
}
func Shuffle(n int, swap func(i, j int)) {
	if !vrt.Active() {
		orig.Shuffle(n, swap)
		return
	}
	g().Shuffle(n, swap)
}
func ExpFloat64() float64 {
	if !vrt.Active() {
		return orig.ExpFloat64()
	}
	return g().ExpFloat64()
}
func NormFloat64() float64 {
	if !vrt.Active() {
		return orig.NormFloat64()
	}
	return g().NormFloat64()
}
func Read(p []byte) (int, error) {
	if !vrt.Active() {
		return orig.Read(p)
	}
	return g().Read(p)
}
