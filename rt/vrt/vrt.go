//go:build go1.18

// Package vrt is the controlled runtime: every goroutine of instrumented code is a vrt
// thread, exactly one thread runs at a time (baton passing), and at every synchronisation
// operation the running thread declares its pending Op and the explorer's Chooser decides
// which enabled alternative executes next. Time is virtual.
//
// With no run active (passthrough mode) every helper performs the plain Go operation.
package vrt

import (
	"fmt"
	"os"
	"reflect"
	"runtime"
	"sort"
	"strings"
	"sync"
	"unsafe"
)

// ---------------------------------------------------------------- ops

type OpKind int

const (
	OpStart OpKind = iota
	OpLock
	OpRLock
	OpAtomic
	OpChan
	OpWait    // waitgroup
	OpSleep   // until clock >= T
	OpResume  // completed by partner, just continue
	OpYield   // always enabled, touches nothing
	OpCustom  // enabled iff Pred() (or clock >= T when T > 0)
	OpQuiesce // enabled iff nobody else is
)

var kindNames = [...]string{"start", "lock", "rwlock", "atomic", "chan", "wait", "sleep", "resume", "yield", "custom", "quiesce"}

func (k OpKind) String() string { return kindNames[k] }

type Case struct {
	Send bool
	Ch   reflect.Value
	Val  reflect.Value
}

type Op struct {
	Kind  OpKind
	Obj   uintptr
	Objs  []uintptr // additional objects touched
	Write bool
	// Release marks operations that can only enable others (unlock, WaitGroup.Done):
	// they order later operations but are never the first half of a reversible race.
	Release bool
	// Announce: first half of RWMutex.Lock (see RWState.Announced)
	Announce bool
	Mu       *MutexState
	RW    *RWState
	WG    *WGState
	Cases []Case
	Deflt bool
	T     int64
	Pred  func() bool
	Name  string
}

type MutexState struct{ Held bool }
type RWState struct {
	Writer  bool
	Readers int
	// Announced: a writer has passed the first half of Lock (Go: it holds the writers' mutex
	// and has announced itself), so new readers block - even while it still waits for the
	// current readers to leave. This is what makes a recursive RLock deadlock against a
	// writer, exactly as with sync.RWMutex.
	Announced bool
}
type WGState struct{ N int }

type rwHold struct {
	st    *RWState
	write bool
}

// forceRelease drops every lock a dead thread still holds (KeepGoing mode only).
func (t *Thread) forceRelease() {
	for _, m := range t.heldMu {
		m.Held = false
	}
	for _, h := range t.heldRW {
		if h.write {
			h.st.Writer = false
			h.st.Announced = false
		} else if h.st.Readers > 0 {
			h.st.Readers--
		}
	}
	for _, a := range t.annRW {
		a.Announced = false
	}
	t.heldMu, t.heldRW, t.annRW = nil, nil, nil
}

// Unheld is called by the lock shims after a release.
func UnheldMu(m *MutexState) {
	t := S.cur
	for i := len(t.heldMu) - 1; i >= 0; i-- {
		if t.heldMu[i] == m {
			t.heldMu = append(t.heldMu[:i], t.heldMu[i+1:]...)
			return
		}
	}
	// unlocked by another thread than the locker (legal in Go): drop it wherever it is
	for _, o := range S.threads {
		for i := len(o.heldMu) - 1; i >= 0; i-- {
			if o.heldMu[i] == m {
				o.heldMu = append(o.heldMu[:i], o.heldMu[i+1:]...)
				return
			}
		}
	}
}

// HoldRW records a read/write hold taken outside dispatch (TryRLock / TryLock).
func HoldRW(st *RWState, write bool) {
	S.cur.heldRW = append(S.cur.heldRW, rwHold{st, write})
}

func UnheldRW(st *RWState, write bool) {
	t := S.cur
	for i := len(t.heldRW) - 1; i >= 0; i-- {
		if t.heldRW[i].st == st && t.heldRW[i].write == write {
			t.heldRW = append(t.heldRW[:i], t.heldRW[i+1:]...)
			return
		}
	}
}

type Result struct {
	Idx int
	Val reflect.Value
	Ok  bool
}

type Thread struct {
	ID     int
	Name   string
	sem    chan struct{}
	op     *Op
	res    Result
	done   bool
	abort  bool
	exited chan struct{}
	Parent int
	heldMu []*MutexState
	heldRW []rwHold
	annRW  []*RWState // write locks this thread is in line for (announced, not yet acquired)
	// LastRun is the clock value at which the thread last executed (hang detection).
	LastRun int64
}

// Footprint returns the objects an op touches and whether it only reads them.
func (op *Op) Footprint() (objs []uintptr, readOnly bool, global bool) {
	switch op.Kind {
	case OpChan:
		for _, c := range op.Cases {
			if c.Ch.IsValid() && !c.Ch.IsNil() {
				objs = append(objs, c.Ch.Pointer())
			}
		}
		return objs, false, false
	case OpStart, OpResume, OpYield, OpQuiesce, OpSleep:
		// Quiesce and Sleep become enabled only when nothing else is (time moves only then),
		// so their position relative to other transitions is fixed by the scheduler.
		return nil, true, false
	}
	if op.Obj != 0 {
		objs = append(objs, op.Obj)
	}
	objs = append(objs, op.Objs...)
	if op.Kind == OpCustom && len(objs) == 0 {
		return nil, false, true
	}
	return objs, !op.Write, false
}

// Independent reports whether two pending ops of different threads commute.
func Independent(a, b *Op) bool {
	oa, ra, ga := a.Footprint()
	ob, rb, gb := b.Footprint()
	if ga || gb {
		return false
	}
	for _, x := range oa {
		for _, y := range ob {
			if x == y && !(ra && rb) {
				return false
			}
		}
	}
	return true
}

// Alt is one schedulable alternative at a decision point.
type Alt struct {
	Op      *Op
	T       *Thread
	Case    int // for chan ops; -1 = default arm
	Partner *Thread
	PCase   int
}

// Chooser picks one alternative. alts[0] is the default (the running thread if it is
// still enabled, else the lowest thread id). It is consulted only inside the window.
type Chooser func(cur *Thread, alts []Alt) int

// PointRec records one decision point taken inside the exploration window.
type PointRec struct {
	Tid    int    // thread chosen
	Name   string // op name
	Kind   OpKind
	Case   int
	NAlts  int
	Chosen int
	Cur    int  // thread that was running (-1 none)
	Shared bool // filled post-hoc by MarkShared
	objs   []uintptr
	write  bool
}

type Sched struct {
	Active  bool
	threads []*Thread
	cur     *Thread
	Clock   int64
	timers  []*Timer
	closed  map[uintptr]reflect.Value
	// external: channels that goroutines outside the runtime close (never send on); a
	// receive on them is probed with a non-consuming TryRecv
	external map[uintptr]bool
	choose  Chooser
	Steps   int
	MaxStep int
	Failure string
	wg      sync.WaitGroup
	mainSem chan struct{}
	Epoch   int
	Explore bool
	Points  []PointRec
	Record  bool // record Points (inside window)
	// HangAfter: if thread 0 has not run for this much virtual time, fail as "hang".
	HangAfter int64
	// SpawnHook is called (inside the window) when a thread is created.
	SpawnHook func(parent, child int)
	// EndHook is called when the run has ended, before the remaining threads are torn
	// down (their pending ops are still visible through PendingOp).
	EndHook func()
	// KeepGoing: after a panic in one thread the others keep running until nothing is
	// enabled (so that a partial-order explorer sees their events); the run still reports
	// the first panic as its failure.
	KeepGoing  bool
	FirstPanic string
	// RoundRobin selects the default order of alternatives: false = running thread, then
	// ascending ids; true = running thread, then ids cyclically after the thread that ran
	// last (non-preemptive round robin).
	RoundRobin bool
	lastTid    int
	addrClass map[uintptr]uint32 // (struct type, field) class of every field address seen in this run
	accs      []MemAcc // plain accesses noted by the transition that is running (inside the window)
	TraceAll  bool
	TickNow   bool // every clock read advances virtual time by 1 ns (set per run by a harness)
	Trace     []string
	finished  bool
}

var S = &Sched{}

const Epoch0 = int64(1_600_000_000_000_000_000)

type Timer struct {
	At     int64
	Period int64
	Ch     reflect.Value // chan time.Time (cap 1) or invalid
	Fn     func()
	Dead   bool
	mkVal  func(int64) reflect.Value
}

func Active() bool { return S.Active }
func Cur() *Thread { return S.cur }
func Now() int64   { return S.Clock }

// Run executes body as thread 0 under chooser; returns when body's thread finished
// (other threads are then aborted) or on deadlock / panic / step cap.
func Run(choose Chooser, maxSteps int, body func()) (failure string) {
	S.Active = true
	S.threads = nil
	S.Clock = Epoch0
	S.timers = nil
	S.closed = map[uintptr]reflect.Value{}
	S.external = map[uintptr]bool{}
	S.choose = choose
	S.Steps = 0
	S.accs = nil
	S.addrClass = map[uintptr]uint32{}
	S.TickNow = false
	hazards = nil
	S.MaxStep = maxSteps
	S.Failure = ""
	S.FirstPanic = ""
	S.lastTid = 0
	S.mainSem = make(chan struct{}, 1)
	S.Epoch++
	S.Explore = false
	S.Points = S.Points[:0]
	S.Trace = S.Trace[:0]
	S.finished = false
	if S.HangAfter == 0 {
		S.HangAfter = int64(3600 * 1e9)
	}
	t := newThread("main")
	S.cur = t
	S.wg.Add(1)
	go threadMain(t, body)
	t.sem <- struct{}{}
	<-S.mainSem
	if S.FirstPanic != "" {
		S.Failure = S.FirstPanic
	}
	if S.EndHook != nil {
		S.EndHook()
	}
	S.finished = true
	// abort everyone still parked
	// (one at a time: their deferred calls must not run concurrently with each other)
	for i := 0; i < len(S.threads); i++ {
		th := S.threads[i]
		th.abort = true
		select {
		case th.sem <- struct{}{}:
		default:
		}
		<-th.exited
	}
	S.wg.Wait()
	S.Active = false
	return S.Failure
}

func newThread(name string) *Thread {
	t := &Thread{ID: len(S.threads), Name: name, LastRun: S.Clock, sem: make(chan struct{}, 1), exited: make(chan struct{}), op: &Op{Kind: OpStart, Name: "start"}}
	S.threads = append(S.threads, t)
	return t
}

func threadMain(t *Thread, body func()) {
	normal := false
	defer S.wg.Done()
	defer close(t.exited)
	defer func() {
		if normal {
			return
		}
		r := recover()
		t.done = true
		if t.abort || S.finished {
			return
		}
		if r == nil {
			// Goexit: aborted at end of run (or the thread itself called Goexit)
			if !t.abort && !S.finished {
				dispatch(nil)
			}
			return
		}
		buf := make([]byte, 8192)
		n := runtime.Stack(buf, false)
		msg := fmt.Sprintf("panic in thread %d(%s): %v\n%s", t.ID, t.Name, r, trimStack(string(buf[:n])))
		if S.KeepGoing && t.ID != 0 && S.Failure == "" {
			if S.FirstPanic == "" {
				S.FirstPanic = msg
			}
			t.forceRelease()
			dispatch(nil)
			return
		}
		if S.Failure == "" {
			S.Failure = msg
		}
		finish()
	}()
	<-t.sem
	if t.abort {
		normal = true
		t.done = true
		return
	}
	body()
	normal = true
	t.done = true
	if t.ID == 0 {
		finish()
		return
	}
	// hand the baton to someone else
	dispatch(nil)
}

func trimStack(s string) string {
	lines := strings.Split(s, "\n")
	var out []string
	for i := 0; i < len(lines); i++ {
		l := lines[i]
		if strings.Contains(l, "internal/verif/vrt") || strings.HasPrefix(l, "panic(") || strings.HasPrefix(l, "runtime.") || strings.HasPrefix(l, "goroutine ") {
			i++ // skip the file line too
			continue
		}
		out = append(out, l)
		if len(out) > 24 {
			break
		}
	}
	return strings.Join(out, "\n")
}

func finish() {
	select {
	case S.mainSem <- struct{}{}:
	default:
	}
}

// Fail records a failure (first one wins) and ends the run.
func Fail(msg string) {
	if S.Failure == "" {
		S.Failure = msg
	}
}

// spawn creates a controlled thread without yielding.
func spawn(name string, f func()) *Thread {
	t := newThread(name)
	t.Parent = -1
	if S.cur != nil {
		t.Parent = S.cur.ID
	}
	if S.Explore && S.SpawnHook != nil {
		S.SpawnHook(t.Parent, t.ID)
	}
	S.wg.Add(1)
	go threadMain(t, f)
	return t
}

// Go spawns a controlled thread.
func Go(f func()) {
	if !S.Active {
		go f()
		return
	}
	spawn("", f)
	Point(&Op{Kind: OpYield, Name: "go"})
}

// GoNamed spawns a controlled thread with a name (harness use).
func GoNamed(name string, f func()) *Thread {
	t := spawn(name, f)
	Point(&Op{Kind: OpYield, Name: "go"})
	return t
}

// Point declares the current thread's next op and blocks until it is scheduled.
func Point(op *Op) Result {
	me := S.cur
	if me.abort || S.finished {
		runtime.Goexit()
	}
	me.op = op
	if OnPoint != nil {
		OnPoint()
	}
	dispatch(me)
	return me.res
}

// Hazards: misuse of a synchronisation primitive that the shims notice (e.g. the same
// object handed back to a sync.Pool twice, so that two later users share it). Harnesses
// collect them with TakeHazards and report them under the property they endanger.
var hazards []string

func Hazard(s string) {
	for _, h := range hazards {
		if h == s {
			return
		}
	}
	hazards = append(hazards, s)
}

func TakeHazards() []string {
	h := hazards
	hazards = nil
	return h
}

// OnPoint, if set, is called at every decision point before the next transition is chosen
// (the caller's thread is the only one running): harnesses use it to sample state that
// only exists between two observable events.
var OnPoint func()

func chanReady(t *Thread, i int, c Case, alts *[]Alt) int {
	if !c.Ch.IsValid() || c.Ch.IsNil() {
		return 0
	}
	n := 0
	p := c.Ch.Pointer()
	_, isClosed := S.closed[p]
	if c.Send {
		if isClosed || c.Ch.Len() < c.Ch.Cap() {
			*alts = append(*alts, Alt{T: t, Case: i})
			return 1
		}
	} else {
		if c.Ch.Len() > 0 || isClosed {
			*alts = append(*alts, Alt{T: t, Case: i})
			return 1
		}
		if S.external[p] {
			// nothing is ever sent on an external channel, so a successful TryRecv means
			// that it has been closed
			if v, ok := c.Ch.TryRecv(); v.IsValid() && !ok {
				S.closed[p] = c.Ch
				*alts = append(*alts, Alt{T: t, Case: i})
				return 1
			}
		}
	}
	if c.Ch.Cap() == 0 {
		for _, o := range S.threads {
			if o == t || o.done || o.op == nil || o.op.Kind != OpChan {
				continue
			}
			for j, oc := range o.op.Cases {
				if oc.Send != c.Send && oc.Ch.IsValid() && !oc.Ch.IsNil() && oc.Ch.Pointer() == p {
					// canonical: pair listed once, from the lower thread id
					if t.ID < o.ID {
						*alts = append(*alts, Alt{T: t, Case: i, Partner: o, PCase: j})
					}
					n++
				}
			}
		}
	}
	return n
}

func enabledAlts() []Alt {
	var alts []Alt
	for _, t := range S.threads {
		if t.done || t.op == nil {
			continue
		}
		op := t.op
		switch op.Kind {
		case OpStart, OpAtomic, OpResume, OpYield:
			alts = append(alts, Alt{T: t})
		case OpLock:
			if !op.Mu.Held {
				alts = append(alts, Alt{T: t})
			}
		case OpRLock:
			switch {
			case op.Announce:
				// first half of a write lock: one writer at a time gets this far
				if !op.RW.Announced {
					alts = append(alts, Alt{T: t})
				}
			case op.Write:
				if !op.RW.Writer && op.RW.Readers == 0 {
					alts = append(alts, Alt{T: t})
				}
			case !op.RW.Writer && !op.RW.Announced:
				alts = append(alts, Alt{T: t})
			}
		case OpWait:
			if op.WG.N <= 0 {
				alts = append(alts, Alt{T: t})
			}
		case OpSleep:
			if S.Clock >= op.T {
				alts = append(alts, Alt{T: t})
			}
		case OpCustom:
			if op.Pred() || (op.T > 0 && S.Clock >= op.T) {
				alts = append(alts, Alt{T: t})
			}
		case OpChan:
			n := 0
			for i, c := range op.Cases {
				n += chanReady(t, i, c, &alts)
			}
			if n == 0 && op.Deflt {
				alts = append(alts, Alt{T: t, Case: -1})
			}
		}
	}
	for i := range alts {
		alts[i].Op = alts[i].T.op
	}
	if len(alts) == 0 {
		for _, t := range S.threads {
			if !t.done && t.op != nil && t.op.Kind == OpQuiesce {
				alts = append(alts, Alt{T: t, Op: t.op})
			}
		}
	}
	return alts
}

// MemAcc is a plain (unsynchronised) access to a struct field, noted by instrumented code.
type MemAcc struct {
	Addr  uintptr
	Class uint32 // identifies (struct type, field); stable across executions, unlike Addr
	Write bool
}

// Acc notes a plain access of the running transition to the field at base+off. Only the
// explorers use it (as part of the transition's footprint); it is not a decision point.
func Acc(base unsafe.Pointer, off uintptr, write bool, class uint32) {
	if !S.Active || !S.Explore || base == nil {
		return
	}
	a := uintptr(base) + off
	for i := range S.accs {
		if S.accs[i].Addr == a {
			if write {
				S.accs[i].Write = true
			}
			return
		}
	}
	S.accs = append(S.accs, MemAcc{a, class, write})
	S.addrClass[a] = class
}

// Cls only tells the runtime which (struct type, field) the word at base+off is; emitted
// where instrumented code passes the field's address to an atomic operation, so that the
// atomic operation can be related to plain accesses of the same field seen in other runs.
func Cls(base unsafe.Pointer, off uintptr, class uint32) {
	if !S.Active || !S.Explore || base == nil {
		return
	}
	S.addrClass[uintptr(base)+off] = class
}

// ClassOf returns the class of a field address seen in this run.
func ClassOf(a uintptr) (uint32, bool) {
	c, ok := S.addrClass[a]
	return c, ok
}

// TakeAccs returns and clears the accesses noted since the last call.
func TakeAccs() []MemAcc {
	r := S.accs
	S.accs = nil
	return r
}

// VRT_TRACE=1 prints every executed transition to stderr (debugging aid).
var traceEnv = os.Getenv("VRT_TRACE") != ""

// Quiesce parks the caller until no other thread is enabled (time does not move).
func Quiesce() {
	if !S.Active {
		return
	}
	Point(&Op{Kind: OpQuiesce, Name: "quiesce"})
}

// Yield is a plain scheduling point.
func Yield(name string) {
	if S.Active {
		Point(&Op{Kind: OpYield, Name: name})
	}
}

// dispatch: choose next alternative, perform its effect, wake its thread; park me.
func dispatch(me *Thread) {
	for {
		if S.Failure != "" || S.finished {
			finish()
			park(me)
			return
		}
		S.Steps++
		if S.MaxStep > 0 && S.Steps > S.MaxStep {
			S.Failure = "step cap"
			finish()
			park(me)
			return
		}
		alts := enabledAlts()
		if len(alts) == 0 {
			if S.FirstPanic != "" {
				// the process would have died at the first panic: do not move time
				S.Failure = S.FirstPanic
				finish()
				park(me)
				return
			}
			if advanceClock() {
				continue
			}
			S.Failure = "deadlock: " + dumpThreads()
			finish()
			park(me)
			return
		}
		if len(alts) > 1 {
			sort.SliceStable(alts, func(i, j int) bool {
				// current thread first, then ascending ids
				ci := alts[i].T == me || (me != nil && alts[i].Partner == me)
				cj := alts[j].T == me || (me != nil && alts[j].Partner == me)
				if ci != cj {
					return ci
				}
				if S.RoundRobin {
					n := len(S.threads)
					return (alts[i].T.ID-S.lastTid-1+n)%n < (alts[j].T.ID-S.lastTid-1+n)%n
				}
				return alts[i].T.ID < alts[j].T.ID
			})
		}
		k := 0
		if S.Explore {
			k = S.choose(me, alts)
			if S.Failure != "" {
				finish()
				park(me)
				return
			}
			if k < 0 || k >= len(alts) {
				S.Failure = fmt.Sprintf("NONDETERMINISM: choice %d out of range (%d alternatives) at point %d", k, len(alts), len(S.Points))
				finish()
				park(me)
				return
			}
		}
		a := alts[k]
		if S.Explore && S.Record {
			objs, ro, _ := a.Op.Footprint()
			cur := -1
			if me != nil && !me.done {
				cur = me.ID
			}
			S.Points = append(S.Points, PointRec{Tid: a.T.ID, Name: a.Op.Name, Kind: a.Op.Kind, Case: a.Case,
				NAlts: len(alts), Chosen: k, Cur: cur, objs: objs, write: !ro})
		}
		if traceEnv {
			fmt.Fprintf(os.Stderr, "VRT t%d(%s) %s case%d [%d alts] clk+%dms\n", a.T.ID, a.T.Name, a.Op.Name, a.Case, len(alts), (S.Clock-Epoch0)/1e6)
		}
		if S.TraceAll {
			S.Trace = append(S.Trace, fmt.Sprintf("t%d(%s) %s case%d [%d alts] clk+%dms", a.T.ID, a.T.Name, a.Op.Name, a.Case, len(alts), (S.Clock-Epoch0)/1e6))
		}
		perform(a)
		S.lastTid = a.T.ID
		a.T.LastRun = S.Clock
		if a.T == me {
			S.cur = me
			return
		}
		S.cur = a.T
		a.T.sem <- struct{}{}
		park(me)
		return
	}
}

func park(me *Thread) {
	if me == nil || me.done {
		return
	}
	<-me.sem
	if me.abort {
		runtime.Goexit()
	}
}

func perform(a Alt) {
	t := a.T
	op := t.op
	switch op.Kind {
	case OpLock:
		op.Mu.Held = true
		t.heldMu = append(t.heldMu, op.Mu)
	case OpRLock:
		switch {
		case op.Announce:
			op.RW.Announced = true
			t.annRW = append(t.annRW, op.RW)
		case op.Write:
			op.RW.Writer = true
			t.heldRW = append(t.heldRW, rwHold{op.RW, true})
			for i, a := range t.annRW {
				if a == op.RW {
					t.annRW = append(t.annRW[:i], t.annRW[i+1:]...)
					break
				}
			}
		default:
			op.RW.Readers++
			t.heldRW = append(t.heldRW, rwHold{op.RW, false})
		}
	case OpChan:
		if a.Case == -1 {
			t.res = Result{Idx: -1}
			break
		}
		c := op.Cases[a.Case]
		if a.Partner != nil {
			pc := a.Partner.op.Cases[a.PCase]
			if c.Send {
				a.Partner.res = Result{Idx: a.PCase, Val: c.Val, Ok: true}
				t.res = Result{Idx: a.Case, Ok: true}
			} else {
				t.res = Result{Idx: a.Case, Val: pc.Val, Ok: true}
				a.Partner.res = Result{Idx: a.PCase, Ok: true}
			}
			a.Partner.op = &Op{Kind: OpResume, Name: "rendezvous"}
			break
		}
		if c.Send {
			if _, isClosed := S.closed[c.Ch.Pointer()]; isClosed {
				t.res = Result{Idx: a.Case, Ok: false} // caller panics
				t.op = nil
				return
			}
			if !c.Ch.TrySend(c.Val) {
				panic("vrt: TrySend failed on ready channel")
			}
			t.res = Result{Idx: a.Case, Ok: true}
		} else {
			v, ok := c.Ch.TryRecv()
			if !v.IsValid() {
				panic("vrt: TryRecv failed on ready channel")
			}
			t.res = Result{Idx: a.Case, Val: v, Ok: ok}
		}
	}
	t.op = nil
}

func advanceClock() bool {
	var next int64 = -1
	for _, t := range S.threads {
		if !t.done && t.op != nil && (t.op.Kind == OpSleep || (t.op.Kind == OpCustom && t.op.T > 0)) {
			if next < 0 || t.op.T < next {
				next = t.op.T
			}
		}
	}
	for _, tm := range S.timers {
		if !tm.Dead && (next < 0 || tm.At < next) {
			next = tm.At
		}
	}
	if next < 0 {
		return false
	}
	if m := S.threads[0]; !m.done && next-m.LastRun > S.HangAfter && !(m.op != nil && m.op.Kind == OpSleep) {
		S.Failure = fmt.Sprintf("hang: script thread blocked for more than %ds of virtual time: %s", S.HangAfter/1e9, dumpThreads())
		return true
	}
	AdvanceTo(next)
	return true
}

// AdvanceTo moves the clock and fires due timers (no yield).
func AdvanceTo(t int64) {
	if t > S.Clock {
		S.Clock = t
	}
	live := S.timers[:0]
	for _, tm := range S.timers {
		if !tm.Dead {
			live = append(live, tm)
		}
	}
	S.timers = live
	for _, tm := range S.timers {
		if tm.Dead || tm.At > S.Clock {
			continue
		}
		if tm.Ch.IsValid() {
			tm.Ch.TrySend(tm.mkVal(S.Clock))
		}
		if tm.Fn != nil {
			spawn("timerfn", tm.Fn)
		}
		if tm.Period > 0 {
			for tm.At <= S.Clock {
				tm.At += tm.Period
			}
		} else {
			tm.Dead = true
		}
	}
}

func AddTimer(tm *Timer, mk func(int64) reflect.Value) {
	tm.mkVal = mk
	S.timers = append(S.timers, tm)
}

func dumpThreads() string {
	s := ""
	for _, t := range S.threads {
		if t.done {
			continue
		}
		k := "-"
		n := ""
		if t.op != nil {
			k = t.op.Kind.String()
			n = t.op.Name
		}
		s += fmt.Sprintf("[t%d %s %s %s]", t.ID, t.Name, k, n)
	}
	return s
}

// DumpThreads describes all live threads (diagnostics).
func DumpThreads() string { return dumpThreads() }

// ---------------------------------------------------------------- channel API

func Send[T any](c chan<- T, v T) {
	if !S.Active {
		c <- v
		return
	}
	r := Point(&Op{Kind: OpChan, Name: "send", Obj: chanPtr(c), Write: true,
		Cases: []Case{{Send: true, Ch: reflect.ValueOf(c), Val: reflect.ValueOf(&v).Elem()}}})
	if !r.Ok && c != nil {
		if _, cl := S.closed[chanPtr(c)]; cl {
			panic("send on closed channel")
		}
	}
}

func chanPtr(c interface{}) uintptr {
	v := reflect.ValueOf(c)
	if !v.IsValid() || v.IsNil() {
		return 0
	}
	return v.Pointer()
}

func Recv[T any](c <-chan T) T {
	if !S.Active {
		return <-c
	}
	r := Point(&Op{Kind: OpChan, Name: "recv", Obj: chanPtr(c), Write: true,
		Cases: []Case{{Ch: reflect.ValueOf(c)}}})
	return val[T](r)
}

func Recv2[T any](c <-chan T) (T, bool) {
	if !S.Active {
		v, ok := <-c
		return v, ok
	}
	r := Point(&Op{Kind: OpChan, Name: "recv", Obj: chanPtr(c), Write: true,
		Cases: []Case{{Ch: reflect.ValueOf(c)}}})
	return val[T](r), r.Ok
}

func val[T any](r Result) T {
	var z T
	if !r.Val.IsValid() {
		return z
	}
	if x, ok := r.Val.Interface().(T); ok {
		return x
	}
	return z
}

func Close[T any](c chan<- T) {
	if !S.Active {
		close(c)
		return
	}
	Point(&Op{Kind: OpAtomic, Name: "close", Obj: chanPtr(c), Write: true})
	if _, dup := S.closed[chanPtr(c)]; dup {
		panic("close of closed channel")
	}
	S.closed[chanPtr(c)] = reflect.ValueOf(c)
	// the real channel is closed too so len()/cap() and passthrough readers agree
	close(c)
}

func R[T any](c <-chan T) Case { return Case{Ch: reflect.ValueOf(c)} }
func S_[T any](c chan<- T, v T) Case {
	return Case{Send: true, Ch: reflect.ValueOf(c), Val: reflect.ValueOf(&v).Elem()}
}

func Select(hasDefault bool, cases ...Case) (int, Result) {
	if !S.Active {
		rc := make([]reflect.SelectCase, 0, len(cases)+1)
		for _, c := range cases {
			if c.Send {
				rc = append(rc, reflect.SelectCase{Dir: reflect.SelectSend, Chan: c.Ch, Send: c.Val})
			} else {
				rc = append(rc, reflect.SelectCase{Dir: reflect.SelectRecv, Chan: c.Ch})
			}
		}
		if hasDefault {
			rc = append(rc, reflect.SelectCase{Dir: reflect.SelectDefault})
		}
		i, v, ok := reflect.Select(rc)
		if hasDefault && i == len(cases) {
			return -1, Result{Idx: -1}
		}
		return i, Result{Idx: i, Val: v, Ok: ok}
	}
	r := Point(&Op{Kind: OpChan, Name: "select", Write: true, Cases: cases, Deflt: hasDefault})
	if r.Idx >= 0 && cases[r.Idx].Send && !r.Ok {
		if _, cl := S.closed[cases[r.Idx].Ch.Pointer()]; cl {
			panic("send on closed channel")
		}
	}
	return r.Idx, r
}

func Val[T any](c <-chan T, r Result) T          { return val[T](r) }
func Val2[T any](c <-chan T, r Result) (T, bool) { return val[T](r), r.Ok }

// MapKeys returns the keys of m in a deterministic order.
func MapKeys[K comparable, V any](m map[K]V) []K {
	ks := make([]K, 0, len(m))
	for k := range m {
		ks = append(ks, k)
	}
	if len(ks) > 1 {
		sort.Slice(ks, func(i, j int) bool { return keyLess(ks[i], ks[j]) })
	}
	return ks
}

func keyLess(a, b interface{}) bool {
	switch x := a.(type) {
	case string:
		return x < b.(string)
	case int:
		return x < b.(int)
	case int64:
		return x < b.(int64)
	case int32:
		return x < b.(int32)
	case uint64:
		return x < b.(uint64)
	}
	va := reflect.ValueOf(a)
	if va.Kind() == reflect.Array && va.Type().Elem().Kind() == reflect.Uint8 {
		vb := reflect.ValueOf(b)
		for i := 0; i < va.Len(); i++ {
			x, y := va.Index(i).Uint(), vb.Index(i).Uint()
			if x != y {
				return x < y
			}
		}
		return false
	}
	return fmt.Sprint(a) < fmt.Sprint(b)
}

// PendingOp returns the pending operation of thread id (nil if none).
func PendingOp(id int) *Op {
	if id < 0 || id >= len(S.threads) {
		return nil
	}
	return S.threads[id].op
}

// ThreadDone reports whether thread id has finished.
func ThreadDone(id int) bool { return id < 0 || id >= len(S.threads) || S.threads[id].done }

// RegisterExternal declares a channel that is closed by goroutines outside the runtime.
func RegisterExternal(ch interface{}) {
	if S.Active {
		S.external[chanPtr(ch)] = true
	}
}

// NThreads returns the number of threads created so far in this run.
func NThreads() int { return len(S.threads) }

// Window opens/closes the exploration window.
func Window(on bool) {
	if S.Active {
		S.Explore = on
	}
}

// MarkShared fills PointRec.Shared: the point's op touched an object that, over the
// whole recorded window, was touched by at least two threads, one of them writing.
func MarkShared(pts []PointRec) {
	type acc struct {
		threads map[int]bool
		write   bool
	}
	m := map[uintptr]*acc{}
	for _, p := range pts {
		for _, o := range p.objs {
			a := m[o]
			if a == nil {
				a = &acc{threads: map[int]bool{}}
				m[o] = a
			}
			a.threads[p.Tid] = true
			if p.write {
				a.write = true
			}
		}
	}
	for i := range pts {
		p := &pts[i]
		if p.Kind == OpSleep || p.Kind == OpQuiesce || p.Kind == OpCustom && len(p.objs) == 0 {
			p.Shared = true
			continue
		}
		for _, o := range p.objs {
			if a := m[o]; a != nil && len(a.threads) >= 2 && a.write {
				p.Shared = true
			}
		}
	}
}

// Jump moves the virtual clock forward by d nanoseconds as one transition of the calling
// thread, wherever the scheduler places it: time passing *between* two steps of other
// threads (a preempted goroutine, a slow lock) becomes an explorable event. The transition
// is global (dependent on everything: any step may read the clock).
func Jump(d int64) {
	if !S.Active {
		return
	}
	Point(&Op{Kind: OpCustom, Name: "ClockJump", Pred: func() bool { return true }})
	AdvanceTo(S.Clock + d)
}

// SleepFor parks the caller until the virtual clock has advanced by d nanoseconds.
func SleepFor(d int64) {
	if !S.Active {
		return
	}
	Point(&Op{Kind: OpSleep, Name: "Sleep", T: S.Clock + d})
}
