//go:build go1.18

package vrt

import (
	"errors"
	"io"
	"net"
	"os"
	"time"
	"unsafe"
)

// Conn is one end of an in-memory duplex connection whose blocking is visible to the
// scheduler. It implements net.Conn.
type Conn struct {
	name   string
	local  string
	in     *pipeBuf
	out    *pipeBuf
	rdl    int64
	closed bool
	// OnWrite, if set, observes every Write performed on this end (harness use).
	OnWrite func(p []byte)
	// MaxRead, if > 0, caps what one Read returns: the peer's data arrives in segments
	// (a single Read returning a whole reply is a property of loopback, not of TCP)
	MaxRead int
}

type pipeBuf struct {
	data   []byte
	closed bool
}

type addr string

func (a addr) Network() string { return "tcp" }
func (a addr) String() string  { return string(a) }

// Pipe returns the two ends of a connection; a and b are the remote-address names seen
// by the respective *other* end.
func Pipe(a, b string) (*Conn, *Conn) {
	x, y := &pipeBuf{}, &pipeBuf{}
	return &Conn{name: a, local: b, in: x, out: y}, &Conn{name: b, local: a, in: y, out: x}
}

func (c *Conn) Read(p []byte) (int, error) {
	if len(p) == 0 {
		return 0, nil
	}
	if S.Active {
		Point(&Op{Kind: OpCustom, Name: "conn.Read", Obj: uintptr(unsafe.Pointer(c.in)), Write: true, T: c.rdl, Pred: func() bool {
			return len(c.in.data) > 0 || c.in.closed || c.closed
		}})
	}
	if c.closed {
		return 0, errors.New("use of closed network connection")
	}
	if len(c.in.data) > 0 {
		if c.MaxRead > 0 && len(p) > c.MaxRead {
			p = p[:c.MaxRead]
		}
		n := copy(p, c.in.data)
		c.in.data = c.in.data[n:]
		return n, nil
	}
	if c.in.closed {
		return 0, io.EOF
	}
	return 0, os.ErrDeadlineExceeded
}

// Buffered returns the bytes waiting to be read on this end (harness use; no scheduling).
func (c *Conn) Buffered() int { return len(c.in.data) }

// PeerClosed reports whether the other end has closed.
func (c *Conn) PeerClosed() bool { return c.in.closed }

func (c *Conn) Write(p []byte) (int, error) {
	if S.Active {
		Point(&Op{Kind: OpAtomic, Name: "conn.Write", Obj: uintptr(unsafe.Pointer(c.out)), Write: true})
	}
	if c.closed {
		return 0, errors.New("use of closed network connection")
	}
	if c.out.closed {
		// peer closed its end: like a RST
		return 0, errors.New("write: broken pipe")
	}
	if c.OnWrite != nil {
		c.OnWrite(p)
	}
	c.out.data = append(c.out.data, p...)
	return len(p), nil
}

func (c *Conn) Close() error {
	if S.Active {
		Point(&Op{Kind: OpAtomic, Name: "conn.Close", Obj: uintptr(unsafe.Pointer(c.out)), Objs: []uintptr{uintptr(unsafe.Pointer(c.in))}, Write: true})
	}
	if c.closed {
		return errors.New("use of closed network connection")
	}
	c.closed = true
	c.out.closed = true
	// the peer's writes now fail
	c.in.closed = true
	return nil
}

// CloseWrite half-closes: the peer reads EOF after draining.
func (c *Conn) CloseWrite() error {
	if S.Active {
		Point(&Op{Kind: OpAtomic, Name: "conn.CloseWrite", Obj: uintptr(unsafe.Pointer(c.out)), Write: true})
	}
	c.out.closed = true
	return nil
}

func (c *Conn) LocalAddr() net.Addr  { return addr("127.0.0.1:" + c.local) }
func (c *Conn) RemoteAddr() net.Addr { return addr("127.0.0.1:" + c.name) }
func (c *Conn) SetDeadline(t time.Time) error {
	c.SetReadDeadline(t)
	return nil
}
func (c *Conn) SetReadDeadline(t time.Time) error {
	if t.IsZero() {
		c.rdl = 0
	} else {
		c.rdl = t.UnixNano()
	}
	return nil
}
func (c *Conn) SetWriteDeadline(t time.Time) error { return nil }

// ReadNoSched copies buffered bytes without a scheduling point (harness use only).
func (c *Conn) ReadNoSched(p []byte) (int, error) {
	n := copy(p, c.in.data)
	c.in.data = c.in.data[n:]
	return n, nil
}
