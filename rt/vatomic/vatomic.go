//go:build go1.18

package vatomic

import (
	orig "sync/atomic"
	"unsafe"

	"github.com/nsqio/nsq/internal/verif/vrt"
)

func pt(p unsafe.Pointer, w bool, n string) {
	if vrt.Active() {
		vrt.Point(&vrt.Op{Kind: vrt.OpAtomic, Name: n, Obj: uintptr(p), Write: w})
	}
}

func AddInt32(a *int32, d int32) int32    { pt(unsafe.Pointer(a), true, "Add"); return orig.AddInt32(a, d) }
func AddInt64(a *int64, d int64) int64    { pt(unsafe.Pointer(a), true, "Add"); return orig.AddInt64(a, d) }
func AddUint32(a *uint32, d uint32) uint32 { pt(unsafe.Pointer(a), true, "Add"); return orig.AddUint32(a, d) }
func AddUint64(a *uint64, d uint64) uint64 { pt(unsafe.Pointer(a), true, "Add"); return orig.AddUint64(a, d) }
func LoadInt32(a *int32) int32            { pt(unsafe.Pointer(a), false, "Load"); return orig.LoadInt32(a) }
func LoadInt64(a *int64) int64            { pt(unsafe.Pointer(a), false, "Load"); return orig.LoadInt64(a) }
func LoadUint32(a *uint32) uint32         { pt(unsafe.Pointer(a), false, "Load"); return orig.LoadUint32(a) }
func LoadUint64(a *uint64) uint64         { pt(unsafe.Pointer(a), false, "Load"); return orig.LoadUint64(a) }
func StoreInt32(a *int32, v int32)        { pt(unsafe.Pointer(a), true, "Store"); orig.StoreInt32(a, v) }
func StoreInt64(a *int64, v int64)        { pt(unsafe.Pointer(a), true, "Store"); orig.StoreInt64(a, v) }
func StoreUint32(a *uint32, v uint32)     { pt(unsafe.Pointer(a), true, "Store"); orig.StoreUint32(a, v) }
func StoreUint64(a *uint64, v uint64)     { pt(unsafe.Pointer(a), true, "Store"); orig.StoreUint64(a, v) }
func SwapInt32(a *int32, v int32) int32   { pt(unsafe.Pointer(a), true, "Swap"); return orig.SwapInt32(a, v) }
func SwapInt64(a *int64, v int64) int64   { pt(unsafe.Pointer(a), true, "Swap"); return orig.SwapInt64(a, v) }
func SwapUint32(a *uint32, v uint32) uint32 { pt(unsafe.Pointer(a), true, "Swap"); return orig.SwapUint32(a, v) }
func SwapUint64(a *uint64, v uint64) uint64 { pt(unsafe.Pointer(a), true, "Swap"); return orig.SwapUint64(a, v) }
func CompareAndSwapInt32(a *int32, o, n int32) bool {
	pt(unsafe.Pointer(a), true, "CAS")
	return orig.CompareAndSwapInt32(a, o, n)
}
func CompareAndSwapInt64(a *int64, o, n int64) bool {
	pt(unsafe.Pointer(a), true, "CAS")
	return orig.CompareAndSwapInt64(a, o, n)
}
func CompareAndSwapUint32(a *uint32, o, n uint32) bool {
	pt(unsafe.Pointer(a), true, "CAS")
	return orig.CompareAndSwapUint32(a, o, n)
}
func CompareAndSwapUint64(a *uint64, o, n uint64) bool {
	pt(unsafe.Pointer(a), true, "CAS")
	return orig.CompareAndSwapUint64(a, o, n)
}

type Value struct{ v orig.Value }

func (v *Value) Load() interface{}   { pt(unsafe.Pointer(v), false, "Value.Load"); return v.v.Load() }
func (v *Value) Store(x interface{}) { pt(unsafe.Pointer(v), true, "Value.Store"); v.v.Store(x) }
func (v *Value) Swap(x interface{}) interface{} {
	pt(unsafe.Pointer(v), true, "Value.Swap")
	return v.v.Swap(x)
}
func (v *Value) CompareAndSwap(o, n interface{}) bool {
	pt(unsafe.Pointer(v), true, "Value.CAS")
	return v.v.CompareAndSwap(o, n)
}
