//go:build go1.18

// Package fakensqd is a minimal nsqd stand-in for the relay-tool harnesses: it speaks
// enough of the V2 protocol for go-nsq's Producer, records every accepted PUB body and
// answers each publish according to a scripted verdict.
package fakensqd

import (
	"bufio"
	"encoding/binary"
	"io"
	"net"
	"strings"
	"sync"
)

type Server struct {
	L        net.Listener
	mu       sync.Mutex
	// per publish: ok | err | close | closebefore | down ; exhausted => ok. "down": the
	// destination is down when the tool wants to publish - no live connection, and the next
	// connection attempt is cut off before IDENTIFY is answered (consumes the verdict)
	verdicts []string
	n        int
	Accepted [][]byte // bodies answered OK, in order
	Seen     [][]byte // every body fully received
	conns    []net.Conn
}

func New() *Server {
	l, err := net.Listen("tcp", "127.0.0.1:0")
	if err != nil {
		panic(err)
	}
	s := &Server{L: l}
	go s.accept()
	return s
}

func (s *Server) Addr() string { return s.L.Addr().String() }

// Script sets the verdicts of the coming publishes and clears the records.
func (s *Server) Script(v []string) {
	s.mu.Lock()
	s.verdicts, s.n, s.Accepted, s.Seen = v, 0, nil, nil
	down := len(v) > 0 && v[0] == "down"
	if down {
		for _, c := range s.conns {
			c.Close()
		}
		s.conns = nil
	}
	s.mu.Unlock()
}

// Peek returns the verdict the next publish (or connection attempt) will get.
func (s *Server) Peek() string { return s.peek() }

func (s *Server) peek() string {
	s.mu.Lock()
	defer s.mu.Unlock()
	if s.n < len(s.verdicts) {
		return s.verdicts[s.n]
	}
	return "ok"
}

func (s *Server) Records() (accepted, seen [][]byte) {
	s.mu.Lock()
	defer s.mu.Unlock()
	return append([][]byte(nil), s.Accepted...), append([][]byte(nil), s.Seen...)
}

func (s *Server) Close() {
	s.L.Close()
	s.mu.Lock()
	for _, c := range s.conns {
		c.Close()
	}
	s.mu.Unlock()
}

func (s *Server) next() string {
	s.mu.Lock()
	defer s.mu.Unlock()
	v := "ok"
	if s.n < len(s.verdicts) {
		v = s.verdicts[s.n]
	}
	s.n++
	return v
}

func (s *Server) accept() {
	for {
		c, err := s.L.Accept()
		if err != nil {
			return
		}
		s.mu.Lock()
		if s.n < len(s.verdicts) && s.verdicts[s.n] == "down" {
			s.n++
			s.mu.Unlock()
			c.Close()
			continue
		}
		s.conns = append(s.conns, c)
		s.mu.Unlock()
		go s.serve(c)
	}
}

func frame(c net.Conn, typ int32, data []byte) {
	var hdr [8]byte
	binary.BigEndian.PutUint32(hdr[:4], uint32(len(data)+4))
	binary.BigEndian.PutUint32(hdr[4:], uint32(typ))
	c.Write(append(hdr[:], data...))
}

func (s *Server) serve(c net.Conn) {
	defer c.Close()
	r := bufio.NewReader(c)
	magic := make([]byte, 4)
	if _, err := io.ReadFull(r, magic); err != nil {
		return
	}
	readBody := func() ([]byte, bool) {
		var n int32
		if binary.Read(r, binary.BigEndian, &n) != nil || n < 0 {
			return nil, false
		}
		b := make([]byte, n)
		if _, err := io.ReadFull(r, b); err != nil {
			return nil, false
		}
		return b, true
	}
	for {
		line, err := r.ReadString('\n')
		if err != nil {
			return
		}
		f := strings.Fields(strings.TrimSpace(line))
		if len(f) == 0 {
			continue
		}
		switch f[0] {
		case "IDENTIFY":
			if _, ok := readBody(); !ok {
				return
			}
			frame(c, 0, []byte(`{"max_rdy_count":2500,"version":"1.2.0","max_msg_timeout":900000,"msg_timeout":60000,"tls_v1":false,"deflate":false,"deflate_level":0,"max_deflate_level":6,"snappy":false,"sample_rate":0,"auth_required":false,"output_buffer_size":16384,"output_buffer_timeout":250}`))
		case "PUB", "DPUB":
			v := s.next()
			if v == "closebefore" {
				return
			}
			b, ok := readBody()
			if !ok {
				return
			}
			s.mu.Lock()
			s.Seen = append(s.Seen, b)
			s.mu.Unlock()
			switch v {
			case "ok":
				s.mu.Lock()
				s.Accepted = append(s.Accepted, b)
				s.mu.Unlock()
				frame(c, 0, []byte("OK"))
			case "err":
				frame(c, 1, []byte("E_PUB_FAILED PUB failed"))
			case "close":
				return
			}
			if s.peek() == "down" {
				return // the destination goes down right after this publish
			}
		case "MPUB":
			if _, ok := readBody(); !ok {
				return
			}
			frame(c, 0, []byte("OK"))
		case "NOP":
		case "CLS":
			frame(c, 0, []byte("CLOSE_WAIT"))
		default:
			frame(c, 1, []byte("E_INVALID invalid command"))
			return
		}
	}
}
