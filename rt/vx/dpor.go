//go:build go1.18

package vx

import (
	"fmt"
	"os"
	"sort"
	"time"

	"github.com/nsqio/nsq/internal/verif/vrt"
)

// DPOR explores every Mazurkiewicz trace of the body's window with dynamic partial-order
// reduction (Flanagan-Godefroid backtrack sets computed from the happens-before relation
// of each executed trace) combined with sleep sets. Stateless: every execution re-runs the
// body from scratch, replaying the choices of the current DFS prefix.
//
// Events are the decision points taken inside the window. Two events are dependent iff
// they touch a common object and not both in the read class (vrt.Op.Footprint). Release
// operations (unlock, WaitGroup.Done) order later events but are never the first half of
// a reversible race: the acquire they enable cannot run before them.

type dEvent struct {
	tid     int
	partner int // rendezvous partner thread, -1 if none
	objs    []uintptr
	ro      bool
	release bool
	clock   []int // clock[t] = 1 + index of the last event of thread t that happens-before-or-is this one
	before  []int // the clock without the event itself
	mem     []vrt.MemAcc // plain field accesses made by the transition (noted by instrumented code)
}

type dNode struct {
	alts      []ainfo      // enabled alternatives at this state, canonical order
	enabledT  map[int]bool // threads with at least one enabled alternative
	backtrack map[key]bool
	done      map[key]bool
	sleep     map[key]bool
	sleepMem  map[key][]vrt.MemAcc // plain accesses of each sleeping transition (known from the sibling run that executed it)
	memOf     map[key][]vrt.MemAcc // plain accesses of each alternative executed from this node
	chosen    int // index into alts
}

func (n *dNode) addThread(tid int) bool {
	added := false
	for _, a := range n.alts {
		if (a.k.tid == tid || a.k.partner == tid) && !n.backtrack[a.k] {
			n.backtrack[a.k] = true
			added = true
		}
	}
	return added
}

func (n *dNode) next() int {
	for i, a := range n.alts {
		if n.backtrack[a.k] && !n.done[a.k] && !n.sleep[a.k] {
			return i
		}
	}
	return -1
}

func DPOR(body Body, opt Opt) Res {
	res := Res{Outcomes: map[string]int{}, Exhaustive: true}
	if opt.MaxSteps == 0 {
		opt.MaxSteps = 200000
	}
	var stack []*dNode
	first := true
	for first || len(stack) > 0 {
		first = false
		if (opt.MaxRuns > 0 && res.Runs >= opt.MaxRuns) || (!opt.Deadline.IsZero() && time.Now().After(opt.Deadline)) {
			res.Exhaustive = false
			res.Capped = fmt.Sprintf("stopped after %d runs (budget)", res.Runs)
			break
		}
		prefixLen := len(stack)
		var events []dEvent
		threadClock := map[int][]int{} // clock of the last event of each thread (or its spawn clock)
		grow := func(c []int, n int) []int {
			for len(c) < n {
				c = append(c, 0)
			}
			return c
		}
		join := func(a, b []int) []int {
			if len(b) > len(a) {
				a = grow(a, len(b))
			}
			for i, v := range b {
				if v > a[i] {
					a[i] = v
				}
			}
			return a
		}
		vrt.S.SpawnHook = func(parent, child int) {
			if pc, ok := threadClock[parent]; ok {
				threadClock[child] = append([]int(nil), pc...)
			}
		}
		blocked := false
		// record appends an event with its vector clock and turns the race it closes (if
		// any) into a backtrack point. A virtual event stands for the pending operation of
		// a thread in an execution that was cut short (panic, step cap): it is checked for
		// races like a real one but not appended.
		record := func(tid, partner int, op *vrt.Op, virtual bool) {
			i := len(events)
			objs, ro, _ := op.Footprint()
			ev := dEvent{tid: tid, partner: partner, objs: objs, ro: ro, release: op.Release}
			clk := append([]int(nil), threadClock[tid]...)
			if partner >= 0 {
				clk = join(clk, threadClock[partner])
			}
			before := append([]int(nil), clk...) // what happens-before this event, excluding itself
			// race detection: the last earlier event, by another thread, dependent with this
			// one, not a release, and not already ordered before it
			raceI := -1
			for x := len(events) - 1; x >= 0; x-- {
				e := &events[x]
				if !depEv(e, &ev) && !memVsOp(e.mem, ev.objs, ev.ro) {
					continue
				}
				ordered := e.tid < len(before) && before[e.tid] > x
				if raceI < 0 && e.tid != tid && e.tid != partner && (e.partner < 0 || (e.partner != tid && e.partner != partner)) && !e.release && !ordered {
					raceI = x
				}
				clk = join(clk, e.clock)
			}
			if raceI >= 0 && raceI < len(stack) {
				addBacktrack(stack[raceI], events, raceI, i, tid, before)
				if partner >= 0 {
					addBacktrack(stack[raceI], events, raceI, i, partner, before)
				}
			}
			if virtual {
				return
			}
			clk = grow(clk, tid+1)
			clk[tid] = i + 1
			ev.clock = clk
			ev.before = before
			events = append(events, ev)
			threadClock[tid] = clk
			if partner >= 0 {
				threadClock[partner] = append([]int(nil), clk...)
			}
		}
		// flush attaches the plain field accesses noted while the last transition ran to its
		// event, orders it after the conflicting earlier events and turns the latest
		// unordered conflict (a data race: two threads, one address, at least one write,
		// no happens-before) into a backtrack point like any other race.
		flush := func() {
			accs := vrt.TakeAccs()
			if len(accs) == 0 || len(events) == 0 {
				return
			}
			i := len(events) - 1
			ev := &events[i]
			ev.mem = append(ev.mem, accs...)
			if i < len(stack) {
				nd := stack[i]
				if nd.memOf == nil {
					nd.memOf = map[key][]vrt.MemAcc{}
				}
				nd.memOf[nd.alts[nd.chosen].k] = ev.mem
			}
			raceI := -1
			clk := ev.clock
			for x := i - 1; x >= 0; x-- {
				e := &events[x]
				if !memVsMem(e.mem, accs) && !memVsOp(accs, e.objs, e.ro) {
					continue
				}
				ordered := e.tid < len(clk) && clk[e.tid] > x
				if raceI < 0 && e.tid != ev.tid && e.tid != ev.partner && !ordered {
					raceI = x
				}
				clk = join(clk, e.clock)
			}
			ev.clock = clk
			threadClock[ev.tid] = clk
			if raceI >= 0 && raceI < len(stack) {
				res.MemRaces++
				addBacktrack(stack[raceI], events, raceI, i, ev.tid, ev.before)
			}
		}
		// checkPending: at every state, the *pending* operation of every live thread -
		// executed later, never executed, enabled or blocked - is checked against the trace
		// so far (Flanagan-Godefroid check next(s,p) for all p at every s; a blocked receive
		// that would have succeeded before an earlier drain is found only this way).
		checkPending := func() {
			for t := 0; t < vrt.NThreads(); t++ {
				if op := vrt.PendingOp(t); op != nil && !vrt.ThreadDone(t) {
					record(t, -1, op, true)
				}
			}
		}
		vrt.S.EndHook = func() {
			if !blocked {
				flush()
				checkPending()
			}
		}
		var curSleep map[key]bool // sleep set for the next node to be created
		var curSleepMem map[key][]vrt.MemAcc
		ch := func(cur *vrt.Thread, alts []vrt.Alt) int {
			if blocked {
				return 0
			}
			flush()
			i := len(events)
			if i > 0 && curSleep != nil {
				// a sleeping transition whose plain accesses conflict with what the last
				// transition just did (known only now) is woken up
				last := &events[i-1]
				for k := range curSleep {
					var objs []uintptr
					ro := true
					if op := vrt.PendingOp(k.tid); op != nil {
						objs, ro, _ = op.Footprint()
					}
					if classVsClass(curSleepMem[k], last.mem) || memVsOp(last.mem, objs, ro) {
						delete(curSleep, k)
					}
				}
			}
			if i >= prefixLen {
				checkPending()
			}
			var n *dNode
			if i < prefixLen {
				n = stack[i]
				// determinism: the recorded alternative must still be there
				if n.chosen >= len(alts) || alts[n.chosen].T.ID != n.alts[n.chosen].k.tid || alts[n.chosen].Op.Name != n.alts[n.chosen].name {
					vrt.Fail(fmt.Sprintf("NONDETERMINISM: replay diverged at point %d (want t%d %s)", i, n.alts[n.chosen].k.tid, n.alts[n.chosen].name))
					return 0
				}
			} else {
				n = &dNode{enabledT: map[int]bool{}, backtrack: map[key]bool{}, done: map[key]bool{}, sleep: curSleep, sleepMem: curSleepMem}
				if n.sleep == nil {
					n.sleep = map[key]bool{}
				}
				for _, a := range alts {
					n.alts = append(n.alts, ainfo{altKey(a), a.Op, a.Op.Name})
					n.enabledT[a.T.ID] = true
					if a.Partner != nil {
						n.enabledT[a.Partner.ID] = true
					}
				}
				c := -1
				for j, a := range n.alts {
					if !n.sleep[a.k] {
						c = j
						break
					}
				}
				if c < 0 {
					if os.Getenv("VX_DEBUG") != "" {
						t := ""
						for x := prefixLen - 3; x < len(stack); x++ {
							if x >= 0 {
								a := stack[x].alts[stack[x].chosen]
								t += fmt.Sprintf(" [%d]t%d.%s", x, a.k.tid, a.name)
							}
						}
						fmt.Fprintf(os.Stderr, "BLOCKED at %d (prefix %d):%s | alts:", i, prefixLen, t)
						for _, a := range n.alts {
							fmt.Fprintf(os.Stderr, " t%d.%s(mem %v)", a.k.tid, a.name, n.sleepMem[a.k])
						}
						fmt.Fprintln(os.Stderr)
					}
					blocked = true
					vrt.Fail("sleep-blocked")
					return 0
				}
				n.chosen = c
				n.addThread(n.alts[c].k.tid)
				if opt.AllPts {
					for t := range n.enabledT {
						n.addThread(t)
					}
				}
				stack = append(stack, n)
			}
			a := alts[n.chosen]
			// sleep set of the successor: (sleep ∪ done) filtered by independence with a
			if i >= prefixLen-1 {
				z := map[key]bool{}
				zm := map[key][]vrt.MemAcc{}
				for k := range n.sleep {
					z[k] = true
					zm[k] = n.sleepMem[k]
				}
				for k := range n.done {
					z[k] = true
					zm[k] = n.memOf[k]
				}
				curSleep = filt(z, ainfo{k: altKey(a), op: a.Op})
				aobjs, aro, _ := a.Op.Footprint()
				for k := range curSleep {
					if classVsObjs(zm[k], aobjs, aro) {
						delete(curSleep, k)
					}
				}
				curSleepMem = zm
				if opt.NoSleep {
					curSleep = nil
				}
			}
			p := -1
			if a.Partner != nil {
				p = a.Partner.ID
			}
			record(a.T.ID, p, a.Op, false)
			return n.chosen
		}
		var o Out
		vrt.S.KeepGoing = true
		f := vrt.Run(ch, opt.MaxSteps, func() { o = body() })
		vrt.S.KeepGoing = false
		vrt.S.SpawnHook = nil
		vrt.S.EndHook = nil
		res.Runs++
		if len(events) > res.MaxPoints {
			res.MaxPoints = len(events)
		}
		if blocked {
			res.Blocked++
		} else {
			sched := make([]int, 0, len(events))
			for i := 0; i < len(events) && i < len(stack); i++ {
				sched = append(sched, stack[i].chosen)
			}
			res.merge(o, f, sched)
			if os.Getenv("VX_DEBUG") != "" {
				s := ""
				for i := 0; i < len(events) && i < len(stack); i++ {
					a := stack[i].alts[stack[i].chosen]
					s += fmt.Sprintf(" t%d.%s@%s", a.k.tid, a.name, fpStr(a.op))
				}
				fmt.Fprintln(os.Stderr, "RUN:"+s+" => "+o.Obs+" "+FailSig(f))
			}
		}
		// the stack may be longer than the events of this run only if the run failed early
		if len(stack) > len(events) {
			stack = stack[:len(events)]
		}
		// backtrack: find the deepest node with an unexplored alternative
		for len(stack) > 0 {
			n := stack[len(stack)-1]
			n.done[n.alts[n.chosen].k] = true
			if c := n.next(); c >= 0 {
				n.chosen = c
				break
			}
			stack = stack[:len(stack)-1]
		}
	}
	return res
}

// memVsMem: two sets of plain accesses conflict (one address, at least one write).
func memVsMem(a, b []vrt.MemAcc) bool {
	for _, x := range a {
		for _, y := range b {
			if x.Addr == y.Addr && (x.Write || y.Write) {
				return true
			}
		}
	}
	return false
}

// classVsClass: conflict between the plain accesses of a sleeping transition (recorded in
// an earlier execution, where heap addresses were different) and those of the transition
// just executed, judged per (struct type, field) - an over-approximation of "same address"
// that can only wake a sleeper too often.
func classVsClass(a, b []vrt.MemAcc) bool {
	for _, x := range a {
		for _, y := range b {
			if x.Class == y.Class && (x.Write || y.Write) {
				return true
			}
		}
	}
	return false
}

// classVsObjs: the plain accesses of a sleeping transition against the words an executed
// synchronisation operation (an atomic) touches, related through the field class of those
// words in the current execution.
func classVsObjs(m []vrt.MemAcc, objs []uintptr, ro bool) bool {
	for _, o := range objs {
		c, ok := vrt.ClassOf(o)
		if !ok {
			continue
		}
		for _, x := range m {
			if x.Class == c && (x.Write || !ro) {
				return true
			}
		}
	}
	return false
}

// memVsOp: plain accesses conflict with a synchronisation operation on the same word
// (a plain access mixed with an atomic one).
func memVsOp(m []vrt.MemAcc, objs []uintptr, ro bool) bool {
	for _, x := range m {
		for _, o := range objs {
			if x.Addr == o && (x.Write || !ro) {
				return true
			}
		}
	}
	return false
}

func depEv(a, b *dEvent) bool {
	if a.ro && b.ro {
		return false
	}
	for _, x := range a.objs {
		for _, y := range b.objs {
			if x == y {
				return true
			}
		}
	}
	return false
}

// addBacktrack: event j (thread p) races with event i. At the state before i, schedule p
// if it was enabled (and not asleep) there; otherwise a thread q enabled there that has an event between i
// and j which happens-before j; otherwise every enabled thread.
func addBacktrack(n *dNode, events []dEvent, i, j, p int, beforeJ []int) {
	// a thread whose alternatives are all asleep at this node cannot be scheduled here (its
	// next transition first was explored from an ancestor); another initial of the sequence
	// that has to precede j must be taken instead
	usable := func(t int) bool {
		for _, a := range n.alts {
			if (a.k.tid == t || a.k.partner == t) && !n.sleep[a.k] {
				return true
			}
		}
		return false
	}
	if n.enabledT[p] && usable(p) {
		n.addThread(p)
		return
	}
	var qs []int
	for q := range n.enabledT {
		if usable(q) {
			qs = append(qs, q)
		}
	}
	sort.Ints(qs) // deterministic exploration order
	for _, q := range qs {
		if q < len(beforeJ) && beforeJ[q] > i+1 {
			// some event of q with index in (i, j) happens-before j
			n.addThread(q)
			return
		}
	}
	for _, q := range qs {
		n.addThread(q)
	}
}
