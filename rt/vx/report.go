//go:build go1.18

package vx

import (
	"crypto/sha1"
	"encoding/json"
	"fmt"
	"os"
	"path/filepath"
	"regexp"
	"sort"
	"strings"
	"time"
)

// Found is one violation produced by an oracle.
type Found struct {
	// Sig identifies *what* failed in a way that is stable across runs: scenario, oracle
	// clause and the call sites / input involved. Known findings match on it.
	Sig    string      `json:"sig"`
	Detail string      `json:"detail"`
	Replay interface{} `json:"replay,omitempty"`
}

// Report accumulates what a check covered and writes the evidence file.
type Report struct {
	Property string
	Tier     string
	Level    string
	Rule     string
	Seed     int64

	Evaluations int
	Outcomes    map[string]int // distinct observable outcomes (non-trivial = distinct)
	States      int
	Transitions int
	Traces      int
	Samples     []interface{}
	Exhaustive  bool
	Assumptions []string
	Extra       map[string]interface{}
	Found       []Found
	Infra       []string // infrastructure trouble: turns the exit code into 2
	Notes       []string
	start       time.Time
}

func NewReport(prop, tier, level string) *Report {
	return &Report{Property: prop, Tier: tier, Level: level, Outcomes: map[string]int{}, Extra: map[string]interface{}{},
		start: time.Now(), Exhaustive: true}
}

func (r *Report) Outcome(o string) { r.Outcomes[o]++ }
func (r *Report) Sample(s interface{}) {
	if len(r.Samples) < 12 {
		r.Samples = append(r.Samples, s)
	}
}
func (r *Report) Violation(f Found) { r.Found = append(r.Found, f) }
func (r *Report) InfraError(s string) {
	r.Infra = append(r.Infra, s)
	r.Exhaustive = false
}

// VerifDir is where evidence/, replays/ and known_findings.jsonl live.
func VerifDir() string {
	if d := os.Getenv("VERIF_DIR"); d != "" {
		return d
	}
	return "/verif"
}

type knownFinding struct {
	Property string `json:"property"`
	Match    string `json:"match"` // regular expression on Found.Sig
	What     string `json:"what"`
	Status   string `json:"status"` // "known" (suppresses) or "fixed" (suppresses nothing)
	Commit   string `json:"commit,omitempty"`
}

func loadKnown(prop string) []knownFinding {
	home := os.Getenv("VERIF_HOME")
	if home == "" {
		home = VerifDir()
	}
	b, err := os.ReadFile(filepath.Join(home, "known_findings.jsonl"))
	if err != nil {
		return nil
	}
	var out []knownFinding
	for _, l := range strings.Split(string(b), "\n") {
		l = strings.TrimSpace(l)
		if l == "" || strings.HasPrefix(l, "#") {
			continue
		}
		var k knownFinding
		if json.Unmarshal([]byte(l), &k) == nil && k.Property == prop && k.Status == "known" {
			out = append(out, k)
		}
	}
	return out
}

// Finish writes evidence, prints VIOLATION / KNOWN-FINDING lines and returns the exit code.
func (r *Report) Finish() int {
	known := loadKnown(r.Property)
	knownHit := map[int]int{}
	var fresh []Found
	for _, f := range r.Found {
		hit := -1
		for i, k := range known {
			if ok, _ := regexp.MatchString(k.Match, f.Sig); ok {
				hit = i
				break
			}
		}
		if hit >= 0 {
			knownHit[hit]++
		} else {
			fresh = append(fresh, f)
		}
	}
	// one replay file per distinct signature (files of earlier runs are removed)
	os.RemoveAll(filepath.Join(VerifDir(), "replays", r.Property))
	seen := map[string]bool{}
	var lines []string
	for _, f := range fresh {
		if seen[f.Sig] {
			continue
		}
		seen[f.Sig] = true
		h := fmt.Sprintf("%x", sha1.Sum([]byte(f.Sig)))[:12]
		dir := filepath.Join(VerifDir(), "replays", r.Property)
		os.MkdirAll(dir, 0755)
		p := filepath.Join(dir, h+".json")
		b, _ := json.MarshalIndent(map[string]interface{}{"property": r.Property, "sig": f.Sig, "detail": f.Detail, "replay": f.Replay}, "", " ")
		os.WriteFile(p, b, 0644)
		lines = append(lines, fmt.Sprintf("VIOLATION property=%s replay=%s", r.Property, p))
		fmt.Printf("--- %s: %s\n%s\n", r.Property, f.Sig, trunc(f.Detail, 3000))
	}
	for i, k := range known {
		if knownHit[i] > 0 {
			fmt.Printf("KNOWN-FINDING: property=%s %s (%d occurrences this run)\n", r.Property, k.What, knownHit[i])
		}
	}
	for _, l := range lines {
		fmt.Println(l)
	}
	for _, s := range r.Infra {
		fmt.Println("INFRA:", trunc(s, 2000))
	}

	cov := map[string]interface{}{
		"evaluations":         r.Evaluations,
		"distinct_nontrivial": len(r.Outcomes) + r.States,
		"rule":                r.Rule,
		"samples":             r.Samples,
		"exhaustive":          r.Exhaustive && len(r.Infra) == 0,
	}
	if r.States > 0 {
		cov["states"] = r.States
		cov["transitions"] = r.Transitions
		cov["traces_validated_against_impl"] = r.Traces
	}
	for k, v := range r.Extra {
		cov[k] = v
	}
	if len(r.Samples) == 0 {
		cov["samples"] = []interface{}{"(none)"}
	}
	// a few outcomes, for the reader
	var oc []string
	for o := range r.Outcomes {
		oc = append(oc, o)
	}
	sort.Strings(oc)
	if len(oc) > 12 {
		oc = oc[:12]
	}
	cov["outcome_examples"] = oc
	knownN := 0
	for _, n := range knownHit {
		knownN += n
	}
	cov["known_finding_occurrences"] = knownN
	if r.Assumptions == nil {
		r.Assumptions = []string{"the enumerated input domain is the one stated in coverage.rule; the daemon under test is the real code built from the current tree"}
	}
	if r.Notes == nil {
		r.Notes = []string{}
	}
	ev := map[string]interface{}{
		"property_id": r.Property,
		"tier":        r.Tier,
		"seed":        r.Seed,
		"level":       r.Level,
		"coverage":    cov,
		"assumptions": r.Assumptions,
		"wall_s":      time.Since(r.start).Seconds(),
		"violations":  len(seen),
		"notes":       r.Notes,
	}
	b, _ := json.MarshalIndent(ev, "", " ")
	os.MkdirAll(filepath.Join(VerifDir(), "evidence"), 0755)
	if err := os.WriteFile(filepath.Join(VerifDir(), "evidence", r.Property+".json"), b, 0644); err != nil {
		fmt.Println("INFRA: cannot write evidence:", err)
		return 2
	}
	fmt.Printf("%s %s: evaluations=%d distinct_outcomes=%d states=%d transitions=%d violations=%d known=%d exhaustive=%v wall=%.1fs\n",
		r.Property, r.Tier, r.Evaluations, len(r.Outcomes), r.States, r.Transitions, len(seen), knownN, cov["exhaustive"], time.Since(r.start).Seconds())
	if len(seen) > 0 {
		return 1
	}
	if len(r.Infra) > 0 {
		return 2
	}
	return 0
}

// Deadline helps a check stop early with exhaustive=false instead of running over budget.
type Deadline struct{ at time.Time }

func NewDeadline(d time.Duration) Deadline { return Deadline{time.Now().Add(d)} }
func (d Deadline) Passed() bool           { return time.Now().After(d.at) }
