//go:build go1.18

package vx

import (
	"fmt"
	"os"
	"regexp"
	"sort"
	"strings"
	"time"

	"github.com/nsqio/nsq/internal/verif/vrt"
)

// Out is what one execution of a scenario body yields.
type Out struct {
	Obs  string  // observable outcome (final state / return values), for outcome counting
	Viol []Found // oracle violations seen in this execution
}

// Body runs as thread 0 of a fresh controlled execution. It builds its state, calls
// vrt.Quiesce(), opens the window with vrt.Window(true), runs the racing threads, closes
// the window and evaluates its oracle.
type Body func() Out

type Opt struct {
	MaxRuns  int
	Deadline time.Time
	NoSleep  bool // brute force (no sleep sets)
	MaxSteps int
	AllPts   bool // E2: deviate at every point, not only shared ones
	// Post, if set, is called after each execution has ended (outside the controlled
	// runtime) and may add violations, e.g. from artefacts the body left behind.
	Post func(o *Out)
	// RoundRobin: E2 default scheduler is non-preemptive round robin instead of lowest id.
	RoundRobin bool
}

type Res struct {
	Runs       int            `json:"runs"`
	Blocked    int            `json:"blocked"`
	MaxPoints  int            `json:"max_points"`
	Outcomes   map[string]int `json:"outcomes"`
	Found      []Found        `json:"found"`
	Exhaustive bool           `json:"exhaustive"`
	Capped     string         `json:"capped,omitempty"`
	StepCaps   int            `json:"step_caps"`
	Infra      []string       `json:"infra,omitempty"`
	Bound      int            `json:"bound"`
	Candidates int            `json:"candidates"`
	MemRaces   int            `json:"mem_races"` // unordered conflicting plain accesses turned into backtrack points
}

func (r *Res) merge(o Out, fail string, sched []int) {
	if fail != "" {
		switch {
		case strings.HasPrefix(fail, "step cap"):
			r.StepCaps++
			r.Outcomes["(step cap)"]++
			return
		case strings.HasPrefix(fail, "NONDETERMINISM"):
			r.Infra = append(r.Infra, fail)
			return
		default:
			o.Viol = append(o.Viol, Found{Sig: FailSig(fail), Detail: fail})
			o.Obs = "FAIL " + FailSig(fail)
		}
	}
	r.Outcomes[o.Obs]++
	for _, v := range o.Viol {
		dup := false
		for _, f := range r.Found {
			if f.Sig == v.Sig {
				dup = true
				break
			}
		}
		if !dup {
			v.Replay = append([]int(nil), sched...)
			r.Found = append(r.Found, v)
		}
	}
}

var reFrame = regexp.MustCompile(`github\.com/nsqio/[^\s(]*(\([^)]*\))?[^\s(]*`)

// FailSig turns a runtime failure (panic / deadlock / hang) into a stable signature.
func FailSig(fail string) string {
	first := strings.SplitN(fail, "\n", 2)[0]
	if strings.HasPrefix(first, "panic in thread") {
		if i := strings.Index(first, "): "); i >= 0 {
			first = "panic: " + first[i+3:]
		}
		// first nsq frame that is not the harness or runtime
		for _, l := range strings.Split(fail, "\n")[1:] {
			if strings.Contains(l, "nsqio/") && !strings.Contains(l, "internal/verif") && !strings.Contains(l, "zz_verif") && !strings.HasPrefix(strings.TrimSpace(l), "/") {
				fn := strings.TrimSpace(l)
				if j := strings.LastIndex(fn, "("); j > 0 {
					fn = fn[:j]
				}
				return first + " @ " + fn
			}
		}
		return first
	}
	if strings.HasPrefix(first, "deadlock") {
		return "deadlock"
	}
	if strings.HasPrefix(first, "hang") {
		return "hang"
	}
	return first
}

type key struct{ tid, cas, partner int }

func altKey(a vrt.Alt) key {
	p := -1
	if a.Partner != nil {
		p = a.Partner.ID
	}
	return key{a.T.ID, a.Case, p}
}
type ainfo struct {
	k    key
	op   *vrt.Op
	name string
}
type node struct {
	alts   []ainfo
	sleep  map[key]bool
	chosen int
}

// filt keeps the sleeping keys whose *current* pending op commutes with a (ops are looked
// up in the running execution: object addresses differ between executions).
func filt(z map[key]bool, a ainfo) map[key]bool {
	out := map[key]bool{}
	for k := range z {
		op := vrt.PendingOp(k.tid)
		if k.tid != a.k.tid && k.tid != a.k.partner && (k.partner < 0 || (k.partner != a.k.tid && k.partner != a.k.partner)) && op != nil && vrt.Independent(op, a.op) {
			out[k] = true
		}
	}
	return out
}

// Interleave explores every schedule of the body's window (E1), reduced by sleep sets.
func Interleave(body Body, opt Opt) Res {
	res := Res{Outcomes: map[string]int{}, Exhaustive: true}
	if opt.MaxSteps == 0 {
		opt.MaxSteps = 200000
	}
	stop := false
	type exp struct {
		tid  int
		name string
	}
	var rec func(prefix []int, expect []exp, z0 map[key]bool)
	rec = func(prefix []int, expect []exp, z0 map[key]bool) {
		if stop {
			return
		}
		if (opt.MaxRuns > 0 && res.Runs >= opt.MaxRuns) || (!opt.Deadline.IsZero() && time.Now().After(opt.Deadline)) {
			stop = true
			res.Exhaustive = false
			res.Capped = fmt.Sprintf("stopped after %d runs (budget)", res.Runs)
			return
		}
		var trace []node
		z := z0
		blocked := false
		ch := func(cur *vrt.Thread, alts []vrt.Alt) int {
			if blocked {
				return 0
			}
			i := len(trace)
			n := node{sleep: z}
			for _, a := range alts {
				n.alts = append(n.alts, ainfo{altKey(a), a.Op, a.Op.Name})
			}
			c := -1
			if i < len(prefix) {
				c = prefix[i]
				if c >= len(alts) || (i < len(expect) && (expect[i].tid != alts[c].T.ID || expect[i].name != alts[c].Op.Name)) {
					vrt.Fail(fmt.Sprintf("NONDETERMINISM: replay diverged at point %d (want t%d %s)", i, expect[i].tid, expect[i].name))
					return 0
				}
			} else {
				for j, a := range n.alts {
					if !z[a.k] || opt.NoSleep {
						c = j
						break
					}
				}
				if c < 0 {
					blocked = true
					vrt.Fail("sleep-blocked")
					return 0
				}
			}
			n.chosen = c
			trace = append(trace, n)
			if opt.NoSleep {
				return c
			}
			if i >= len(prefix) {
				z = filt(z, n.alts[c])
			} else if i == len(prefix)-1 {
				z = filt(z0, n.alts[c]) // sleep set for the node right after the prefix
			}
			return c
		}
		var o Out
		f := vrt.Run(ch, opt.MaxSteps, func() { o = body() })
		res.Runs++
		if len(trace) > res.MaxPoints {
			res.MaxPoints = len(trace)
		}
		sched := make([]int, len(trace))
		for i, n := range trace {
			sched[i] = n.chosen
		}
		if blocked {
			res.Blocked++
		} else {
			res.merge(o, f, sched)
			if os.Getenv("VX_DEBUG") != "" {
				s := ""
				for _, n := range trace {
					a := n.alts[n.chosen]
					s += fmt.Sprintf(" t%d.%s@%s", a.k.tid, a.name, fpStr(a.op))
				}
				fmt.Fprintln(os.Stderr, "RUN:"+s+" => "+o.Obs+" "+FailSig(f))
			}
		}
		for i := len(trace) - 1; i >= len(prefix); i-- {
			n := trace[i]
			explored := map[key]bool{n.alts[n.chosen].k: true}
			for j, b := range n.alts {
				if j == n.chosen || explored[b.k] {
					continue
				}
				if n.sleep[b.k] && !opt.NoSleep {
					continue
				}
				zz := map[key]bool{}
				if !opt.NoSleep {
					for k := range n.sleep {
						zz[k] = true
					}
					for k := range explored {
						zz[k] = true
					}
				}
				np := make([]int, 0, i+1)
				ne := make([]exp, 0, i+1)
				for _, t := range trace[:i] {
					np = append(np, t.chosen)
					ne = append(ne, exp{t.alts[t.chosen].k.tid, t.alts[t.chosen].name})
				}
				np = append(np, j)
				ne = append(ne, exp{b.k.tid, b.name})
				rec(np, ne, zz)
				explored[b.k] = true
				if stop {
					return
				}
			}
		}
	}
	rec(nil, nil, map[key]bool{})
	return res
}

// RunSchedule executes body once under a fixed list of choices (then defaults).
func RunSchedule(body Body, sched []int, maxSteps int) (Out, string, []vrt.PointRec) {
	if maxSteps == 0 {
		maxSteps = 200000
	}
	vrt.S.Record = true
	defer func() { vrt.S.Record = false }()
	ch := func(cur *vrt.Thread, alts []vrt.Alt) int {
		i := len(vrt.S.Points)
		if i < len(sched) {
			return sched[i]
		}
		return 0
	}
	var o Out
	f := vrt.Run(ch, maxSteps, func() { o = body() })
	pts := append([]vrt.PointRec(nil), vrt.S.Points...)
	return o, f, pts
}

// Delay explores the default schedule plus every way of making at most `bound`
// deviations from it (E2). A deviation is taking a non-default alternative at a decision
// point; unless opt.AllPts, deviations are placed only at points whose default op touches
// an object that is shared (>= 2 threads, one writing) in the parent execution - skipping a
// thread right before an op nobody else can observe is equivalent to skipping it after.
func Delay(body Body, bound int, opt Opt) Res {
	res := Res{Outcomes: map[string]int{}, Exhaustive: true, Bound: bound}
	vrt.S.RoundRobin = opt.RoundRobin
	defer func() { vrt.S.RoundRobin = false }()
	stop := false
	var explore func(prefix []int, cost int)
	explore = func(prefix []int, cost int) {
		if stop {
			return
		}
		if (opt.MaxRuns > 0 && res.Runs >= opt.MaxRuns) || (!opt.Deadline.IsZero() && time.Now().After(opt.Deadline)) {
			stop = true
			res.Exhaustive = false
			res.Capped = fmt.Sprintf("stopped after %d runs (budget)", res.Runs)
			return
		}
		o, f, pts := RunSchedule(body, prefix, opt.MaxSteps)
		if opt.Post != nil && f == "" {
			opt.Post(&o)
		}
		res.Runs++
		if len(pts) > res.MaxPoints {
			res.MaxPoints = len(pts)
		}
		sched := make([]int, len(pts))
		for i, p := range pts {
			sched[i] = p.Chosen
		}
		if len(pts) < len(prefix) && f == "" {
			res.Infra = append(res.Infra, fmt.Sprintf("NONDETERMINISM: execution has %d points, prefix %d", len(pts), len(prefix)))
		}
		res.merge(o, f, sched)
		if cost >= bound {
			return
		}
		vrt.MarkShared(pts)
		for i := len(prefix); i < len(pts); i++ {
			p := pts[i]
			if p.NAlts < 2 || (!p.Shared && !opt.AllPts) {
				continue
			}
			if cost == 0 {
				res.Candidates++
			}
			for alt := 1; alt < p.NAlts; alt++ {
				np := append(append([]int{}, sched[:i]...), alt)
				explore(np, cost+1)
				if stop {
					return
				}
			}
		}
	}
	explore(nil, 0)
	return res
}

// Confirm re-executes a schedule n times and reports whether the same violation signature
// shows up every time.
func Confirm(body Body, sched []int, sig string, n int, post ...func(o *Out)) bool {
	for i := 0; i < n; i++ {
		o, f, _ := RunSchedule(body, sched, 0)
		if len(post) > 0 && post[0] != nil && f == "" {
			post[0](&o)
		}
		ok := false
		if f != "" && FailSig(f) == sig {
			ok = true
		}
		for _, v := range o.Viol {
			if v.Sig == sig {
				ok = true
			}
		}
		if !ok {
			return false
		}
	}
	return true
}

// SortedOutcomes lists outcome strings (diagnostics).
func SortedOutcomes(m map[string]int) []string {
	var ks []string
	for k := range m {
		ks = append(ks, k)
	}
	sort.Strings(ks)
	return ks
}

func fpStr(op *vrt.Op) string {
	objs, ro, _ := op.Footprint()
	s := ""
	for _, o := range objs {
		s += fmt.Sprintf("%x,", o)
	}
	if ro {
		return s + "/r"
	}
	return s + "/w"
}
