//go:build go1.18

// Package vx holds the explorers (E1 interleave, E2 delay, E3 opseq) and the plumbing they
// share: a pool of worker processes (the harness binary re-executed with -worker), the
// evidence writer and the known-findings filter.
package vx

import (
	"bufio"
	"encoding/json"
	"fmt"
	"io"
	"os"
	"os/exec"
	"runtime"
	"runtime/pprof"
	"strconv"
	"strings"
	"sync"
	"time"
)

// Handler runs one job inside a worker process.
type Handler func(arg json.RawMessage) (interface{}, error)

var handlers = map[string]Handler{}

func Register(kind string, h Handler) { handlers[kind] = h }

// Call runs a registered handler in this process (debugging aid).
func Call(kind string, arg json.RawMessage) (interface{}, error) {
	h := handlers[kind]
	if h == nil {
		return nil, fmt.Errorf("no handler %q", kind)
	}
	return h(arg)
}

type jobMsg struct {
	Kind string          `json:"k"`
	Arg  json.RawMessage `json:"a"`
}
type resMsg struct {
	Res json.RawMessage `json:"r,omitempty"`
	Err string          `json:"e,omitempty"`
}

// IsWorker reports whether this process was started as a pool worker.
func IsWorker() bool {
	for _, a := range os.Args[1:] {
		if a == "-worker" {
			return true
		}
	}
	return false
}

// WorkerMain serves jobs from stdin until EOF.
func WorkerMain() {
	in := bufio.NewReaderSize(os.Stdin, 1<<20)
	out := bufio.NewWriterSize(os.Stdout, 1<<20)
	// anything the code under test prints must not corrupt the protocol
	realOut := os.Stdout
	os.Stdout = os.Stderr
	out = bufio.NewWriterSize(realOut, 1<<20)
	for {
		line, err := in.ReadBytes('\n')
		if len(line) > 0 {
			var j jobMsg
			var r resMsg
			if e := json.Unmarshal(line, &j); e != nil {
				r.Err = "bad job: " + e.Error()
			} else if h := handlers[j.Kind]; h == nil {
				r.Err = "no handler for " + j.Kind
			} else {
				fmt.Fprintf(os.Stderr, "JOB %s %s\n", j.Kind, trunc(string(j.Arg), 300))
				v, e := h(j.Arg)
				if e != nil {
					r.Err = e.Error()
				} else {
					b, e := json.Marshal(v)
					if e != nil {
						r.Err = "marshal: " + e.Error()
					}
					r.Res = b
				}
			}
			if os.Getenv("VERIF_MEMSTAT") != "" {
				var ms runtime.MemStats
				runtime.GC()
				runtime.ReadMemStats(&ms)
				fmt.Fprintf(os.Stderr, "MEMSTAT live=%dMB sys=%dMB goroutines=%d\n", ms.HeapAlloc>>20, ms.Sys>>20, runtime.NumGoroutine())
				if f := os.Getenv("VERIF_HEAPPROF"); f != "" {
					if fh, e := os.Create(f); e == nil {
						pprof.WriteHeapProfile(fh)
						fh.Close()
					}
				}
			}
			b, _ := json.Marshal(r)
			out.Write(b)
			out.WriteByte('\n')
			out.Flush()
		}
		if err != nil {
			return
		}
	}
}

func trunc(s string, n int) string {
	if len(s) > n {
		return s[:n] + "…"
	}
	return s
}

// Workers returns the pool size.
func Workers() int {
	if s := os.Getenv("VERIF_WORKERS"); s != "" {
		if n, err := strconv.Atoi(s); err == nil && n > 0 {
			return n
		}
	}
	n := runtime.NumCPU()
	if n > 16 {
		n = 16
	}
	return n
}

type worker struct {
	cmd    *exec.Cmd
	in     io.WriteCloser
	out    *bufio.Reader
	errBuf *tailBuf
	jobs   int
}

type tailBuf struct {
	mu sync.Mutex
	b  []byte
}

func (t *tailBuf) Write(p []byte) (int, error) {
	t.mu.Lock()
	t.b = append(t.b, p...)
	if len(t.b) > 1<<16 {
		t.b = t.b[len(t.b)-(1<<15):]
	}
	t.mu.Unlock()
	return len(p), nil
}
func (t *tailBuf) String() string { t.mu.Lock(); defer t.mu.Unlock(); return string(t.b) }

func startWorker() (*worker, error) {
	cmd := exec.Command(os.Args[0], "-worker")
	cmd.Env = append(os.Environ(), "GOMAXPROCS=2", "GOGC=200")
	in, _ := cmd.StdinPipe()
	out, _ := cmd.StdoutPipe()
	eb := &tailBuf{}
	cmd.Stderr = eb
	if err := cmd.Start(); err != nil {
		return nil, err
	}
	return &worker{cmd: cmd, in: in, out: bufio.NewReaderSize(out, 1<<20), errBuf: eb}, nil
}

func (w *worker) stop() {
	w.in.Close()
	done := make(chan struct{})
	go func() { w.cmd.Wait(); close(done) }()
	select {
	case <-done:
	case <-time.After(5 * time.Second):
		w.cmd.Process.Kill()
		<-done
	}
}

// JobTimeout bounds one job's wall time (a stuck worker is killed and the job reported as
// crashed with reason "timeout"; that is infrastructure trouble, never a verdict).
var JobTimeout = 20 * time.Minute

// RecycleAfter restarts a worker after this many jobs (bounds leaked memory).
var RecycleAfter = 200

// Par runs every arg as a job of the given kind on the worker pool and calls each(i, result,
// crash) in the parent (serialised). crash is non-empty when the worker died or timed out
// on that job; it carries the tail of the worker's stderr.
func Par(kind string, args []interface{}, each func(i int, res json.RawMessage, errStr string, crash string)) {
	n := Workers()
	if n > len(args) {
		n = len(args)
	}
	if n == 0 {
		return
	}
	type item struct{ i int }
	ch := make(chan item)
	var mu sync.Mutex
	var wg sync.WaitGroup
	for k := 0; k < n; k++ {
		wg.Add(1)
		go func() {
			defer wg.Done()
			var w *worker
			defer func() {
				if w != nil {
					w.stop()
				}
			}()
			for it := range ch {
				if w == nil || w.jobs >= RecycleAfter {
					if w != nil {
						w.stop()
					}
					var err error
					w, err = startWorker()
					if err != nil {
						mu.Lock()
						each(it.i, nil, "", "cannot start worker: "+err.Error())
						mu.Unlock()
						w = nil
						continue
					}
				}
				ab, _ := json.Marshal(args[it.i])
				jb, _ := json.Marshal(jobMsg{Kind: kind, Arg: ab})
				w.jobs++
				type rr struct {
					line []byte
					err  error
				}
				rc := make(chan rr, 1)
				go func(w *worker) {
					w.in.Write(append(jb, '\n'))
					l, e := w.out.ReadBytes('\n')
					rc <- rr{l, e}
				}(w)
				var r rr
				timedOut := false
				select {
				case r = <-rc:
				case <-time.After(JobTimeout):
					timedOut = true
					w.cmd.Process.Kill()
					r = <-rc
				}
				if r.err != nil || timedOut {
					w.cmd.Wait()
					reason := "worker died"
					if timedOut {
						reason = "timeout"
					}
					tail := w.errBuf.String()
					w = nil
					mu.Lock()
					each(it.i, nil, "", reason+"\n"+lastLines(tail, 60))
					mu.Unlock()
					continue
				}
				var m resMsg
				if e := json.Unmarshal(r.line, &m); e != nil {
					m.Err = "bad result: " + e.Error()
				}
				mu.Lock()
				each(it.i, m.Res, m.Err, "")
				mu.Unlock()
			}
		}()
	}
	for i := range args {
		ch <- item{i}
	}
	close(ch)
	wg.Wait()
}

func lastLines(s string, n int) string {
	ls := strings.Split(strings.TrimRight(s, "\n"), "\n")
	if len(ls) > n {
		ls = ls[len(ls)-n:]
	}
	return strings.Join(ls, "\n")
}
