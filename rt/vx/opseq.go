//go:build go1.18

package vx

import (
	"encoding/json"
	"fmt"
	"time"
)

// E3: breadth-first search over operation sequences. A state is the shortest event history
// reaching it; successors are computed by worker processes that replay the history on a
// fresh implementation instance and apply one more event; states are deduplicated by the
// canonical key the harness computes from the implementation and its reference ledger.

type Succ struct {
	Ev   string  `json:"ev"`
	Key  string  `json:"key"`
	Viol []Found `json:"viol,omitempty"`
}

type ExpandArg struct {
	Cfg  json.RawMessage `json:"cfg"`
	Hist []string        `json:"hist"`
}

type ExpandRes struct {
	Succs []Succ `json:"succs"`
	Runs  int    `json:"runs"`
}

type BFSStats struct {
	States      int
	Transitions int
	Runs        int
	MaxDepth    int
	Exhaustive  bool
	PerDepth    []int
}

// BFS explores from the empty history to maxDepth. kind is the registered expand handler.
// each is called for every transition (in the parent). The search stops early (Exhaustive
// false) when the deadline passes; what was fully covered is in PerDepth.
func BFS(kind string, cfg interface{}, maxDepth int, deadline time.Time, rep *Report, label string) BFSStats {
	cb, _ := json.Marshal(cfg)
	st := BFSStats{Exhaustive: true}
	seen := map[string]bool{"": true}
	frontier := [][]string{{}}
	st.States = 1
	for depth := 0; depth < maxDepth && len(frontier) > 0; depth++ {
		if time.Now().After(deadline) {
			st.Exhaustive = false
			rep.Notes = append(rep.Notes, fmt.Sprintf("%s: deadline reached before depth %d (frontier %d states not expanded)", label, depth+1, len(frontier)))
			break
		}
		var args []interface{}
		for _, h := range frontier {
			args = append(args, ExpandArg{Cfg: cb, Hist: h})
		}
		var next [][]string
		results := make([]*ExpandRes, len(frontier))
		Par(kind, args, func(i int, res json.RawMessage, errStr, crash string) {
			if crash != "" {
				rep.InfraError(fmt.Sprintf("%s: worker crashed expanding %v: %s", label, frontier[i], crash))
				return
			}
			if errStr != "" {
				rep.InfraError(fmt.Sprintf("%s: expanding %v: %s", label, frontier[i], errStr))
				return
			}
			var r ExpandRes
			if err := json.Unmarshal(res, &r); err != nil {
				rep.InfraError("bad expand result: " + err.Error())
				return
			}
			results[i] = &r
		})
		// fold in frontier order so that the search is deterministic
		for i, r := range results {
			if r == nil {
				continue
			}
			st.Runs += r.Runs
			for _, s := range r.Succs {
				st.Transitions++
				hist := append(append([]string{}, frontier[i]...), s.Ev)
				for _, v := range s.Viol {
					if v.Replay == nil {
						v.Replay = map[string]interface{}{"kind": kind, "cfg": cfg, "hist": hist}
					}
					rep.Violation(v)
				}
				if !seen[s.Key] {
					seen[s.Key] = true
					st.States++
					next = append(next, hist)
					if len(rep.Samples) < 8 && len(hist) == maxDepth {
						rep.Sample(map[string]interface{}{"config": label, "history": hist, "state": s.Key})
					}
				}
			}
		}
		st.PerDepth = append(st.PerDepth, len(next))
		st.MaxDepth = depth + 1
		frontier = next
	}
	return st
}
