//go:build go1.18

// Package vnet replaces net in the packages that dial out: DialTimeout/Dial to an address
// registered by a harness yield an in-memory connection served by a controlled thread;
// everything else is the real package.
package vnet

import (
	"errors"
	orig "net"
	"strconv"
	"time"

	"github.com/nsqio/nsq/internal/verif/vrt"
)

// Endpoint decides what dialing an address does.
type Endpoint struct {
	// Refuse: the connection attempt fails.
	Refuse func() bool
	// Serve runs as a controlled thread with the server end of the connection.
	Serve func(conn orig.Conn)
	// ClientMaxRead, if set, caps what one Read of the dialing side returns (segmentation)
	ClientMaxRead func() int
}

var endpoints = map[string]*Endpoint{}
var dialSeq int

func Register(addr string, e *Endpoint) { endpoints[addr] = e }
func Reset()                            { endpoints = map[string]*Endpoint{}; dialSeq = 0 }

func DialTimeout(network, addr string, timeout time.Duration) (orig.Conn, error) {
	if e, ok := endpoints[addr]; ok && vrt.Active() {
		if e.Refuse != nil && e.Refuse() {
			return nil, errors.New("dial tcp " + addr + ": connect: connection refused")
		}
		dialSeq++
		// (every connection has its own source port, as ephemeral ports do: nsqlookupd keys its
		// peers by the remote address of the connection)
		s, c := vrt.Pipe(strconv.Itoa(40000+dialSeq), addr)
		if e.ClientMaxRead != nil {
			c.MaxRead = e.ClientMaxRead()
		}
		serve := e.Serve
		vrt.GoNamed("srv-"+addr, func() { serve(s) })
		return c, nil
	}
	return orig.DialTimeout(network, addr, timeout)
}

func Dial(network, addr string) (orig.Conn, error) { return DialTimeout(network, addr, 0) }
